"""Version regions and a partial evaluator for version predicates (DESIGN §3.3).

A version is (file, user, stream).  The evaluator interprets expression trees: calls to NiVersion::File/User/
Stream return the region's values, calls to the small pure NiVersion predicates (IsOB, IsSSE, …) are evaluated
from *their own bodies* as extracted from the current source, everything data-dependent evaluates to None
(unknown).  Three-valued logic for && || !.  This is constant folding over a finite configuration domain.
"""
from facts import is_node, walk, AnalysisBroken

NIV = "nifly::NiVersion"
# locals that merely cache a version expression: (decl id, name) -> initialiser node (filled by the summaries)
VERSION_LOCALS = {}


def register_locals(fn):
    """record the locals of fn that merely cache a version expression (defined once from a pure version expression);
    -> set of their ids"""
    from facts import walk as _walk, is_node as _is
    out = set()
    assigned = set(n["l"]["id"] for n in _walk(fn.get("body") or {}) if n["k"] == "Assign" and _is(n["l"]) and n["l"]["k"] == "Ref")
    for n in _walk(fn.get("body") or {}):
        if n["k"] == "Decl":
            for v in n.get("vars", []):
                if _is(v.get("init")) and v["id"] not in assigned and pure_version_init(v["init"]):
                    VERSION_LOCALS[(v["id"], v["name"])] = v["init"]
                    out.add(v["id"])
    return out


def _acc(short):
    return {"k": "Call", "cls": NIV, "short": short, "args": [], "t": "", "loc": ""}


# one-symbol-wide alias table with reasons (DESIGN R1.3)
READER_ALIASES = {
    "nifly::NiHeader::Get": {
        "vfile": _acc("File"),      # stored by version.SetFile(vfile) before any gate that depends on it is evaluated again
        "vuser": _acc("User"),      # stored by version.SetUser(vuser)
        "vstream": _acc("Stream"),  # stored by version.SetStream(vstream)
        "isNDS": {"k": "Lit", "lk": "bool", "val": 0, "t": "bool", "loc": ""},  # NDS headers are outside the supported version space
    },
}


VERSION_HELPERS = {}  # fid -> single return expression of a free/static helper whose only inputs are NiVersion objects


def pure_version_init(e):
    """is e built only from NiVersion accessors / predicates, constants and stream/header plumbing?"""
    saw = False
    for n in walk(e):
        k = n["k"]
        if k == "Call":
            if n.get("cls") == NIV:
                saw = True
            elif n.get("short") in ("GetVersion", "GetHeader"):
                continue
            elif n.get("fid") in VERSION_HELPERS:
                saw = True  # e.g. a file-static `HasPerParticleArrays(const NiVersion&)` extracted from repeated version tests
            else:
                return False
        elif k == "Member" and n.get("owner") == NIV:
            saw = True
        elif k == "Ref":
            if n.get("rk") == "local" and n.get("val") is not None and "const" in (n.get("t") or ""):
                continue  # a folded constant
            if n.get("rk") in ("local", "param") and "Stream" not in (n.get("t") or "") and "Header" not in (n.get("t") or "") \
                    and "NiVersion" not in (n.get("t") or "") and (n["id"], n["name"]) not in VERSION_LOCALS:
                return False
            if n.get("rk") == "local" and (n.get("id"), n.get("name")) in VERSION_LOCALS:
                saw = True  # a local that caches a version expression is one
        elif k in ("Binary", "Unary", "Lit", "Cast", "This", "Member", "Cond"):
            continue
        else:
            return False
    return saw


class VersionEval:
    def __init__(self, F):
        self.F = F
        self.pred_bodies = {}
        for f in F.fns.values():
            if f.get("cls") == NIV and not f.get("params") and f.get("const"):
                ret = self._single_return(f)
                if ret is not None:
                    self.pred_bodies[f["short"]] = ret
        # helpers of the form `bool H(const NiVersion& v) { return <expression over v only>; }`
        self.helpers = {}
        for f in F.fns.values():
            if f.get("cls") == NIV or f.get("tmpl") == "pattern" or not f.get("params"):
                continue
            if not all("NiVersion" in (p.get("ct") or p.get("t") or "") for p in f["params"]):
                continue
            ret = self._single_return(f)
            if ret is None:
                continue
            pids = {p["id"] for p in f["params"]}
            ok = True
            saw = False
            for n in walk(ret):
                k_ = n["k"]
                if k_ == "Call":
                    if n.get("cls") == NIV:
                        saw = True
                    else:
                        ok = False
                elif k_ == "Member" and n.get("owner") == NIV:
                    saw = True
                elif k_ == "Ref":
                    if n.get("rk") in ("local", "param") and n.get("id") not in pids:
                        ok = False
                elif k_ not in ("Binary", "Unary", "Lit", "Cast", "Cond", "Member"):
                    ok = False
            if ok and saw:
                self.helpers[f["id"]] = ret
                VERSION_HELPERS[f["id"]] = ret  # union over the trees analysed in this process (current + reference)

    @staticmethod
    def _single_return(fn):
        b = fn.get("body")
        if is_node(b) and b["k"] == "Compound" and len(b["body"]) == 1 and b["body"][0]["k"] == "Return":
            return b["body"][0].get("e")
        return None

    def ev(self, e, ver, depth=0, binds=None):
        """value of e (int/bool) in version ver=(file,user,stream), or None if not a version-only expression"""
        if not is_node(e) or depth > 30:
            return None
        k = e["k"]
        if k == "VerImp":
            return None
        if k == "VerOr":
            # disjunction of conjunctions of version guards synthesised at a control-flow join (flow.join)
            import flow as _flow
            unknown = False
            for conj in e["conjs"]:
                cv = True
                for key, pol in conj:
                    node = _flow.KEYNODE.get(key)
                    if isinstance(node, tuple):
                        v = self.ev(node[1], ver, depth + 1, binds)
                        v = None if v is None else (bool(v) == node[2])
                    else:
                        v = self.ev(node, ver, depth + 1, binds)
                        v = None if v is None else bool(v)
                    if v is None:
                        cv = None if cv is not False else False
                    elif v != pol:
                        cv = False
                if cv is True:
                    return True
                if cv is None:
                    unknown = True
            return None if unknown else False
        if k == "Call" and e.get("fid") in self.helpers:
            return self.ev(self.helpers[e["fid"]], ver, depth + 1, binds)
        if binds and k == "Ref" and e.get("id") in binds:
            return binds[e["id"]]
        if k == "Ref" and e.get("rk") == "local" and (e.get("id"), e.get("name")) in VERSION_LOCALS:
            return self.ev(VERSION_LOCALS[(e["id"], e["name"])], ver, depth + 1, binds)
        if k == "Call" and e.get("fid") in self.F.fns and e.get("cls") == NIV and e.get("smeth") and e.get("args"):
            # small pure static helpers (NiVersion::ToFile): evaluate the single return expression with bound arguments
            fn = self.F.fns[e["fid"]]
            ret = self._single_return(fn)
            vals = [self.ev(a, ver, depth + 1, binds) for a in e["args"]]
            if ret is not None and all(v is not None for v in vals) and len(vals) == len(fn.get("params", [])):
                b2 = {p["id"]: v for p, v in zip(fn["params"], vals)}
                return self.ev(ret, ver, depth + 1, b2)
            return None
        if k in ("Construct",) and len(e.get("args", [])) == 1:
            return self.ev(e["args"][0], ver, depth + 1, binds)
        if k == "Lit":
            return e.get("val")
        if "val" in e and k in ("Ref", "Sizeof", "Cast", "Member") and (e.get("rk") != "local" or "const" in (e.get("t") or "")):
            return e["val"]  # (a const local the compiler folds — `constexpr NiFileVersion first = V10_1_0_104;` — is its value)
        if k == "Cast":
            return self.ev(e["e"], ver, depth + 1, binds)
        if k == "Member" and e.get("owner") == NIV:
            return {"file": ver[0], "user": ver[1], "stream": ver[2], "nds": 0}.get(e["name"])
        if k == "Call" and e.get("cls") == NIV:
            sh = e.get("short")
            if sh == "File":
                return ver[0]
            if sh == "User":
                return ver[1]
            if sh == "Stream":
                return ver[2]
            if sh == "NDS":
                return 0  # alias table (DESIGN R1.3): Nintendo DS headers are outside the supported version space
            if sh in self.pred_bodies and not e.get("args"):
                return self.ev(self.pred_bodies[sh], ver, depth + 1, binds)
            return None
        if k == "Unary":
            v = self.ev(e["e"], ver, depth + 1, binds)
            if v is None:
                return None
            if e["op"] == "!":
                return not v
            if e["op"] == "-":
                return -v
            if e["op"] == "~":
                return ~v
            return None
        if k == "Binary":
            op = e["op"]
            a = self.ev(e["l"], ver, depth + 1, binds)
            if op == "&&":
                if a is not None and not a:
                    return False
                b = self.ev(e["r"], ver, depth + 1, binds)
                if b is not None and not b:
                    return False
                if a is None or b is None:
                    return None
                return True
            if op == "||":
                if a is not None and a:
                    return True
                b = self.ev(e["r"], ver, depth + 1, binds)
                if b is not None and b:
                    return True
                if a is None or b is None:
                    return None
                return False
            b = self.ev(e["r"], ver, depth + 1, binds)
            if a is None or b is None:
                return None
            if op in ("<<", ">>") and not (0 <= int(b) < 64):
                return None
            try:
                fn = {"<": lambda: a < b, ">": lambda: a > b, "<=": lambda: a <= b, ">=": lambda: a >= b,
                      "==": lambda: a == b, "!=": lambda: a != b, "+": lambda: a + b, "-": lambda: a - b,
                      "*": lambda: a * b, "&": lambda: int(a) & int(b), "|": lambda: int(a) | int(b),
                      "<<": lambda: int(a) << int(b), ">>": lambda: int(a) >> int(b)}.get(op)
                return fn() if fn else None
            except Exception:
                return None
        if k == "Cond":
            c = self.ev(e["c"], ver, depth + 1, binds)
            if c is None:
                return None
            return self.ev(e["a"] if c else e["b"], ver, depth + 1, binds)
        return None

    def is_version_expr(self, e):
        """True if e mentions the version object at all"""
        if is_node(e) and e["k"] in ("VerOr", "VerImp"):
            return True
        for n in walk(e):
            if n["k"] == "Call" and (n.get("cls") == NIV or n.get("fid") in self.helpers):
                return True
            if n["k"] == "Member" and n.get("owner") == NIV:
                return True
            if n["k"] == "Ref" and n.get("rk") == "local" and (n.get("id"), n.get("name")) in VERSION_LOCALS:
                return True
        return False

    # ---------------------------------------------------------------- regions
    def constants(self, extra_facts=()):
        """every constant the code compares File()/User()/Stream() (or the NiVersion members) against"""
        files, users, streams = set(), set(), set()
        axes = {"File": files, "User": users, "Stream": streams, "file": files, "user": users, "stream": streams}
        for F in (self.F,) + tuple(extra_facts):
            for fn in F.fns.values():
                for n in walk(fn.get("body") or {}):
                    if n["k"] != "Binary" or n["op"] not in ("<", ">", "<=", ">=", "==", "!="):
                        continue
                    for a, b in ((n["l"], n["r"]), (n["r"], n["l"])):
                        ax = self._axis(a)
                        if ax and is_node(b):
                            v = b.get("val")
                            if v is not None:
                                axes[ax].add(int(v))
        return files, users, streams

    @staticmethod
    def _axis(e):
        while is_node(e) and e["k"] == "Cast":
            e = e["e"]
        if not is_node(e):
            return None
        if e["k"] == "Call" and e.get("cls") == NIV and e.get("short") in ("File", "User", "Stream"):
            return e["short"]
        if e["k"] == "Member" and e.get("owner") == NIV and e["name"] in ("file", "user", "stream"):
            return e["name"]
        # locals initialised from them are handled by the region cut being conservative (cuts are supersets)
        return None

    def load_predicate(self):
        """the acceptance condition of NifFile::Load: the negated condition of the `return 2` branch"""
        loads = [f for f in self.F.fn_named("nifly::NifFile::Load") if "istream" in f["id"]]
        if len(loads) != 1:
            raise AnalysisBroken("cannot locate NifFile::Load(std::istream&, …)")
        # Load itself and the private helpers of NifFile it hands the reading to
        bodies = [loads[0]]
        for n in walk(loads[0]["body"]):
            if n["k"] == "Call" and n.get("fid") in self.F.fns and self.F.fns[n["fid"]].get("cls") == "nifly::NifFile" and \
                    self.F.fns[n["fid"]].get("access") in ("private", "protected") and self.F.fns[n["fid"]].get("body"):
                bodies.append(self.F.fns[n["fid"]])
        for fn in bodies:
            defs = {}
            for n in walk(fn["body"]):
                if n["k"] == "Decl":
                    for v in n.get("vars", []):
                        if is_node(v.get("init")):
                            defs[v["id"]] = v["init"]
            for n in walk(fn["body"]):
                if n["k"] != "If" or not is_node(n.get("cond")):
                    continue
                cond, accepted_when = n["cond"], False
                # `const bool supported = IsOB() || ...; if (!supported) return 2;` — the named flag is its definition
                c0, neg = cond, False
                while is_node(c0) and (c0["k"] == "Cast" or (c0["k"] == "Unary" and c0["op"] == "!")):
                    if c0["k"] == "Unary":
                        neg = not neg
                    c0 = c0["e"]
                if is_node(c0) and c0["k"] == "Ref" and c0.get("rk") == "local" and c0.get("id") in defs:
                    cond, accepted_when = defs[c0["id"]], neg
                if not self.is_version_expr(cond):
                    continue
                # the branch must reject: contains `return <nonzero>`
                rets = [x for x in walk(n["then"]) if x["k"] == "Return"]
                if rets and all(is_node(r.get("e")) and r["e"].get("val") != 0 for r in rets):
                    return cond, accepted_when  # accepted iff cond evaluates to accepted_when (`return 2;` / `return fail(2);`)
        raise AnalysisBroken("NifFile::Load: version acceptance test not found")

    def accepted(self, ver):
        cond, pol = self.load_predicate_cached()
        v = self.ev(cond, ver)
        if v is None:
            raise AnalysisBroken("Load's version predicate is not a pure version expression")
        return bool(v) == pol

    def load_predicate_cached(self):
        if not hasattr(self, "_lp"):
            self._lp = self.load_predicate()
        return self._lp

    def named_versions(self):
        """the versions produced by NiVersion::getXX() in the current source + extra OB/FO3/FO4/SF points"""
        out = {}
        for f in self.F.fns.values():
            if f.get("cls") == NIV and f.get("static") and f["short"].startswith("get"):
                ret = self._single_return(f)
                if is_node(ret) and ret["k"] in ("Construct", "Cast"):
                    args = ret.get("args") or []
                    vals = [a.get("val") for a in args if is_node(a)]
                    if len(vals) == 3 and all(v is not None for v in vals):
                        out[f["short"][3:]] = tuple(int(v) for v in vals)
        enum = self.F.enums.get("nifly::NiFileVersion")
        ev = {e["name"]: e["val"] for e in (enum or {}).get("enumerators", [])}
        extra = {
            "OB_10_1_0_106": (ev.get("V10_1_0_106"), 10, 5), "OB_10_2_0_0": (ev.get("V10_2_0_0"), 10, 9),
            "OB_20_0_0_4": (ev.get("V20_0_0_4"), 11, 11), "FO3_s34u11": (ev.get("V20_2_0_7"), 11, 34),
            "FO4_132": (ev.get("V20_2_0_7"), 12, 132), "FO4_139": (ev.get("V20_2_0_7"), 12, 139),
            "SF_173": (ev.get("V20_2_0_7"), 12, 173), "Special": (ev.get("V10_0_1_0"), 0, 0),
        }
        for k, v in extra.items():
            if v[0] is not None:
                out.setdefault(k, v)
        return {k: v for k, v in out.items() if self.accepted(v)}

    def regions(self, extra_facts=()):
        """all cells of the (file,user,stream) space cut at the constants the code compares against,
        filtered by Load's acceptance predicate; one representative per cell"""
        files, users, streams = self.constants(extra_facts)

        def cuts(cs, lo=0, hi=0xFFFFFFFF):
            pts = set()
            for c in cs:
                for d in (-1, 0, 1):
                    if lo <= c + d <= hi:
                        pts.add(c + d)
            pts.add(lo)
            return sorted(pts)

        out = []
        fvals = cuts(files)
        uvals = cuts(users)
        svals = cuts(streams)
        bethesda = self.pred_bodies.get("IsBethesda")
        for f in fvals:
            for u in uvals:
                # the stream version is read from the file only for Bethesda files; otherwise it stays 0
                is_b = self.ev(bethesda, (f, u, 0)) if bethesda is not None else True
                for s in (svals if is_b or is_b is None else [0]):
                    if self.accepted((f, u, s)):
                        out.append((f, u, s))
        return out
