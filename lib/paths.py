"""Member-path canonicaliser and interprocedural event summaries with path substitution.

A path is a tuple of components rooted at ('this',), ('$p', i, name) (i-th parameter), ('$v', id, name)
(an unresolved local) or ('$g', qualified-name).  Containers contribute '[*]'.
`controlledBlocks[*].interpolatorRef` == (('this',), 'controlledBlocks', '[*]', 'interpolatorRef').
"""
from facts import is_node, walk, show
import flow

THIS = (("this",),)
ELEM_CALLS = {"front", "back", "at"}
STORAGE_MEMBERS = {"refs": "nifly::NiBlockRefArray<", "vec": "nifly::NiVectorBase<"}
SELF_CALLS = {"data", "begin", "end", "cbegin", "cend", "get", "value", "asDer"}  # smart-pointer/iterator style accessors


def render(p):
    if p is None:
        return "<?>"
    out = ""
    root = p[0]
    if root[0] == "this":
        out = ""
    elif root[0] in ("$p", "$v"):
        out = root[2]
    elif root[0] == "$g":
        out = root[1]
    else:
        out = root[0]
    for c in p[1:]:
        if c.startswith("["):
            out += c
        else:
            out += ("." if out else "") + c
    return out or "this"


def expand_multi(events):
    """an event on the loop variable of `for (T* r : {&a, &b})` is one event on a and one on b"""
    out = []
    for ev in events:
        p = ev.path
        if p is not None and p and isinstance(p[0], tuple) and p[0][0] == "$multi":
            for q in p[0][1]:
                out.append(Event(q + tuple(p[1:]), ev.kind, ev.info, ev.guards, ev.chain, tuple(l for l in ev.loops if l != p[0][2])))
        else:
            out.append(ev)
    return out


class PathEnv:
    def __init__(self, F, fn, value_proxies=False):
        self.F = F
        self.fn = fn
        self.value_proxies = value_proxies
        self.alias = {}
        self.param_index = {p["id"]: i for i, p in enumerate(fn.get("params", []))}
        self.param_name = {p["id"]: p["name"] for p in fn.get("params", [])}
        self._build(fn.get("body"))

    def _build(self, body):
        if not is_node(body):
            return
        # source-order pre-pass over declarations that introduce aliases
        stack = [body]
        order = []
        for n in walk(body):
            order.append(n)
        for n in order:
            k = n["k"]
            if k == "RangeFor":
                v = n["var"]
                mp = self._address_list(n["range"], order)
                if mp is not None:
                    # `T* const own[] = {&a, &b, &c}; for (T* r : own) use(r->f)` visits exactly a, b and c: the loop
                    # variable stands for each of them (events on it are repeated per element, see expand_multi)
                    self.alias[v["id"]] = (("$multi", mp, "each " + show(n["range"])),)
                    continue
                rp = self.path(n["range"])
                if rp is not None:
                    self.alias[v["id"]] = rp + ("[*]",)
            elif k == "Decl":
                for v in n.get("vars", []):
                    self._alias_decl(v)
            elif k in ("If", "While") and n.get("var"):
                self._alias_decl(n["var"])

    def _address_list(self, rng, order):
        """paths of the objects a braced list of addresses / references names, when `rng` is such a list (directly, or a
        local array / initializer_list that is defined once from one and never written), else None"""
        def peel(e):
            while is_node(e) and e["k"] in ("Cast", "Construct", "StdInitList") and (e.get("e") is not None or len(e.get("args", [])) == 1):
                e = e["e"] if e.get("e") is not None else e["args"][0]
            return e
        e = peel(rng)
        if is_node(e) and e["k"] == "Ref" and e.get("rk") == "local":
            decl = None
            for n in order:
                if n["k"] == "Decl":
                    for v in n.get("vars", []):
                        if v["id"] == e["id"]:
                            decl = v
                if n["k"] == "Subscript" and is_node(n.get("base")) and peel(n["base"]) is not e and \
                        peel(n["base"]).get("k") == "Ref" and peel(n["base"]).get("id") == e["id"]:
                    return None  # the array is also indexed (possibly written) elsewhere
            if decl is None or not is_node(decl.get("init")):
                return None
            e = peel(decl["init"])
        if not (is_node(e) and e["k"] == "InitList" and e.get("inits")):
            return None
        out = []
        for x in e["inits"]:
            x = peel(x)
            if not (is_node(x) and x["k"] == "Unary" and x["op"] == "&"):
                return None
            p = self.path(x["e"])
            if p is None or p[0][0] != "this":
                return None
            out.append(p)
        return tuple(out)

    def _alias_decl(self, v):
        t = v.get("ct") or v.get("t") or ""
        init = v.get("init")
        if not is_node(init):
            return
        i0 = init
        while is_node(i0) and i0["k"] in ("Cast", "Construct") and (i0.get("e") is not None or len(i0.get("args", [])) == 1):
            i0 = i0["e"] if i0.get("e") is not None else i0["args"][0]
        if is_node(i0) and i0["k"] == "Call" and i0.get("short") in ("begin", "cbegin") and not i0.get("args"):
            # an iterator over a container stands for its elements: `for (auto it = c.begin(); it != c.end(); ++it) it->f()`
            rp = self.path(i0["recv"]) if is_node(i0.get("recv")) else (THIS if i0.get("recv") is None else None)
            if rp is not None:
                self.alias[v["id"]] = rp + ("[*]",)
                return
        if t.rstrip().endswith("&") or t.rstrip().endswith("*"):
            p = self.path(init)
            if p is not None:
                self.alias[v["id"]] = p
        elif self.value_proxies:
            # encode/decode proxy: `T local = member;  Sync(local);  member = local`  — the local stands for the member
            i = init
            while is_node(i) and i["k"] == "Cast":
                i = i["e"]
            p = self.path(i) if is_node(i) and i["k"] in ("Member", "Subscript") else None
            if p is None and is_node(i) and i["k"] in ("Cond", "Binary", "Call", "Unary"):
                # an encoded copy: `T local = mode && m > 4 ? m - 1 : m;` or `T local = ToFileForm(version, m);` — the local still
                # stands for the one member whose *value* it is computed from (other inputs: constants, the version, the stream
                # mode, bool flags).  A quantity derived through a method of the member (`str.length()`) is not a copy of it.
                mems = set()

                def value_expr(x):
                    if not is_node(x):
                        return False
                    k_ = x["k"]
                    if k_ in ("Lit", "Sizeof"):
                        return True
                    if k_ == "Cast":
                        return value_expr(x["e"])
                    if k_ == "Unary" and x["op"] in ("-", "~", "!", "+"):
                        return value_expr(x["e"])
                    if k_ == "Binary":
                        return value_expr(x["l"]) and value_expr(x["r"])
                    if k_ == "Cond":
                        return value_expr(x["c"]) and value_expr(x["a"]) and value_expr(x["b"])
                    if k_ == "Member" and x.get("mk", "field") == "field":
                        if x.get("val") is not None:
                            return True
                        px = self.path(x)
                        if px is not None and px[0][0] == "this":
                            mems.add(px)
                            return True
                        return False
                    if k_ == "Ref":
                        al_ = self.alias.get(x.get("id"))
                        if al_ is not None and al_[0][0] == "this":
                            mems.add(al_)  # a local that already stands for a member
                            return True
                        if x.get("val") is not None or x.get("rk") in ("global", "enumerator", "staticlocal") or x.get("rk") is None:
                            return True
                        t_ = (x.get("ct") or x.get("t") or "").replace("const ", "")
                        return t_ == "bool" or "Stream" in t_ or "NiVersion" in t_
                    if k_ == "Call":
                        cls_ = x.get("cls") or ""
                        if cls_ in ("nifly::NiVersion",) or x.get("short") in ("GetVersion", "GetMode", "GetHeader"):
                            return True  # version / mode tests
                        if x.get("recv") is None and not x.get("ext"):
                            return all(value_expr(a_) for a_ in x.get("args", []))  # a free / static conversion helper
                        return False
                    return False

                if value_expr(i) and len(mems) == 1:
                    p = next(iter(mems))
            if p is not None and p[0][0] == "this":
                self.alias[v["id"]] = p

    def path(self, e):
        """canonical path of an lvalue-ish expression, or None"""
        if not is_node(e):
            return None
        k = e["k"]
        if k == "This":
            return THIS
        if k in ("Member", "DepMember"):
            if k == "Member" and e.get("mk") not in (None, "field"):
                return None
            b = e.get("base")
            bp = THIS if b is None else self.path(b)
            if bp is None:
                return None
            if e["name"] in STORAGE_MEMBERS and (e.get("owner") or "").startswith(STORAGE_MEMBERS[e["name"]]):
                return bp  # the wrapper's private storage is the wrapper itself
            return bp + (e["name"],)
        if k == "Unresolved":
            return None
        if k == "Subscript":
            bp = self.path(e["base"])
            if bp is None:
                return None
            return bp + ("[*]",)
        if k == "Ref":
            rk = e.get("rk")
            if rk in ("local", "param"):
                if e["id"] in self.alias:
                    return self.alias[e["id"]]
                if e["id"] in self.param_index:
                    return (("$p", self.param_index[e["id"]], e["name"]),)
                return (("$v", e["id"], e["name"]),)
            if rk in ("global", "staticlocal"):
                return (("$g", e.get("qn")),)
            return None
        if k == "Unary" and e["op"] in ("*", "&"):
            return self.path(e["e"])
        if k == "Cast":
            return self.path(e["e"])
        if k == "OpCall" and e.get("op") in ("*", "->") and e.get("args"):
            return self.path(e["args"][0])
        if k == "Call":
            r = e.get("recv")
            sh = e.get("short")
            if r is not None and sh in ELEM_CALLS:
                bp = self.path(r)
                return None if bp is None else bp + ("[*]",)
            if r is not None and sh in SELF_CALLS and not e.get("args"):
                return self.path(r)
            return None
        if k == "Cond":
            return None
        return None


def subst(path, recv_path, arg_paths):
    """rewrite a callee-relative path into the caller's frame"""
    if path is None:
        return None
    root = path[0]
    if root[0] == "this":
        if recv_path is None:
            return None
        return recv_path + path[1:]
    if root[0] == "$p":
        i = root[1]
        if i < len(arg_paths) and arg_paths[i] is not None:
            return arg_paths[i] + path[1:]
        return None
    if root[0] == "$g":
        return path
    return None  # callee local


def _induction_names(fn):
    """for-loop induction variables are rendered by nesting depth ($i1, $i2, …): their names are not part of any schema"""
    out = {}

    def rec(n, depth):
        if not is_node(n):
            return
        d = depth
        if n["k"] == "For" and is_node(n.get("init")) and n["init"]["k"] == "Decl":
            d = depth + 1
            for v in n["init"].get("vars", []):
                out[v["id"]] = "$i%d" % d
        from facts import children
        for c in children(n):
            rec(c, d)
        if n["k"] == "For" and is_node(n.get("init")):
            pass

    rec(fn.get("body"), 0)
    return out


STREAM_CLASSES = ("nifly::NiStreamReversible", "nifly::NiIStream", "nifly::NiOStream")


def _peel_arg(e):
    while is_node(e):
        if e["k"] == "Cast":
            e = e["e"]
        elif e["k"] == "Unary" and e["op"] == "&":
            e = e["e"]
        else:
            return e
    return e


def local_name(root, env, at=None):
    """wire-visible name of a local in a length expression: a local that was itself transferred through the stream is named
    by how many stream operations ago (in the same function, source order) it was last transferred ($-1 = by the operation
    just before this one), so renaming it, or moving the code into a helper, changes nothing; any other local is anonymous"""
    idx = getattr(env, "_stream_calls", None)
    if idx is None:
        idx, xfers = {}, {}
        for n in walk(env.fn.get("body") or {}):
            if n["k"] in ("Call", "OpCall") and n.get("cls") in STREAM_CLASSES:
                idx[id(n)] = len(idx)
                for a in n.get("args", []):
                    a = _peel_arg(a)
                    if is_node(a) and a["k"] == "Ref" and a.get("rk") == "local":
                        xfers.setdefault(a["id"], []).append(idx[id(n)])
        env._stream_calls, env._stream_xfers = idx, xfers
    cur = idx.get(id(at)) if at is not None else None
    if cur is not None:
        prev = [i for i in env._stream_xfers.get(root[1], ()) if i < cur]
        if prev:
            return "$-%d" % (cur - max(prev))
    return "$local"  # any other local: its name is not wire-visible (renaming it, or inlining the helper that owns it, changes nothing)


def _single_def_of(env, vid):
    d = getattr(env, "_single_defs", None)
    if d is None:
        d = {}
        body = env.fn.get("body") or {}
        assigned = set()
        for n in walk(body):
            t = n["l"] if n["k"] == "Assign" else (n["e"] if n["k"] == "Unary" and n["op"] in ("++", "--") else None)
            if is_node(t) and t["k"] == "Ref":
                assigned.add(t.get("id"))
            if n["k"] == "OpCall" and n.get("op") in ("=", "+=", "-=", "++", "--") and n.get("args") and is_node(n["args"][0]) and n["args"][0]["k"] == "Ref":
                assigned.add(n["args"][0].get("id"))
            for i_ in (n.get("refargs") or []) if n["k"] in ("Call", "OpCall", "Construct") else []:
                a = n["args"][i_] if i_ < len(n.get("args") or []) else None
                if is_node(a) and a["k"] == "Ref":
                    assigned.add(a.get("id"))
        for n in walk(body):
            if n["k"] == "Decl":
                for v in n.get("vars", []):
                    if is_node(v.get("init")) and v["id"] not in assigned and v["init"]["k"] not in ("Lambda", "InitList"):
                        d[v["id"]] = v["init"]
        env._single_defs = d
    return d.get(vid)


def shape_with_env(e, env, at=None, _depth=0):
    """render a length expression with proxies/aliases resolved to member paths"""
    if not is_node(e):
        return str(e)
    k = e["k"]
    if e.get("val") is not None and k != "Ref":
        return str(e["val"])
    if k in ("Ref", "Member", "Subscript"):
        p = env.path(e)
        if p is not None:
            if p[0][0] == "$v":
                nm = local_name(p[0], env, at)
                if nm == "$local" and len(p) == 1 and _depth < 4:
                    # a local that is defined once and was not itself streamed stands for its initialiser: naming a sub-expression
                    # (`std::string nameStr = header.GetStringById(...); if (!nameStr.empty())`) changes nothing
                    init = _single_def_of(env, p[0][1])
                    # (a value obtained by handing the stream to a helper — `n = data.SyncSize(stream)` — is a transferred value,
                    # not a named sub-expression: it keeps its anonymous name)
                    if init is not None and not any(
                            x["k"] in ("Call", "OpCall") and any(is_node(a) and "Stream" in (a.get("t") or a.get("ct") or "")
                                                                 for a in x.get("args", [])) for x in walk(init)):
                        return shape_with_env(init, env, at, _depth + 1)
                return nm + "".join("." + c if not c.startswith("[") else c for c in p[1:])
            return render(p)
        return show(e)
    if k == "Binary":
        return "(%s %s %s)" % (shape_with_env(e["l"], env, at, _depth), e["op"], shape_with_env(e["r"], env, at, _depth))
    if k in ("Cast",) or (k == "Construct" and len(e.get("args", [])) == 1 and e.get("copy")):
        return shape_with_env(e["e"] if k == "Cast" else e["args"][0], env, at, _depth)
    if k == "Sizeof":
        return str(e.get("val"))
    if k == "Call":
        r = e.get("recv")
        return "%s.%s(%s)" % (shape_with_env(r, env, at, _depth) if is_node(r) else "", e.get("short"),
                              ",".join(shape_with_env(a, env, at, _depth) for a in e.get("args", [])))
    return show(e)




def _mentions_params(node, env):
    e = node[1] if isinstance(node, tuple) and len(node) > 1 else node
    if not is_node(e) or e.get("k") in ("VerOr", "VerImp"):
        return False
    return any(x["k"] == "Ref" and x.get("rk") == "param" and x.get("id") in env.param_index for x in walk(e))


def _bool_local_defs(env):
    """{var id: initialiser} of the bool locals of the function that are never assigned after their declaration"""
    d = getattr(env, "_bool_defs", None)
    if d is None:
        d = {}
        body = env.fn.get("body") or {}
        assigned = set()
        for n in walk(body):
            t = n["l"] if n["k"] == "Assign" else (n["e"] if n["k"] == "Unary" and n["op"] in ("++", "--") else None)
            if is_node(t) and t["k"] == "Ref":
                assigned.add(t.get("id"))
        for n in walk(body):
            if n["k"] == "Decl":
                for v in n.get("vars", []):
                    if (v.get("ct") or v.get("t") or "").replace("const ", "").strip() == "bool" and is_node(v.get("init")) \
                            and v["id"] not in assigned:
                        d[v["id"]] = v["init"]
        env._bool_defs = d
    return d


def _lambda_predicate(env, vid):
    """the expression a parameterless local lambda returns (single `return e;` body), else None"""
    m = getattr(env, "_lambda_preds", None)
    if m is None:
        m = {}
        for n in walk(env.fn.get("body") or {}):
            if n["k"] == "Decl":
                for v in n.get("vars", []):
                    i = v.get("init")
                    while is_node(i) and i["k"] in ("Cast", "Construct") and (i.get("e") is not None or len(i.get("args", [])) == 1):
                        i = i["e"] if i.get("e") is not None else i["args"][0]
                    if is_node(i) and i["k"] == "Lambda" and i.get("fid") in env.F.fns:
                        g = env.F.fns[i["fid"]]
                        b = g.get("body")
                        if not g.get("params") and is_node(b) and b["k"] == "Compound" and len(b.get("body", [])) == 1 and \
                                b["body"][0]["k"] == "Return" and is_node(b["body"][0].get("e")):
                            m[v["id"]] = b["body"][0]["e"]
        env._lambda_preds = m
    return m.get(vid)


def _facts_to_triples(facts_, env):
    return flow.normalize_guards((f[1], f[2], _local_guard(f, env)) for f in facts_ if f[0] == "G")


def _canon_guards(g, env, at, depth=0):
    """* a guard on a bool local that is defined once (`const bool isOld = File() < V;`) is replaced by what its definition
      implies, so caching a test in a named flag changes nothing;
    * guards that depend on other locals are re-rendered with the locals named like in length expressions, so an inlined or
      extracted helper with other local names gives the same gate;
    * a guard that mentions parameters of the function is marked, so that the caller replaces the parameters by the
      arguments it passes (`syncOptional(hasBaseTex, baseTex)` is gated by `hasBaseTex`, `Put(fileVersion)` by the version)."""
    out = []
    defs = _bool_local_defs(env)
    for t in g:
        key, pol, local = t[0], t[1], t[2]
        node = flow.KEYNODE.get(key)
        e = node
        neg = False
        while is_node(e) and (e["k"] == "Cast" or (e["k"] == "Unary" and e["op"] == "!")):
            if e["k"] == "Unary":
                neg = not neg
            e = e["e"]
        if depth < 4 and is_node(e) and e["k"] == "OpCall" and e.get("op") == "()" and len(e.get("args", [])) == 1 and \
                is_node(e["args"][0]) and e["args"][0]["k"] == "Ref":
            # a predicate kept in a local lambda without parameters (`const auto named = [&] { return !name.empty(); };`) is what
            # it returns
            ret = _lambda_predicate(env, e["args"][0].get("id"))
            if ret is not None:
                sub = flow._mark_version(flow.implied(ret, pol != neg))
                out.extend(_canon_guards(_facts_to_triples(sub, env), env, at, depth + 1))
                continue
        if depth < 4 and is_node(e) and e["k"] == "Ref" and e.get("rk") == "local" and e.get("id") in defs:
            sub = flow.implied(defs[e["id"]], pol != neg)
            sub = flow._mark_version(sub)
            out.extend(_canon_guards(_facts_to_triples(sub, env), env, at, depth + 1))
            continue
        if is_node(node) and node.get("k") == "VerImp":
            # re-render the data guard inside the implication like any other local guard, so that local names do not matter
            ik, ipol = node["then"]
            inner = _canon_guards(((ik, ipol, local),), env, at, depth + 1)
            for it in inner:
                nk = key.split("}=>", 1)[0] + "}=>" + ("" if it[1] else "!") + it[0]
                flow.KEYNODE[nk] = {"k": "VerImp", "conj": node["conj"], "then": (it[0], it[1])}
                out.append((nk, True, local))
            continue
        px = node is not None and _mentions_params(node, env)
        if local and node is not None and not px:
            try:
                if isinstance(node, tuple) and len(node) == 3 and node[0] == "cmp" and is_node(node[1]):
                    k2, p2 = flow.norm_cmp(node[1], lambda x: shape_with_env(x, env, at))
                    if p2 == node[2] and k2 != key:
                        flow.KEYNODE.setdefault(k2, node)
                        key = k2
                elif is_node(node) and node["k"] not in ("VerOr", "VerImp"):
                    k2 = shape_with_env(node, env, at)
                    if k2 != key:
                        flow.KEYNODE.setdefault(k2, node)
                        key = k2
            except Exception:
                pass
        out.append((key, pol, local) + ((("px", t[0]),) if px else ()))
    return tuple(sorted(set(out), key=lambda t: (t[0], str(t[1]), str(t[2]))))


def _subst_expr(e, mapping):
    if isinstance(e, list):
        return [_subst_expr(x, mapping) for x in e]
    if not isinstance(e, dict):
        return e
    if e.get("k") == "Ref" and e.get("id") in mapping:
        return mapping[e["id"]]
    return {k: _subst_expr(v, mapping) for k, v in e.items()}


def _local_guard(f, env):
    """does guard fact f depend on a local that is not an alias of a member path?"""
    for d in f[3]:
        if d[0] == "v":
            if d[1] in getattr(env, "version_locals", ()):
                continue  # a cached version expression, evaluated per region like the expression itself
            a = env.alias.get(d[1])
            if a is None or a[0][0] != "this":
                if d[1] in env.param_index:
                    return True
                return True
    return False


def _const_eval(e, pconst):
    """integer value of an expression over bound parameters and literals, or None"""
    if not is_node(e):
        return None
    k = e["k"]
    if k == "Ref":
        if e.get("id") in pconst:
            return pconst[e["id"]]
        return e.get("val")
    if e.get("val") is not None and k in ("Lit", "Sizeof"):
        return e["val"]
    if k == "Cast":
        return _const_eval(e["e"], pconst)
    if k == "Unary" and e["op"] == "!":
        v = _const_eval(e["e"], pconst)
        return None if v is None else (0 if v else 1)
    if k == "Binary":
        a, b = _const_eval(e["l"], pconst), _const_eval(e["r"], pconst)
        op = e["op"]
        if op == "&&":
            if a is not None and not a:
                return 0
            if b is not None and not b:
                return 0
            return 1 if (a is not None and b is not None) else None
        if op == "||":
            if a is not None and a:
                return 1
            if b is not None and b:
                return 1
            return 0 if (a is not None and b is not None) else None
        if a is None or b is None:
            return None
        try:
            return int({"==": a == b, "!=": a != b, "<": a < b, ">": a > b, "<=": a <= b, ">=": a >= b}[op]) \
                if op in ("==", "!=", "<", ">", "<=", ">=") else {"+": a + b, "-": a - b, "*": a * b}.get(op)
        except Exception:
            return None
    return None


class Event:
    __slots__ = ("path", "kind", "info", "guards", "chain", "loops")

    def __init__(self, path, kind, info=None, guards=(), chain=(), loops=()):
        self.path = path
        self.kind = kind
        self.info = info or {}
        self.guards = tuple(guards)  # ((key, pol), ...) outermost frame first
        self.chain = tuple(chain)  # ((fid, loc), ...) call sites from the summarised function down to the primitive
        self.loops = tuple(loops)  # descriptions of enclosing loops, outermost first

    def __repr__(self):
        return "Event(%s %s)" % (render(self.path), self.kind)


class Summarizer:
    """events(fid): events produced by a function, including those of the functions it calls, rewritten into
    its own frame.  `primitive(node, env, fn, st)` -> list[Event]|None decides base cases per node;
    returning a list (even empty) for a call node stops composition into that callee."""

    def __init__(self, F, primitive, mode=None, follow=None, skip_call=None, node_kinds=("Call", "OpCall", "Construct"),
                 max_depth=12, value_proxies=False):
        self.value_proxies = value_proxies
        self.F = F
        self.primitive = primitive
        self.mode = mode
        self.follow = follow or (lambda fid, call: True)
        self.skip_call = skip_call or (lambda call, fn: False)
        self.kinds = set(node_kinds)
        self.memo = {}
        self.active = set()
        self.max_depth = max_depth
        self.envs = {}

    def env(self, fn):
        e = self.envs.get(fn["id"])
        if e is None:
            e = PathEnv(self.F, fn, self.value_proxies)
            self.envs[fn["id"]] = e
        return e

    def events(self, fid, depth=0, consts=None):
        """consts: {parameter index: integer constant} bound at the call site (context-sensitive for constant
        arguments, so `Read(stream, 4)` only keeps the 4-byte-length branch)"""
        key = fid if not consts else (fid, tuple(sorted(consts.items())))
        if key in self.memo:
            return self.memo[key]
        fn = self.F.fns.get(fid)
        if fn is None or key in self.active or depth > self.max_depth:
            return []
        self.active.add(key)
        try:
            out = self._events(fn, depth, consts or {})
        finally:
            self.active.discard(key)
        self.memo[key] = out
        return out

    def _events(self, fn, depth, consts=None):
        env = self.env(fn)
        kinds = self.kinds
        pconst = {}
        for i, v in (consts or {}).items():
            if i < len(fn.get("params", [])):
                pconst[fn["params"][i]["id"]] = v

        class C(flow.Collect):
            def const_cond(self, e):
                r = flow.Collect.const_cond(self, e)
                if r is not None or not pconst:
                    return r
                v = _const_eval(e, pconst)
                return None if v is None else bool(v)

        import versions as _versions
        vlocals = set()
        assigned = set(n["l"]["id"] for n in walk(fn.get("body") or {}) if n["k"] == "Assign" and is_node(n["l"]) and n["l"]["k"] == "Ref")
        for n in walk(fn.get("body") or {}):
            if n["k"] == "Decl":
                for v in n.get("vars", []):
                    if is_node(v.get("init")) and v["id"] not in assigned and _versions.pure_version_init(v["init"]):
                        _versions.VERSION_LOCALS[(v["id"], v["name"])] = v["init"]
                        vlocals.add(v["id"])
        if fn["name"] in _versions.READER_ALIASES:
            # frozen alias table (DESIGN R1.3): locals of the header reader that hold what SetFile/SetUser/SetStream store
            table = _versions.READER_ALIASES[fn["name"]]
            for n in walk(fn.get("body") or {}):
                if n["k"] == "Decl":
                    for v in n.get("vars", []):
                        if v["name"] in table:
                            _versions.VERSION_LOCALS[(v["id"], v["name"])] = table[v["name"]]
                            vlocals.add(v["id"])
        env.version_locals = vlocals
        col = C(self.F, fn, lambda n: n["k"] in kinds or n["k"] in ("Assign", "Unary"), mode=self.mode)
        col.partition = False  # one state per node: summaries list every event once
        if self.value_proxies:
            import facts as _facts
            saved = _facts.SHOW_ALIAS
            _facts.SHOW_ALIAS = {vid: render(p) for vid, p in env.alias.items() if p and p[0][0] == "this"}
            _facts.SHOW_ALIAS.update(_induction_names(fn))
            try:
                col.run()
            finally:
                _facts.SHOW_ALIAS = saved
        else:
            col.run()
        out = []
        lambdas = {}  # local var id -> lambda fid (helper lambdas called in the same function)
        for n in walk(fn.get("body") or {}):
            if n["k"] == "Decl":
                for v in n.get("vars", []):
                    i = v.get("init")
                    if is_node(i) and i["k"] == "Lambda" and i.get("fid"):
                        lambdas[v["id"]] = i["fid"]
        for n, st in col.at:
            lkeys = col.loop_keys_at.get(id(n), ())
            g = flow.normalize_guards((f[1], f[2], _local_guard(f, env)) for f in (st or ()) if f[0] == "G" and f[1] not in lkeys)
            g = _canon_guards(g, env, n)
            ms = st is not None and ("D", "mode-split") in st
            lp = col.loops_at.get(id(n), ())
            site = ((fn["id"], n.get("loc", "")),)
            algo = self._std_algorithm(n, env, fn, st, lambdas) if n["k"] == "Call" and n.get("ext") else None
            if algo is not None:
                for ev in algo:
                    out.append(Event(ev.path, ev.kind, ev.info, g + ev.guards, site + ev.chain, lp + ev.loops))
                continue
            prim = self.primitive(n, env, fn, st)
            if prim is not None:
                for ev in prim:
                    info = ev.info
                    if ms and not info.get("modesplit"):
                        info = dict(info, modesplit=fn["name"])
                    out.append(Event(ev.path, ev.kind, info, g + ev.guards, site + ev.chain, lp + ev.loops))
                continue
            if n["k"] not in ("Call", "OpCall", "Construct"):
                continue
            if self.skip_call(n, fn):
                continue
            targets = []
            args = n.get("args", [])
            recv = n.get("recv")
            if n["k"] == "OpCall" and n.get("op") == "()" and args and is_node(args[0]) and args[0]["k"] == "Ref" \
                    and args[0].get("id") in lambdas:
                # call of a helper lambda stored in a local
                targets = [lambdas[args[0]["id"]]]
                if n.get("fid") in self.F.fns and self.F.fns[n["fid"]].get("lambda_parent"):
                    targets = [n["fid"]]  # the instantiated call operator of a generic lambda
                recv = None
                args = args[1:]
            elif n["k"] == "OpCall" and n.get("memberop"):
                targets = self.F.call_targets(n)
                recv = args[0] if args else None
                args = args[1:]
            else:
                targets = self.F.call_targets(n)
            if not targets:
                continue
            rp = env.path(recv) if recv is not None else (THIS if n.get("cls") and not n.get("smeth") and n["k"] == "Call" and fn.get("cls") else None)
            aps = [env.path(a) for a in args]
            for t in targets:
                if t not in self.F.fns or not self.follow(t, n):
                    continue
                callee = self.F.fns[t]
                cenv_is_lambda = bool(callee.get("lambda_parent"))
                cc = {}
                for ai, a in enumerate(args):
                    if is_node(a) and a.get("val") is not None and a["k"] in ("Lit", "Ref", "Cast", "Sizeof", "Binary", "Unary"):
                        cc[ai] = a["val"]
                    elif is_node(a) and a["k"] == "Ref" and a.get("id") in pconst:
                        cc[ai] = pconst[a["id"]]
                for ev in self.events(t, depth + 1, cc):
                    if any(len(x) > 3 for x in ev.guards):
                        ev = Event(ev.path, ev.kind, ev.info, self._subst_guards(ev.guards, args, env, n, callee), ev.chain, ev.loops)
                    if cenv_is_lambda and ev.path is not None and ev.path[0][0] in ("this", "$v"):
                        # lambda bodies see the enclosing frame directly ([&] / [this] captures)
                        np = self._lambda_path(ev.path, env)
                    else:
                        np = subst(ev.path, rp, aps)
                    if np is None and ev.path is not None:
                        np = (("$lost", render(ev.path)),)
                    info = ev.info
                    if ms and not info.get("modesplit"):
                        info = dict(info, modesplit=fn["name"])
                    out.append(Event(np, ev.kind, info, g + ev.guards, site + ev.chain, lp + ev.loops))
        return expand_multi(out)

    STD_ALGOS = {"for_each", "transform", "any_of", "all_of", "none_of", "find_if", "find_if_not", "count_if", "copy_if", "remove_if"}

    def _std_algorithm(self, n, env, fn, st, lambdas):
        """`std::for_each(c.begin(), c.end(), lambda)` and friends: the lambda runs on every element of c, so its events are
        those of `for (auto& x : c) lambda(x)`; `std::transform(..., std::back_inserter(v), lambda)` additionally does
        `v.push_back(<what the lambda returns>)`.  -> list of events, or None when n is not such a call"""
        if n.get("short") not in self.STD_ALGOS:
            return None
        args = n.get("args", [])
        lam = None
        for a in args:
            b = a
            while is_node(b) and b["k"] in ("Cast", "Construct") and (b.get("e") is not None or len(b.get("args", [])) == 1):
                b = b["e"] if b.get("e") is not None else b["args"][0]
            if is_node(b) and b["k"] == "Lambda" and b.get("fid") in self.F.fns:
                lam = b["fid"]
            elif is_node(b) and b["k"] == "Ref" and b.get("id") in lambdas:
                lam = lambdas[b["id"]]
        first = args[0] if args else None
        while is_node(first) and first["k"] == "Cast":
            first = first["e"]
        if lam is None or not (is_node(first) and first["k"] == "Call" and first.get("short") in ("begin", "cbegin") and is_node(first.get("recv"))):
            return None
        cont = env.path(first["recv"])
        elem = None if cont is None else cont + ("[*]",)
        lamfn = self.F.fns[lam]
        sized = flow.range_sizes(fn.get("body")).get(id(n))
        loop = (("repeat " + sized) if sized else ("each " + show(first["recv"])),)
        out = []

        def into_caller(ev):
            if ev.path is not None and ev.path[0][0] in ("this", "$v"):
                np = self._lambda_path(ev.path, env)
            else:
                np = subst(ev.path, None, [elem])
            if np is None and ev.path is not None:
                np = (("$lost", render(ev.path)),)
            return Event(np, ev.kind, ev.info, ev.guards, ev.chain, loop + ev.loops)

        for ev in self.events(lam, 1):
            out.append(into_caller(ev))
        if n.get("short") == "transform" and len(args) >= 4:
            dest = args[2]
            while is_node(dest) and dest["k"] in ("Cast", "Construct") and (dest.get("e") is not None or len(dest.get("args", [])) == 1):
                dest = dest["e"] if dest.get("e") is not None else dest["args"][0]
            if is_node(dest) and dest["k"] == "Call" and dest.get("short") in ("back_inserter", "inserter") and dest.get("args"):
                lenv = self.env(lamfn)
                for r in walk(lamfn.get("body") or {}):
                    if r["k"] == "Return" and is_node(r.get("e")):
                        fake = {"k": "Call", "ext": True, "short": "push_back", "recv": dest["args"][0], "args": [r["e"]], "loc": r.get("loc", "")}
                        pr = self.primitive(fake, lenv, lamfn, st)
                        for ev in (pr or []):
                            out.append(into_caller(ev))
        return out

    def _subst_guards(self, guards, args, env, at, callee=None):
        """callee guards that mention parameters become guards on the arguments the caller passes"""
        out = []
        params = (callee or {}).get("params", [])
        mapping = {p_["id"]: args[i] for i, p_ in enumerate(params) if i < len(args) and is_node(args[i])}
        for t in guards:
            if len(t) > 3 and t[3][0] == "px" and mapping:
                node = flow.KEYNODE.get(t[3][1])
                if node is None:
                    out.append(t[:3])
                    continue
                if isinstance(node, tuple) and len(node) == 3 and node[0] == "cmp":
                    e_sub, truth = _subst_expr(node[1], mapping), (t[1] == node[2])
                else:
                    e_sub, truth = _subst_expr(node, mapping), t[1]
                cv = _const_eval(e_sub, {})
                if cv is not None:
                    continue  # decided by constant arguments (the dead alternative was pruned by the const binding)
                facts_ = flow._mark_version(flow.implied(e_sub, truth))
                out.extend(_canon_guards(_facts_to_triples(facts_, env), env, at))
            else:
                out.append(t)
        return tuple(out)

    def _lambda_path(self, p, env):
        root = p[0]
        if root[0] == "$v":
            # captured local of the enclosing function: resolve through the parent's aliases
            if root[1] in env.alias:
                return env.alias[root[1]] + p[1:]
            if root[1] in env.param_index:
                return (("$p", env.param_index[root[1]], root[2]),) + p[1:]
        return p
