"""Count <-> array coherence (DESIGN R1.4 / R16.2): in a Sync body or hand-written reader, every subscript of a member
container by a loop variable bounded by N, and every raw transfer of a container's storage, is dominated by
`container.resize(N)` with the same canonical N (or one of the equivalent idioms present in the repo)."""
import re
from facts import is_node, walk, show
import flow


def _peel(e):
    while is_node(e):
        if e["k"] == "Cast":
            e = e["e"]
        elif e["k"] == "Unary" and e["op"] in ("&", "*"):
            e = e["e"]
        else:
            return e
    return e


def _is_dyn_container(t):
    t = t or ""
    return "std::vector<" in t or "nifly::NiVector" in t or "nifly::NiSyncVector" in t or "std::basic_string" in t \
        or "std::deque<" in t or "nifly::NiStringVector" in t or "nifly::NiStringRefVector" in t or "nifly::NiVectorBase" in t


def _fixed_extent(t):
    m = re.search(r"\[(\d+)\]\s*$", t or "")
    if m:
        return int(m.group(1))
    m = re.search(r"std::array<.*,\s*(\d+)>\s*$", t or "")
    if m:
        return int(m.group(1))
    return None


class ArrayCoherence(flow.Flow):
    """facts ('Z', container, size-expr, deps): container was resized to size-expr and neither changed since"""

    def __init__(self, F, fn, mode=None, VE=None, region=None):
        super().__init__(F, fn, mode)
        self.VE, self.region = VE, region
        self.loops = []  # stack of (loop var id, bound string, bound node)
        self.findings = []
        self.checked = 0
        self.modevars = {}
        import versions as _versions
        _versions.register_locals(fn)
        # locals defined once (`const uint16_t n = stripLengths.size();`) stand for their initialiser in bounds and sizes
        self.render = F.expander(fn)[0]

    def on_decl(self, v, st):
        i = v.get("init")
        if is_node(i):
            m = flow.mode_test(i)
            if m:
                self.modevars[v["id"]] = m
        return st

    def const_cond(self, e):
        r = super().const_cond(e)
        if r is not None:
            return r
        if self.mode is not None and is_node(e) and e["k"] == "Ref" and e.get("id") in self.modevars:
            return self.modevars[e["id"]] == self.mode
        if self.VE is not None and self.VE.is_version_expr(e):
            v = self.VE.ev(e, self.region)
            if v is not None:
                return bool(v)
        return None

    # -- loop bookkeeping
    def loop(self, s, st):
        k = s["k"]
        info = None
        cnd = s.get("cond") if k == "For" else None
        conj = []
        work = [cnd] if is_node(cnd) else []
        while work:  # `i < a && i < b`: every conjunct bounds the loop; the first one on the loop variable names the bound
            c_ = work.pop(0)
            if is_node(c_) and c_["k"] == "Binary" and c_["op"] == "&&":
                work[:0] = [c_["l"], c_["r"]]
            elif is_node(c_):
                conj.append(c_)
        for c_ in conj:
            if c_["k"] == "Binary" and c_["op"] in ("<", "!=", "<="):
                l, r = _peel(c_["l"]), c_["r"]
                if is_node(l) and l["k"] == "Ref":
                    info = (l["id"], self.render(_strip(r)), r, c_["op"], self.render(cnd))
                    break
        self.loops.append(info)
        try:
            return super().loop(s, st)
        finally:
            self.loops.pop()

    def on_node(self, n, st):
        if st is None:
            return st
        k = n["k"]
        if k == "Call" and n.get("short") in ("resize", "SetSize", "assign") and is_node(n.get("recv")) and n.get("args"):
            c = show(_peel(n["recv"]))
            sz = self.render(_strip(n["args"][0]))
            d = set(flow.deps_of(n["args"][0])) | {("cz", c)}
            st = frozenset(f for f in st if not (f[0] == "Z" and f[1] == c))
            return st | {("Z", c, sz, frozenset(d))}
        if k == "Call" and n.get("short") in ("push_back", "emplace_back") and is_node(n.get("recv")):
            c = show(_peel(n["recv"]))
            return st | {("Z", c, "+pushed", frozenset({("cz", c)}))}
        if k == "Call" and n.get("short") in ("clear", "erase", "pop_back") and is_node(n.get("recv")):
            c = show(_peel(n["recv"]))
            return frozenset(f for f in st if not (f[0] == "Z" and f[1] == c))
        if self.muted:
            return st
        if k == "Subscript":
            self._check_subscript(n, st)
        elif k == "Call" and n.get("cls") in ("nifly::NiStreamReversible", "nifly::NiIStream", "nifly::NiOStream") and \
                n.get("short") in ("Sync", "read", "write") and len(n.get("args", [])) == 2:
            self._check_raw(n, st)
        return st

    def _sizes(self, st, c):
        return [f[2] for f in st if f[0] == "Z" and f[1] == c]

    def _check_subscript(self, n, st):
        base = _peel(n["base"])
        if not is_node(base) or base["k"] not in ("Member", "Subscript"):
            return
        bt = base.get("ct") or base.get("t") or ""
        idx = _peel(n["idx"])
        c = show(base)
        # which loop drives the index?
        loop = None
        if is_node(idx) and idx["k"] == "Ref":
            for li in reversed(self.loops):
                if li and li[0] == idx["id"]:
                    loop = li
                    break
        ext = _fixed_extent(bt)
        if ext is not None:
            # fixed array: constant index or loop bound <= extent
            self.checked += 1
            if is_node(idx) and idx.get("val") is not None:
                if not (0 <= idx["val"] < ext):
                    self.findings.append((n, "constant index %s outside fixed array %s[%d]" % (idx["val"], c, ext)))
                return
            if loop and is_node(loop[2]) and loop[2].get("val") is not None:
                lim = loop[2]["val"] + (1 if loop[3] == "<=" else 0)
                if lim > ext:
                    self.findings.append((n, "loop bound %s exceeds fixed array %s[%d]" % (loop[1], c, ext)))
                return
            if loop:
                self.findings.append((n, "fixed array %s[%d] indexed up to the run-time bound `%s`" % (c, ext, loop[1])))
            return
        if not _is_dyn_container(bt):
            return
        if loop is None:
            if is_node(idx) and idx.get("val") == 0:
                self.checked += 1
                ok = flow.has_guard(st, "%s.empty()" % c, False) or any(True for _ in self._sizes(st, c))
                if not ok:
                    self.findings.append((n, "%s[0] without an emptiness test or resize" % c))
            return
        self.checked += 1
        bound = loop[1]
        sizes = self._sizes(st, c)
        ok = bound in sizes or bound == "%s.size()" % c or "+pushed" in sizes or \
            any(_same_modulo_cast(bound, s) for s in sizes)
        if not ok:
            self.findings.append((n, "`%s` is indexed by a loop bounded by `%s` but was %s" % (
                c, bound, ("resized to `%s`" % "`, `".join(sizes)) if sizes else "not resized to that count on every path")))

    def _check_raw(self, n, st):
        a = _peel(n["args"][0])
        # &c[0] / c.data() / reinterpret_cast<char*>(c.data())
        cont = None
        if is_node(a) and a["k"] == "Subscript" and is_node(a["idx"]) and a["idx"].get("val") == 0:
            cont = _peel(a["base"])
        elif is_node(a) and a["k"] == "Call" and a.get("short") == "data" and is_node(a.get("recv")):
            cont = _peel(a["recv"])
        if cont is None or not is_node(cont) or cont["k"] not in ("Member", "Subscript"):
            return
        if not _is_dyn_container(cont.get("ct") or cont.get("t")):
            return
        self.checked += 1
        c = show(cont)
        ln = self.render(_strip(n["args"][1]))
        sizes = self._sizes(st, c)
        ok = any(s != "+pushed" and (s == ln or ("(%s * " % s) in ln or (" * %s)" % s) in ln or _same_modulo_cast(s, ln)) for s in sizes) \
            or ("%s.size()" % c) in ln or flow.has_guard(st, "%s.empty()" % c, False)
        if not ok:
            self.findings.append((n, "raw transfer of `%s` with length `%s` is not dominated by a resize to the matching count "
                                     "(resized to: %s)" % (c, ln, sizes or "nothing")))


def _strip(e):
    while is_node(e) and e["k"] == "Cast":
        e = e["e"]
    return e


def _same_modulo_cast(a, b):
    return a.replace(" ", "") == b.replace(" ", "")
