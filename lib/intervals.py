"""Interval analysis of fixed-width unsigned locals over the statement trees (used by C07 R7.7).

The abstract value of a tracked local is an interval [lo, hi] of mathematical integers; an arithmetic update whose
mathematical result can leave the range of the local's type is reported as a possible wrap.  An initialisation from a
wider value (an explicit or implicit narrowing conversion) gives the full range of the type and is NOT reported: the
`uintN_t(len)` + `resize(len)` clamp is an accepted idiom; what is reported is arithmetic *after* the narrowing.
Conditions refine intervals (`v < c`, `v == c`, ... with `&&`, `||`, `!`); loops widen every local assigned in the loop
to its type range before the body is analysed once."""
from facts import is_node, walk, show

WIDTH = {"size_t": 64, "std::size_t": 64, "unsigned long": 64, "uint64_t": 64, "uint8_t": 8, "uint16_t": 16, "uint32_t": 32, "unsigned char": 8, "unsigned short": 16, "unsigned int": 32}
INF = float("inf")


def type_bits(t):
    t = (t or "").replace("const ", "").strip()
    return WIDTH.get(t)


def _join(a, b):
    if a is None:
        return b
    if b is None:
        return a
    out = {}
    if "#w" in a or "#w" in b:
        out["#w"] = a.get("#w", frozenset()) | b.get("#w", frozenset())
    for k in (set(a) | set(b)) - {"#w"}:
        if k in a and k in b:
            out[k] = (min(a[k][0], b[k][0]), max(a[k][1], b[k][1]))
        # a variable known on one side only: unknown after the join (dropped = type range)
    return out


class Intervals:
    def __init__(self, fn, tracked, use=None, report=None, members=None, oracle=None):
        """tracked: {var id: bits}; use(node) -> tracked var ids consumed by a call node (their wrap taint is recorded);
        report: the var ids whose wraps are recorded (default: all tracked; the others only carry bounds).
        `X.size()` / `X.length()` of a container expression X is a pseudo-variable "len:<X>" bounded by resize and tests."""
        self.fn = fn
        self.tracked = tracked
        self.report = set(tracked) if report is None else set(report)
        self.members = dict(members or {})  # field name of *this -> bits: tracked as "m:<name>"
        self.oracle = oracle  # oracle(cond node) -> True/False/None: conditions decided outside (version partial evaluation)
        self.exit_envs = []  # environments at every return / at the end of the body
        self.use = use
        self.assume = {}  # rendering of a stable boolean atom -> assumed truth (one run per valuation, see run_all_valuations)
        self.tainted_uses = []  # (use node, var id, index into self.wraps)
        self.wraps = []  # (node, var id, interval before, mathematical interval after)
        self.at = {}  # id(node) -> interval of the tracked var read at that node (for consumers)

    # ------------------------------------------------------------ expressions
    def rng(self, vid):
        if isinstance(vid, str):
            if vid.startswith("m:"):
                return (0, (1 << self.members[vid[2:]]) - 1)
            return (0, INF)
        return (0, (1 << self.tracked[vid]) - 1)

    def key(self, e):
        while is_node(e) and e["k"] in ("Cast", "Paren"):
            e = e["e"]
        if not is_node(e):
            return None
        if e["k"] == "Ref" and e.get("id") in self.tracked:
            return e["id"]
        if e["k"] == "Member" and e.get("mk", "field") == "field" and e["name"] in self.members and \
                (e.get("base") is None or (is_node(e.get("base")) and e["base"]["k"] == "This")):
            return "m:" + e["name"]
        if e["k"] == "Call" and e.get("short") in ("size", "length") and is_node(e.get("recv")) and not e.get("args"):
            return "len:" + show(e["recv"])
        return None

    def ev(self, e, env):
        if not is_node(e):
            return None
        k = e["k"]
        if k == "Lit" and isinstance(e.get("val"), (int,)) and not isinstance(e.get("val"), bool):
            return (e["val"], e["val"])
        if e.get("val") is not None and k not in ("Ref",) and isinstance(e["val"], int) and not isinstance(e["val"], bool):
            return (e["val"], e["val"])
        if k == "Ref" and e.get("id") in self.tracked:
            return env.get(e["id"], self.rng(e["id"]))
        if k == "Member" and self.members:
            mk = self.key(e)
            if mk is not None:
                return env.get(mk, self.rng(mk))
        if k == "Cast":
            inner = self.ev(e["e"], env)
            bits = type_bits(e.get("ct") or e.get("t"))
            if bits is not None:
                full = (0, (1 << bits) - 1)
                if inner is None or inner[0] < 0 or inner[1] > full[1]:
                    return full
            return inner
        if k == "Paren":
            return self.ev(e["e"], env)
        if k == "Binary" and e["op"] in ("+", "-"):
            a, b = self.ev(e["l"], env), self.ev(e["r"], env)
            if a is None or b is None:
                return None
            return (a[0] + b[0], a[1] + b[1]) if e["op"] == "+" else (a[0] - b[1], a[1] - b[0])
        if k == "Cond":
            # the condition may be decided by the valuation of the stable boolean atoms or refine one of the tracked values
            ta, tb = self.refine(e.get("c"), env, True), self.refine(e.get("c"), env, False)
            a = self.ev(e.get("a"), ta) if ta is not None else None
            b = self.ev(e.get("b"), tb) if tb is not None else None
            if ta is None and tb is not None:
                return b
            if tb is None and ta is not None:
                return a
            if a is None or b is None:
                return None
            return (min(a[0], b[0]), max(a[1], b[1]))
        if k == "Call" and e.get("short") in ("min", "max") and len(e.get("args", [])) == 2 and (e.get("ext") or "std::" in (e.get("fn") or "")):
            a, b = self.ev(e["args"][0], env), self.ev(e["args"][1], env)
            if a is None or b is None:
                return None
            if e["short"] == "min":
                return (min(a[0], b[0]), min(a[1], b[1]))
            return (max(a[0], b[0]), max(a[1], b[1]))
        if k == "Call" and e.get("short") in ("size", "length"):
            kk = self.key(e)
            return env.get(kk, (0, INF)) if kk else (0, INF)
        bits = type_bits(e.get("ct") or e.get("t"))
        if bits is not None:
            return (0, (1 << bits) - 1)
        return None

    # ------------------------------------------------------------ conditions
    def refine(self, c, env, truth):
        """env refined by `c` being `truth`; None = infeasible"""
        if env is None or not is_node(c):
            return env
        if self.oracle is not None:
            o = self.oracle(c)
            if o is not None:
                return env if bool(o) == truth else None
        k = c["k"]
        if k in ("Paren", "Cast"):
            return self.refine(c["e"], env, truth)
        if k in ("Ref", "Member"):
            a = self.assume.get(show(c))
            if a is not None:
                return env if a == truth else None
            return env
        if k == "Unary" and c["op"] == "!":
            return self.refine(c["e"], env, not truth)
        if k == "Binary" and c["op"] in ("&&", "||"):
            conj = (c["op"] == "&&") == truth
            if conj:  # both sides hold (with their polarity)
                return self.refine(c["r"], self.refine(c["l"], env, truth), truth)
            return _join(self.refine(c["l"], env, truth), self.refine(c["r"], env, truth))
        if k == "Binary" and c["op"] in ("<", "<=", ">", ">=", "==", "!="):
            op = c["op"]
            l, r = c["l"], c["r"]
            while is_node(l) and l["k"] in ("Cast", "Paren"):
                l = l["e"]
            while is_node(r) and r["k"] in ("Cast", "Paren"):
                r = r["e"]
            lk, rk_ = self.key(l), self.key(r)
            if lk is None and rk_ is not None:
                l, r, lk = r, l, rk_
                op = {"<": ">", "<=": ">=", ">": "<", ">=": "<=", "==": "==", "!=": "!="}[op]
            if lk is None:
                return env
            b = self.ev(r, env)
            if b is None:
                return env
            if not truth:
                op = {"<": ">=", "<=": ">", ">": "<=", ">=": "<", "==": "!=", "!=": "=="}[op]
            lo, hi = env.get(lk, self.rng(lk))
            if op == "<":
                hi = min(hi, b[1] - 1)
            elif op == "<=":
                hi = min(hi, b[1])
            elif op == ">":
                lo = max(lo, b[0] + 1)
            elif op == ">=":
                lo = max(lo, b[0])
            elif op == "==":
                lo, hi = max(lo, b[0]), min(hi, b[1])
            elif op == "!=" and b[0] == b[1]:
                if lo == b[0]:
                    lo += 1
                if hi == b[0]:
                    hi -= 1
            if lo > hi:
                return None
            env = dict(env)
            env[lk] = (lo, hi)
            return env
        return env

    # ------------------------------------------------------------ effects of expressions
    def effects(self, e, env):
        """apply the assignments inside expression e (evaluation order approximated by tree order)"""
        if env is None or not is_node(e):
            return env
        for n in walk(e):
            k = n["k"]
            if k == "Ref" and n.get("id") in self.tracked:
                self.at[id(n)] = env.get(n["id"], self.rng(n["id"]))
            tgt, res = None, None
            if k == "Assign" and self.members and is_node(n["l"]) and n["l"]["k"] == "Member" and self.key(n["l"]) is not None:
                mk = self.key(n["l"])
                lo_, hi_ = self.rng(mk)
                if n["op"] == "=":
                    v = self.ev(n["r"], env)
                    env = dict(env)
                    env[mk] = v if v is not None and v[0] >= lo_ and v[1] <= hi_ else (lo_, hi_)
                else:
                    env = dict(env)
                    env[mk] = (lo_, hi_)
            elif k == "Assign":
                tgt = n["l"]
                if is_node(tgt) and tgt["k"] == "Ref" and tgt.get("id") in self.tracked:
                    cur = env.get(tgt["id"], self.rng(tgt["id"]))
                    rhs = self.ev(n["r"], env)
                    if n["op"] == "=":
                        res = rhs
                        math = None
                        # `v = v + c` is arithmetic on the narrow value as well
                        r = n["r"]
                        while is_node(r) and r["k"] in ("Cast", "Paren"):
                            r = r["e"]
                        if is_node(r) and r["k"] == "Binary" and r["op"] in ("+", "-") and any(
                                is_node(x) and x["k"] == "Ref" and x.get("id") == tgt["id"] for x in walk(r)):
                            math = self.ev(r, env)
                    elif n["op"] in ("+=", "-=") and rhs is not None:
                        math = (cur[0] + rhs[0], cur[1] + rhs[1]) if n["op"] == "+=" else (cur[0] - rhs[1], cur[1] - rhs[0])
                        res = math
                    else:
                        math, res = None, None
                    env = self._store(n, tgt["id"], cur, res, math, env)
            elif k == "Unary" and n["op"] in ("++", "--"):
                tgt = n["e"]
                if is_node(tgt) and tgt["k"] == "Ref" and tgt.get("id") in self.tracked:
                    cur = env.get(tgt["id"], self.rng(tgt["id"]))
                    d = 1 if n["op"] == "++" else -1
                    math = (cur[0] + d, cur[1] + d)
                    env = self._store(n, tgt["id"], cur, math, math, env)
            elif k in ("Call", "OpCall", "Construct"):
                rv = n.get("recv") if k == "Call" else ((n.get("args") or [None])[0] if k == "OpCall" else None)
                if is_node(rv):
                    lk = "len:" + show(rv)
                    sh = n.get("short") or n.get("op")
                    if sh == "resize" and n.get("args"):
                        v = self.ev(n["args"][0], env)
                        env = dict(env)
                        env[lk] = (max(0, v[0]), v[1]) if v is not None else (0, INF)
                    elif sh == "clear":
                        env = dict(env)
                        env[lk] = (0, 0)
                    elif lk in env and sh not in ("size", "length", "empty", "c_str", "data", "at", "[]", "begin", "end", "cbegin", "cend",
                                                  "front", "back", "capacity", "compare", "find", "substr"):
                        env = dict(env)
                        env.pop(lk, None)
                if self.use is not None:
                    for vid in self.use(n):
                        for (tv, wi) in env.get("#w", ()):
                            if tv == vid:
                                self.tainted_uses.append((n, vid, wi))
                # a tracked local passed by non-const reference / address may change: forget it
                for i in (n.get("refargs") or []):
                    args = n.get("args", [])
                    if i < len(args):
                        for x in walk(args[i]):
                            if x["k"] == "Ref" and x.get("id") in self.tracked and not self._is_stream_write(n):
                                env = dict(env)
                                env.pop(x["id"], None)
        return env

    def _is_stream_write(self, n):
        return n.get("cls") == "nifly::NiOStream" or (n.get("op") == "<<")

    def _store(self, node, vid, cur, res, math, env):
        lo, hi = self.rng(vid)
        env = dict(env)
        if math is not None and (math[1] > hi or math[0] < lo) and vid in self.report:
            self.wraps.append((node, vid, cur, math))
            env["#w"] = env.get("#w", frozenset()) | {(vid, len(self.wraps) - 1)}
        elif math is None:
            env["#w"] = frozenset(x for x in env.get("#w", ()) if x[0] != vid)  # plain re-assignment: a fresh value
        if res is None or res[0] < lo or res[1] > hi:
            env[vid] = (lo, hi)
        else:
            env[vid] = res
        return env

    # ------------------------------------------------------------ statements
    def run(self):
        """One analysis per valuation of the stable boolean atoms tested in the function's conditions (bool fields /
        params / locals that the function never assigns): `if (flag && v == MAX) v -= 1; ... if (flag) v += 1;` is only
        provable when both tests of `flag` are known to agree.  At most 4 atoms (16 runs)."""
        atoms = self.stable_atoms()[:4]
        all_wraps, all_uses = [], []
        seen = set()
        for bits in range(1 << len(atoms)):
            self.assume = {a: bool(bits >> i & 1) for i, a in enumerate(atoms)}
            self.wraps, self.tainted_uses = [], []
            end = self.stmt(self.fn.get("body"), {})
            if end is not None:
                self.exit_envs.append((end, None))
            remap = {}
            for i, w in enumerate(self.wraps):
                key = id(w[0])
                if key not in seen:
                    seen.add(key)
                    all_wraps.append(w)
                remap[i] = next(j for j, w2 in enumerate(all_wraps) if w2[0] is w[0])
            all_uses += [(n, v, remap[wi]) for n, v, wi in self.tainted_uses]
        self.wraps, self.tainted_uses = all_wraps, all_uses
        self.valuations = 1 << len(atoms)
        return self.wraps

    def stable_atoms(self):
        assigned = set()
        body = self.fn.get("body") or {}
        for n in walk(body):
            t = None
            if n["k"] == "Assign":
                t = n["l"]
            elif n["k"] == "Unary" and n["op"] in ("++", "--"):
                t = n["e"]
            if is_node(t):
                assigned.add(show(t))
            if n["k"] in ("Call", "OpCall", "Construct"):
                for i in (n.get("refargs") or []):
                    if i < len(n.get("args", [])):
                        assigned.add(show(n["args"][i]))
        atoms = []

        def cond_atoms(c):
            if not is_node(c):
                return
            k = c["k"]
            if k in ("Paren", "Cast"):
                cond_atoms(c["e"])
            elif k == "Unary" and c["op"] == "!":
                cond_atoms(c["e"])
            elif k == "Binary" and c["op"] in ("&&", "||"):
                cond_atoms(c["l"])
                cond_atoms(c["r"])
            elif k in ("Ref", "Member") and (c.get("ct") or c.get("t") or "").replace("const ", "").strip() == "bool":
                s_ = show(c)
                if s_ not in assigned and s_ not in atoms:
                    atoms.append(s_)

        for n in walk(body):
            if n["k"] in ("If", "While", "For", "Do") and is_node(n.get("cond")):
                cond_atoms(n["cond"])
            if n["k"] == "Cond" and is_node(n.get("c")):
                cond_atoms(n["c"])
        return atoms

    def stmt(self, s, env):
        if env is None or not is_node(s):
            return env
        k = s["k"]
        if k == "Compound":
            for c in s.get("body", []):
                env = self.stmt(c, env)
                if env is None:
                    return None
            return env
        if k == "Decl":
            for v in s.get("vars", []):
                if is_node(v.get("init")):
                    env = self.effects(v["init"], env)
                    if env is None:
                        return None
                if v["id"] in self.tracked:
                    lo, hi = self.rng(v["id"])
                    val = self.ev(v.get("init"), env) if is_node(v.get("init")) else None
                    env = dict(env)
                    env[v["id"]] = val if val is not None and val[0] >= lo and val[1] <= hi else (lo, hi)
                    env["#w"] = frozenset(x for x in env.get("#w", ()) if x[0] != v["id"])
            return env
        if k == "If":
            if s.get("var") and is_node(s["var"].get("init")):
                env = self.effects(s["var"]["init"], env)
            c = s.get("cond")
            env = self.effects(c, env)
            t = self.stmt(s.get("then"), self.refine(c, env, True))
            f = self.refine(c, env, False)
            if is_node(s.get("else")):
                f = self.stmt(s["else"], f)
            return _join(t, f)
        if k in ("For", "While", "Do", "RangeFor"):
            if k == "For" and is_node(s.get("init")):
                env = self.stmt(s["init"], env) if s["init"]["k"] == "Decl" else self.effects(s["init"], env)
            assigned = set()
            for n in walk(s):
                t = None
                if n["k"] == "Assign":
                    t = n["l"]
                elif n["k"] == "Unary" and n["op"] in ("++", "--"):
                    t = n["e"]
                if is_node(t) and t["k"] == "Ref" and t.get("id") in self.tracked:
                    assigned.add(t["id"])
            if env is None:
                return None
            head = {kk: vv for kk, vv in env.items() if kk not in assigned}
            c = s.get("cond")
            inner = self.effects(c, head) if is_node(c) else head
            body_in = self.refine(c, inner, True) if is_node(c) and k != "Do" else inner
            out = self.stmt(s.get("body"), body_in)
            if k == "For" and is_node(s.get("inc")) and out is not None:
                self.effects(s["inc"], out)
            return self.refine(c, head, False) if is_node(c) else head
        if k in ("Return", "Throw"):
            env = self.effects(s.get("e"), env)
            if k == "Return" and env is not None:
                self.exit_envs.append((env, self.ev(s["e"], env) if is_node(s.get("e")) else None))
            return None
        if k in ("Break", "Continue"):
            return None  # sound enough here: the loop exit state is the widened head
        if k == "Switch":
            env = self.effects(s.get("cond"), env)
            # analyse the body as one block from the entry state (cases fall through); join with entry
            return _join(self.stmt(s.get("body"), env), env)
        if k in ("Case", "Default"):
            return self.stmt(s.get("sub"), env)
        if k == "Try":
            out = self.stmt(s.get("body"), env)
            for h in s.get("handlers", []):
                out = _join(out, self.stmt(h.get("body") if is_node(h) else None, env))
            return out
        if k in ("Null",):
            return env
        if k == "OtherStmt":
            for x in s.get("kids", []):
                env = self.stmt(x, env)
            return env
        return self.effects(s, env)  # expression statement
