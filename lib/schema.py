"""Wire schema of every block class: the ordered sequence of stream-primitive operations executed by D::Get (mode
Reading) / D::Put (mode Writing), obtained by composing the real call chain, with canonical member paths, widths,
enclosing loops and the data gates that remain after the version gates have been evaluated for one version region.
Used by C08 (current vs reference) and C01 (reader vs writer)."""
from facts import is_node, walk, show
import flow
import paths
from paths import Event, render

STREAMS = ("nifly::NiStreamReversible", "nifly::NiIStream", "nifly::NiOStream")
READ_WRITE = {"read": "rw", "write": "rw", "operator>>": "val", "operator<<": "val", ">>": "val", "<<": "val",
              "getline": "line", "writeline": "line", "getstring": "str", "writestring": "str",
              "Sync": "sync", "SyncLine": "line", "SyncString": "str", "SyncHalf": "half", "SyncUDEC3": "udec3"}
CONFIG_CALLS = {"GetVersion", "GetHeader", "GetMode", "SetMode", "asRead", "asWrite", "tellp", "InitBlockSize", "GetBlockSize"}


def _peel(e):
    while is_node(e):
        if e["k"] == "Cast":
            e = e["e"]
        elif e["k"] == "Unary" and e["op"] == "&":
            e = e["e"]
        else:
            return e
    return e


def make_primitive(F):
    sizes = {}

    def targ_size(n):
        fid = n.get("fid")
        fn = F.fns.get(fid)
        if fn and fn.get("targs"):
            return fn["targs"][0].get("size"), fn["targs"][0].get("ct") or fn["targs"][0].get("t")
        return None, None

    def prim(n, env, fn, st):
        if n["k"] not in ("Call", "OpCall"):
            return None
        cls = n.get("cls")
        if cls not in STREAMS:
            return None
        name = n.get("short") or n.get("op")
        if n["k"] == "OpCall":
            name = n.get("op")
        if name in CONFIG_CALLS:
            return []
        kind = READ_WRITE.get(name)
        if kind is None:
            return []
        args = list(n.get("args", []))
        if n["k"] == "OpCall" and n.get("memberop") and args:
            args = args[1:]
        info = {"op": name}
        path = None
        if kind == "val":
            size, ty = targ_size(n)
            info["width"] = size
            info["type"] = ty
            a = _peel(args[0]) if args else None
            path = env.path(a) if is_node(a) else None
            if path is None and is_node(a):
                info["expr"] = _value_shape(a)
            elif path is not None and path[0][0] == "$v" and len(path) == 1 and name in ("operator<<", "<<"):
                # a local written out that was defined once from an expression without members (`const auto v = version.File();
                # stream << v;`) is that expression
                init = _single_def_init(env, path[0][1])
                if init is not None and (not any(x["k"] == "Member" and x.get("mk", "field") == "field" for x in walk(init))
                                         or (_peel(init).get("k") == "Call" and env.path(_peel(init)) is None)):
                    path, info["expr"] = None, _value_shape(init)
        elif kind == "sync":
            if len(args) == 1:
                size, ty = targ_size(n)
                info["width"] = size
                info["type"] = ty
                a = _peel(args[0])
                path = env.path(a) if is_node(a) else None
            elif len(args) == 2:
                kind = "rw"
        if kind == "rw" and len(args) == 2:
            a = _peel(args[0])
            path = env.path(a) if is_node(a) else None
            ln = args[1]
            info["len"] = ln.get("val") if is_node(ln) and ln.get("val") is not None else _shape_with_env(ln, env, n)
            if path is None and is_node(a):
                info["expr"] = _value_shape(a)
        elif kind in ("line", "str", "half", "udec3"):
            a = _peel(args[0]) if args else None
            path = env.path(a) if is_node(a) else None
            if kind == "line" and len(args) > 1:
                info["len"] = args[1].get("val") if args[1].get("val") is not None else _shape_with_env(args[1], env, n)
        return [Event(path, kind, info)]

    return prim


def _single_def_init(env, vid):
    d = getattr(env, "_single_defs", None)
    if d is None:
        d = {}
        body = env.fn.get("body") or {}
        assigned = set()
        for n in walk(body):
            t = n["l"] if n["k"] == "Assign" else (n["e"] if n["k"] == "Unary" and n["op"] in ("++", "--") else None)
            if is_node(t) and t["k"] == "Ref":
                assigned.add(t.get("id"))
            if n["k"] in ("Call", "OpCall") and n.get("cls") in STREAMS and (n.get("short") or n.get("op")) in ("operator>>", ">>", "Sync", "read", "getline"):
                for a in n.get("args", []):
                    a = _peel(a)
                    if is_node(a) and a["k"] == "Ref":
                        assigned.add(a.get("id"))
        for n in walk(body):
            if n["k"] == "Decl":
                for v in n.get("vars", []):
                    if is_node(v.get("init")) and v["id"] not in assigned:
                        d[v["id"]] = v["init"]
        env._single_defs = d
    return d.get(vid)


def _value_shape(e):
    """shape of a non-lvalue operand (a temporary being written): its rendering with locals anonymised"""
    return show(e)


_local_name = paths.local_name
_shape_with_env = paths.shape_with_env


class SchemaBuilder:
    def __init__(self, F):
        self.F = F
        self.registry = {}
        self.vlocals = {}
        prim = make_primitive(F)
        self.S = {
            "read": paths.Summarizer(F, prim, mode=flow.MODE_READ, value_proxies=True),
            "write": paths.Summarizer(F, prim, mode=flow.MODE_WRITE, value_proxies=True),
        }

    def events(self, cls, direction):
        """events of cls::Get (direction read) or cls::Put (write); None if the class has no such method"""
        short = "Get" if direction == "read" else "Put"
        fns = self.F.method(cls, short)
        if not fns:
            return None
        import versions
        old, oldv = flow.KEYNODE, versions.VERSION_LOCALS
        flow.KEYNODE, versions.VERSION_LOCALS = self.registry, self.vlocals
        try:
            return self.S[direction].events(fns[0]["id"])
        finally:
            flow.KEYNODE, versions.VERSION_LOCALS = old, oldv

    def fn_events(self, fid, direction, consts=None):
        import versions
        old, oldv = flow.KEYNODE, versions.VERSION_LOCALS
        flow.KEYNODE, versions.VERSION_LOCALS = self.registry, self.vlocals
        try:
            return self.S[direction].events(fid, 0, consts)
        finally:
            flow.KEYNODE, versions.VERSION_LOCALS = old, oldv


class RegionView:
    """evaluates version guards of events for one region, with a cache per (registry, key)"""

    def __init__(self, builder, VE, region):
        self.b = builder
        self.VE = VE
        self.region = region
        self.cache = {}

    def guard_value(self, key):
        """True/False if the guard key has a definite truth value in this region, else None"""
        if key in self.cache:
            return self.cache[key]
        import versions
        node = self.b.registry.get(key)
        val = None
        oldv = versions.VERSION_LOCALS
        versions.VERSION_LOCALS = self.b.vlocals
        try:
            if is_node(node) and node["k"] == "VerImp":
                val = None
            elif is_node(node) and node["k"] == "VerOr":
                # disjunction of conjunctions of version guards, synthesised at a control-flow join
                any_unknown, val = False, False
                for conj in node["conjs"]:
                    cv = True
                    for k2, pol2 in conj:
                        g = self.guard_value(k2)
                        if g is None:
                            cv = None if cv is not False else False
                        elif g != pol2:
                            cv = False
                    if cv is True:
                        val = True
                        break
                    if cv is None:
                        any_unknown = True
                if val is not True:
                    val = None if any_unknown else False
            elif isinstance(node, tuple):
                v = self.VE.ev(node[1], self.region)
                if v is not None:
                    val = (bool(v) == node[2])
            elif is_node(node):
                v = self.VE.ev(node, self.region)
                if v is not None:
                    val = bool(v)
        finally:
            versions.VERSION_LOCALS = oldv
        self.cache[key] = val
        return val

    def project(self, events, drop_local_gates=False, with_events=False):
        """-> list of schema entries (tuples) live in this region"""
        out = []
        for ev in events:
            live = True
            gates = []
            for g in ev.guards:
                key, pol = g[0], g[1]
                local = g[2] if len(g) > 2 else False
                node0 = self.b.registry.get(key)
                if is_node(node0) and node0["k"] == "VerImp":
                    # a data gate that applies only under a version condition (the guard of an early return inside a
                    # version branch): where the condition holds it is that data gate, elsewhere it is nothing
                    vals = [self.guard_value(k2) for k2, _ in node0["conj"]]
                    if all(v2 is not None and v2 == pol2 for v2, (_, pol2) in zip(vals, node0["conj"])):
                        ik, ipol = node0["then"]
                        iv = self.guard_value(ik)
                        if iv is None:
                            if not (drop_local_gates and local):
                                gates.append((ik, ipol))
                        elif iv != ipol:
                            live = False
                            break
                    continue
                v = self.guard_value(key)
                if v is None:
                    node = self.b.registry.get(key)
                    if is_node(node) and ((node["k"] == "Binary" and node["op"] in ("&&", "||")) or node["k"] == "VerOr"):
                        # a compound condition that the version alone does not decide: its parts are recorded as their own
                        # gates where they hold on every path; the compound itself is not a gate (a nested-if spelling of the
                        # same test leaves none either)
                        continue
                    if not (drop_local_gates and local):
                        gates.append((key, pol))
                elif v != pol:
                    live = False
                    break
            if not live:
                continue
            e = entry(ev, gates)
            out.append((e, ev) if with_events else e)
        return out


def entry(ev, gates):
    p = ev.path
    if p is None:
        ps = "<%s>" % ev.info.get("expr", "?")
    elif p[0][0] == "$v":
        ps = "$local"  # locals are not wire-visible names
        if len(p) > 1:
            ps += "".join("." + c if not c.startswith("[") else c for c in p[1:])
    elif p[0][0] == "$lost":
        ps = "$local"  # a local of a callee (hand-written reader/writer buffers): not a wire-visible name either
    else:
        ps = render(p)
    w = ev.info.get("width")
    ln = ev.info.get("len")
    loops = tuple(ev.loops)
    gs = tuple(sorted(set("%s%s" % ("" if pol else "!", key) for key, pol in gates)))
    return (ev.kind, ps, w if w is not None else ln, loops, gs)


def fmt(e):
    kind, ps, w, loops, gs = e
    s = "%s %s" % (kind, ps)
    if w is not None:
        s += " [%s]" % w
    if loops:
        s += "  in {%s}" % "; ".join(loops)
    if gs:
        s += "  if %s" % " && ".join(gs)
    return s
