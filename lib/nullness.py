"""Forward nullness of block-lookup results (DESIGN §5 C15 R15.1, C16 R16.4).

Sources  : functions of /repo that can return a null pointer (discovered: literal nullptr return, or return of another
           source), and pointer dynamic_casts.
Tracked  : locals whose initialiser / some assignment is a source expression.
Safe use : a dereference of tracked local p is safe iff the guard fact (p, true) holds in every disjunct there.
Interproc: summary "dereferences pointer parameter i without a test"; passing a maybe-null value there is reported at
           the call site.
"""
from facts import is_node, walk, show, where
import flow


def peel(e):
    while is_node(e):
        k = e["k"]
        if k == "Cast" and e.get("ck") != "dynamic":
            e = e["e"]
        else:
            break
    return e


def is_ptr_type(t):
    return (t or "").rstrip().endswith("*")


class Nullness:
    def __init__(self, F):
        self.F = F
        self.nullable = self._nullable_fns()
        self.deref_params = {}
        self._summaries()

    # ------------------------------------------------------------------ sources
    def _ret_exprs(self, fn):
        return [n.get("e") for n in walk(fn.get("body") or {}) if n["k"] == "Return" and is_node(n.get("e"))]

    def _nullable_fns(self):
        F = self.F
        cand = {fid: fn for fid, fn in F.fns.items() if is_ptr_type(fn.get("ret")) and fn.get("tmpl") != "pattern"
                and not fn.get("lambda_parent") and not self._payload_accessor(fn)}
        nullable = set()
        changed = True
        while changed:
            changed = False
            for fid, fn in cand.items():
                if fid in nullable:
                    continue
                tracked = None
                for r in self._ret_exprs(fn):
                    r = peel(r)
                    hit = False
                    if r["k"] == "Lit" and r.get("lk") == "null":
                        hit = True
                    elif self.is_source(r, nullable):
                        hit = True
                    elif r["k"] == "Ref" and r.get("rk") == "local":
                        if tracked is None:
                            tracked = self.tracked_locals(fn, nullable)
                        if r["id"] in tracked:
                            hit = True  # conservative: may be returned unchecked
                    elif r["k"] == "Cond":
                        for b in (r["a"], r["b"]):
                            b = peel(b)
                            if is_node(b) and ((b["k"] == "Lit" and b.get("lk") == "null") or self.is_source(b, nullable)):
                                hit = True
                    if hit:
                        nullable.add(fid)
                        changed = True
                        break
        return nullable

    def _payload_accessor(self, fn):
        """methods of block payload classes (NiObject-derived, other than NiHeader) are not sources: the nullness of
        what they hand out is governed by their own invariants (the HasX()/XRef() pairs decided by the dynamic type,
        index tests against their own arrays), not by a block lookup through a possibly corrupted reference
        (DESIGN §5 C15 R15.1)"""
        cls = fn.get("cls")
        return bool(cls) and cls != "nifly::NiHeader" and self.F.derives_from(cls, "nifly::NiObject")

    def is_source(self, e, nullable=None):
        nullable = self.nullable if nullable is None else nullable
        e = peel(e)
        if not is_node(e):
            return False
        if e["k"] == "Cast" and e.get("ck") == "dynamic" and is_ptr_type(e.get("t")):
            return True
        if e["k"] == "Cond":
            # `p ? lookup(...) : nullptr` — null when either arm can be null
            for arm in (e.get("a"), e.get("b")):
                x = peel(arm)
                if is_node(x) and ((x["k"] == "Lit" and x.get("lk") == "null") or self.is_source(x, nullable)):
                    return True
            return False
        if e["k"] == "Call" and e.get("fid"):
            for t in self.F.call_targets(e):
                if t in nullable:
                    return True
        return False

    def tracked_locals(self, fn, nullable=None):
        ids = {}
        for n in walk(fn.get("body") or {}):
            if n["k"] == "Decl":
                for v in n.get("vars", []):
                    if is_node(v.get("init")) and self.is_source(v["init"], nullable):
                        ids[v["id"]] = v["name"]
            elif n["k"] in ("If", "While") and n.get("var") and is_node(n["var"].get("init")):
                if self.is_source(n["var"]["init"], nullable):
                    ids[n["var"]["id"]] = n["var"]["name"]
            elif n["k"] == "Assign" and n["op"] == "=" and is_node(n["l"]) and n["l"]["k"] == "Ref" and \
                    n["l"].get("rk") == "local" and self.is_source(n["r"], nullable):
                ids[n["l"]["id"]] = n["l"]["name"]
        return ids

    # ------------------------------------------------------------------ per function
    def analyse(self, fn, params_as_tracked=False):
        """-> list of findings dict(node, var, how)"""
        F = self.F
        tracked = dict(self.tracked_locals(fn))
        ptr_params = {}
        for i, p in enumerate(fn.get("params", [])):
            if is_ptr_type(p.get("ct") or p.get("t")):
                ptr_params[p["id"]] = i
        if params_as_tracked:
            for pid in ptr_params:
                tracked[pid] = True
        findings = []
        me = self
        stats = {"derefs": 0, "sources": len(tracked)}
        self.last_stats = stats

        class NF(flow.Flow):
            def on_decl(self, v, st):
                return me._assign_fact(v["id"], v["name"], v.get("init"), st, tracked)

            def on_node(self, n, st):
                k = n["k"]
                if k == "Assign" and n["op"] == "=" and is_node(n["l"]) and n["l"]["k"] == "Ref" and \
                        n["l"].get("rk") in ("local", "param"):
                    return me._assign_fact(n["l"]["id"], n["l"]["name"], n["r"], st, tracked)
                if self.muted:
                    return st
                base = None
                how = None
                if k == "Member" and n.get("arrow"):
                    base, how = n.get("base"), "->" + n["name"]
                elif k == "Call" and n.get("arrow") and n.get("recv") is not None:
                    base, how = n["recv"], "->" + (n.get("short") or "?") + "()"
                elif k == "Unary" and n["op"] == "*":
                    base, how = n["e"], "*"
                if base is not None:
                    b = peel(base)
                    if is_node(b):
                        if b["k"] == "Ref" and b.get("id") in tracked:
                            stats["derefs"] += 1
                            if not flow.has_guard(st, b["name"], True):
                                findings.append({"node": n, "var": b["name"], "how": how, "id": b["id"],
                                                 "param": ptr_params.get(b["id"])})
                        elif me.is_source(b) and b["k"] != "Ref":
                            findings.append({"node": n, "var": show(b), "how": how + " (lookup result used directly)",
                                             "id": None, "param": None})
                if k in ("Call", "Construct") and n.get("args"):
                    for t in F.call_targets(n):
                        dp = me.deref_params.get(t)
                        if not dp:
                            continue
                        for i in dp:
                            if i < len(n["args"]):
                                a = peel(n["args"][i])
                                if not is_node(a):
                                    continue
                                if a["k"] == "Ref" and a.get("id") in tracked:
                                    if not flow.has_guard(st, a["name"], True):
                                        findings.append({"node": n, "var": a["name"], "id": a["id"],
                                                         "how": "passed to %s which dereferences it unchecked" % n.get("short"),
                                                         "param": ptr_params.get(a["id"])})
                                elif me.is_source(a):
                                    findings.append({"node": n, "var": show(a), "id": None, "param": None,
                                                     "how": "lookup result passed directly to %s which dereferences it unchecked" % n.get("short")})
                return st

        NF(F, fn).run()
        return findings

    def _assign_fact(self, vid, name, rhs, st, tracked):
        if st is None or vid not in tracked:
            return st
        if is_node(rhs) and not self.is_source(rhs):
            r = peel(rhs)
            known_nonnull = False
            if r["k"] == "Unary" and r["op"] == "&":
                known_nonnull = True
            elif r["k"] in ("New", "This"):
                known_nonnull = True
            elif r["k"] == "Lit" and r.get("lk") == "null":
                return st | {("G", name, False, frozenset({("v", vid), ("n", name)}))}
            elif r["k"] == "Call":
                known_nonnull = True  # pointer from a function that cannot return null by the discovery rule
            elif r["k"] == "Ref" and r.get("id") in tracked:
                if flow.has_guard(st, r["name"], True):
                    known_nonnull = True
            elif r["k"] == "Ref":
                known_nonnull = True
            if known_nonnull:
                return st | {("G", name, True, frozenset({("v", vid), ("n", name)}))}
        return st

    def _summaries(self):
        """fixpoint of 'dereferences pointer parameter i without a test'"""
        F = self.F
        fns = [fn for fn in F.fns.values() if fn.get("tmpl") != "pattern" and
               any(is_ptr_type(p.get("ct") or p.get("t")) for p in fn.get("params", []))]
        for _ in range(6):
            changed = False
            for fn in fns:
                res = set()
                for f in self.analyse(fn, params_as_tracked=True):
                    if f.get("param") is not None:
                        res.add(f["param"])
                if res != self.deref_params.get(fn["id"], set()):
                    self.deref_params[fn["id"]] = res
                    changed = True
            if not changed:
                break
