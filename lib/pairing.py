"""Parallel-table pairing: every length change of a container is matched, in the same function and under the same
guards, by the corresponding change of its counter / sibling tables (DESIGN R6.1, R7.5, R10.1)."""
from facts import is_node, walk, show
import flow

GROW = {"push_back": "+1", "emplace_back": "+1", "insert": "+1", "emplace": "+1"}
SHRINK = {"erase": "-1", "pop_back": "-1"}


_ALIAS = {}  # local reference / pointer aliases of the function being analysed: var id -> initialiser (set_fn)


def set_fn(fn):
    """member_root follows the reference / pointer locals of this function (`auto& list = *blocks; list.erase(...)`)"""
    _ALIAS.clear()
    from facts import walk as _walk
    assigned = {x["l"]["id"] for x in _walk(fn.get("body") or {}) if x["k"] == "Assign" and is_node(x["l"]) and x["l"]["k"] == "Ref"}
    for d in _walk(fn.get("body") or {}):
        if d["k"] == "Decl":
            for v in d.get("vars", []):
                t = (v.get("ct") or v.get("t") or "").rstrip()
                if is_node(v.get("init")) and v["id"] not in assigned and (t.endswith("&") or t.endswith("*")):
                    _ALIAS[v["id"]] = v["init"]


def member_root(e, owner=None):
    """(member name, is_whole) for an lvalue rooted at this-><member> (through *, ->, [i], at(), local reference aliases)"""
    whole = True
    hops = 0
    while is_node(e):
        k = e["k"]
        if k == "Ref" and e.get("id") in _ALIAS and hops < 4:
            e = _ALIAS[e["id"]]
            hops += 1
            continue
        if k == "Member" and e.get("mk", "field") == "field":
            b = e.get("base")
            if b is None or b["k"] == "This":
                if owner is None or e.get("owner") == owner:
                    return e["name"], whole
                return None, False
            e = b
            whole = False if False else whole
        elif k == "Subscript":
            e = e["base"]
            whole = False
        elif k == "Unary" and e["op"] == "*":
            e = e["e"]
        elif k == "OpCall" and e.get("op") in ("*", "->") and e.get("args"):
            e = e["args"][0]
        elif k == "Cast":
            e = e["e"]
        elif k == "Call" and e.get("short") in ("at", "front", "back") and e.get("recv") is not None:
            e = e["recv"]
            whole = False
        else:
            return None, False
    return None, False


def length_ops(fn, owner, tables):
    """[(node, table, kind, arg)] kind in +1 -1 =0 =N(arg) =copy(arg) perm"""
    set_fn(fn)
    out = []
    for n in walk(fn.get("body") or {}):
        if n["k"] == "Call" and n.get("ext") and is_node(n.get("recv")):
            m, whole = member_root(n["recv"], owner)
            if m in tables and whole:
                sh = n.get("short")
                if sh in GROW:
                    out.append((n, m, "+1", None))
                elif sh in SHRINK:
                    out.append((n, m, "-1", show(n["args"][0]) if n.get("args") else None))
                elif sh == "clear":
                    out.append((n, m, "=0", None))
                elif sh == "resize" and n.get("args"):
                    out.append((n, m, "=N", show(n["args"][0])))
                elif sh in ("assign", "swap"):
                    out.append((n, m, "=copy", show(n["args"][0]) if n.get("args") else None))
        tgt = src = None
        if n["k"] == "Assign" and n["op"] == "=":
            tgt, src = n["l"], n["r"]
        elif n["k"] == "OpCall" and n.get("op") == "=" and len(n.get("args", [])) == 2:
            tgt, src = n["args"]
        if tgt is not None:
            m, whole = member_root(tgt, owner)
            tt = (tgt.get("ct") or tgt.get("t") or "") if is_node(tgt) else ""
            if m in tables and whole and "std::" in tt and not tt.rstrip().endswith("*"):
                out.append((n, m, "=copy", show(src)))
    return out


def counter_ops(fn, owner, counters):
    set_fn(fn)
    out = []
    for n in walk(fn.get("body") or {}):
        if n["k"] == "Unary" and n["op"] in ("++", "--"):
            m, _ = member_root(n["e"], owner)
            if m in counters:
                out.append((n, m, "+1" if n["op"] == "++" else "-1", None))
        elif n["k"] == "Assign":
            m, _ = member_root(n["l"], owner)
            if m in counters:
                if n["op"] == "=":
                    r = n["r"]
                    if is_node(r) and r.get("val") == 0:
                        out.append((n, m, "=0", None))
                    else:
                        out.append((n, m, "=copy", show(r)))
                elif n["op"] == "+=" and is_node(n["r"]) and n["r"].get("val") == 1:
                    out.append((n, m, "+1", None))
                elif n["op"] == "-=" and is_node(n["r"]) and n["r"].get("val") == 1:
                    out.append((n, m, "-1", None))
                else:
                    out.append((n, m, "?", show(n)))
        elif n["k"] == "OpCall" and n.get("op") == ">>" and len(n.get("args", [])) == 2:
            m, _ = member_root(n["args"][1], owner)
            if m in counters:
                out.append((n, m, "=read", None))
    return out


def guard_sig(F, fn, nodes, ignore_members=()):
    """node id -> frozenset of guard (key, pol) pairs in force at the node, ignoring guards that mention the paired
    tables/counters themselves (those legitimately change between the two halves of a pair)"""
    set_fn(fn)
    ids = {id(n) for n in nodes}
    col = flow.Collect(F, fn, lambda n: id(n) in ids)
    col.run()
    ign = set(("m", m) for m in ignore_members)
    out = {}
    for n, sts in col.by_node():
        sig = None
        for st in sts:
            g = frozenset((f[1], f[2]) for f in (st or ()) if f[0] == "G" and not (f[3] & ign))
            sig = g if sig is None else (sig & g)
        out[id(n)] = sig or frozenset()
    return out
