"""Structured forward dataflow over the extractor's statement trees (DESIGN Appendix A).

nifly has no goto; the statement tree is the CFG.  State = frozenset of facts, or BOT (unreachable).
Facts:
  ('G', key, pol, deps)   canonical condition `key` has truth value `pol` here   (must)
  ('D', key)              statement / call site `key` has executed               (must)
  ('I', set, elem, deps)  elem has been inserted into container `set`            (must)
  ('E', a, b, deps)       canonical paths a == b                                 (must)
  ('O', key)              obligation opened and not yet closed                   (may)
Must facts join by intersection, may facts by union.
"""
from facts import is_node, show, walk, children

BOT = None
EMPTY = frozenset()

CMP = {"<", ">", "<=", ">=", "==", "!="}


def join(a, b):
    if a is BOT:
        return b
    if b is BOT:
        return a
    if a is b or a == b:
        return a
    must = a & b
    may = frozenset(f for f in (a | b) if f[0] == "O")
    return must | may


def is_zero_lit(e):
    return is_node(e) and e["k"] == "Lit" and (e.get("lk") == "null" or (e.get("lk") in ("int", "bool", "zero", "char")
                                                                         and e.get("val") == 0))


def unparen(e):
    return e


def deps_of(e):
    d = set()
    for n in walk(e):
        k = n["k"]
        if k == "Ref" and n.get("rk") in ("local", "param"):
            if "Stream" in (n.get("t") or "") and "nifly::Ni" in (n.get("ct") or n.get("t") or ""):
                continue  # the stream object's configuration (version, mode) is fixed during a Get/Put
            d.add(("v", n["id"]))
        elif k == "Ref" and n.get("rk") in ("global", "staticlocal"):
            d.add(("g", n.get("qn")))
        elif k in ("Member", "DepMember") and n.get("mk", "field") == "field":
            d.add(("m", n["name"]))
    return frozenset(d)


def norm_cmp(e):
    """-> (key, pol) for comparison e being TRUE, using only '<' and '==' """
    op, l, r = e["op"], e["l"], e["r"]
    ls, rs = show(l), show(r)
    if op == "<":
        return "(%s < %s)" % (ls, rs), True
    if op == ">":
        return "(%s < %s)" % (rs, ls), True
    if op == "<=":
        return "(%s < %s)" % (rs, ls), False
    if op == ">=":
        return "(%s < %s)" % (ls, rs), False
    a, b = sorted([ls, rs])
    if op == "==":
        return "(%s == %s)" % (a, b), True
    return "(%s == %s)" % (a, b), False


KEYNODE = {}  # canonical condition key -> (expression node, polarity the key stands for relative to the node)


def _reg(key, node):
    if key not in KEYNODE:
        KEYNODE[key] = node
    return key


def implied(e, pol):
    """facts implied by expression e having truth value pol"""
    out = set()
    if not is_node(e):
        return out
    k = e["k"]
    if k == "Unary" and e["op"] == "!":
        return implied(e["e"], not pol)
    if k == "Binary" and e["op"] == "&&":
        if pol:
            out |= implied(e["l"], True) | implied(e["r"], True)
        out.add(("G", _reg(show(e), e), pol, deps_of(e)))
        return out
    if k == "Binary" and e["op"] == "||":
        if not pol:
            out |= implied(e["l"], False) | implied(e["r"], False)
        out.add(("G", _reg(show(e), e), pol, deps_of(e)))
        return out
    if k == "Binary" and e["op"] in CMP:
        key, p = norm_cmp(e)
        _reg(key, ("cmp", e, p))
        out.add(("G", key, p == pol, deps_of(e)))
        l, r, op = e["l"], e["r"], e["op"]
        # X != 0 / X == 0 / X > 0
        for x, z, o in ((l, r, op), (r, l, {"<": ">", ">": "<", "<=": ">=", ">=": "<="}.get(op, op))):
            if is_zero_lit(z):
                if o == "!=":
                    out |= implied(x, pol)
                elif o == "==":
                    out |= implied(x, not pol)
                elif o == ">" and pol:
                    out |= implied(x, True)
                elif o == "<=" and not pol:
                    out |= implied(x, True)
        return out
    if k == "OpCall" and e.get("op") in ("==", "!=") and len(e.get("args", [])) == 2:
        a, b = e["args"]
        for x, z in ((a, b), (b, a)):
            if is_zero_lit(z):
                return implied(x, pol if e["op"] == "!=" else not pol)
        s1, s2 = sorted([show(a), show(b)])
        out.add(("G", "(%s == %s)" % (s1, s2), pol == (e["op"] == "=="), deps_of(e)))
        return out
    if k == "Lit":
        return out
    if k == "Cast":
        return implied(e["e"], pol) if e.get("ck") != "dynamic" else {("G", show(e), pol, deps_of(e))}
    if k == "Assign" and e["op"] == "=":
        # if ((p = f())) ...
        out |= implied(e["l"], pol)
        return out
    out.add(("G", _reg(show(e), e), pol, deps_of(e)))
    # smart-pointer / optional style: `if (p)` on OpCall 'operator bool' appears as Call short 'operator bool'
    if k == "Call" and e.get("short") == "operator bool" and e.get("recv") is not None:
        out |= implied(e["recv"], pol)
    return out


def kill(st, dep):
    if st is BOT:
        return st
    return frozenset(f for f in st if not (isinstance(f[-1], frozenset) and dep in f[-1]))


def lvalue_dep(l):
    """the dependency key killed by assigning to lvalue l"""
    while is_node(l):
        k = l["k"]
        if k == "Ref":
            if l.get("rk") in ("local", "param"):
                return ("v", l["id"])
            return ("g", l.get("qn"))
        if k in ("Member", "DepMember"):
            return ("m", l["name"])
        if k == "Subscript":
            l = l["base"]
        elif k == "Unary" and l["op"] == "*":
            l = l["e"]
        elif k == "Cast":
            l = l["e"]
        elif k == "OpCall" and l.get("op") in ("*", "->") and l.get("args"):
            l = l["args"][0]
        else:
            return None
    return None


MODE_READ, MODE_WRITE = "Reading", "Writing"


class Flow:
    """Subclass and override the on_* hooks.  run() drives the analysis of one function."""

    def __init__(self, F, fn, mode=None):
        self.F = F
        self.fn = fn
        self.mode = mode
        self.muted = 0
        self.exits = []  # (kind, node, state) for every return / fall-off-end, final pass only

    # ------------------------------------------------------------ hooks
    def on_node(self, n, st):
        """called post-order for every expression node (after its operands); may return a new state"""
        return st

    def on_stmt(self, s, st):
        """called before each statement"""
        return st

    def on_decl(self, v, st):
        return st

    def on_exit(self, kind, node, st):
        pass

    def const_cond(self, e):
        """True/False if the condition is decided by configuration (stream mode, folded constant), else None"""
        if "val" in e and e["k"] != "Assign":
            return bool(e["val"])
        if self.mode is not None:
            m = mode_test(e)
            if m is not None:
                return m == self.mode
        return None

    # ------------------------------------------------------------ driver
    def run(self, entry=EMPTY):
        body = self.fn.get("body")
        st = entry
        for i in self.fn.get("inits", []):
            if is_node(i.get("e")):
                st = self.expr(i["e"], st)
        n, b, c, r = self.stmt(body, st)
        if n is not BOT:
            self._exit("end", None, n)
        return join(n, r)

    def _exit(self, kind, node, st):
        if not self.muted:
            self.exits.append((kind, node, st))
            self.on_exit(kind, node, st)

    def _visit(self, n, st):
        if st is BOT:
            return st
        if self.muted:
            # kills still have to happen while iterating to a fixpoint: on_node must be pure w.r.t. reports
            r = self.on_node(n, st)
        else:
            r = self.on_node(n, st)
        return st if r is None else r

    # ------------------------------------------------------------ expressions
    def expr(self, e, st):
        if st is BOT or not is_node(e):
            return st
        k = e["k"]
        if k == "Binary" and e["op"] in ("&&", "||"):
            t, f = self.cond(e, st)
            return join(t, f)
        if k == "Cond":
            t, f = self.cond(e["c"], st)
            a = self.expr(e["a"], t)
            b = self.expr(e["b"], f)
            return self._visit(e, join(a, b))
        if k == "Assign":
            st = self.expr(e["r"], st)
            st = self.expr_lvalue_operands(e["l"], st)
            d = lvalue_dep(e["l"])
            if d:
                st = kill(st, d)
            return self._visit(e, st)
        if k == "Unary" and e["op"] in ("++", "--"):
            st = self.expr(e["e"], st)
            d = lvalue_dep(e["e"])
            if d:
                st = kill(st, d)
            return self._visit(e, st)
        if k == "Lambda":
            return self._visit(e, st)
        if k in ("Call", "OpCall", "Construct"):
            if e.get("recv") is not None:
                st = self.expr(e["recv"], st)
            if e.get("callee") is not None:
                st = self.expr(e["callee"], st)
            args = e.get("args", [])
            for a in args:
                st = self.expr(a, st)
            if st is BOT:
                return st
            for i in e.get("refargs", []):
                if i < len(args) and is_node(args[i]):
                    a = args[i]
                    if a["k"] == "Unary" and a["op"] == "&":
                        a = a["e"]
                    d = lvalue_dep(a)
                    if d and d[0] == "v":
                        st = kill(st, d)
            if k == "OpCall" and e.get("op") in ("=", "+=", "-=", "++", "--", "<<=", ">>=", "|=", "&=") and args:
                d = lvalue_dep(args[0])
                if d:
                    st = kill(st, d)
            return self._visit(e, st)
        for c in children(e):
            st = self.expr(c, st)
        return self._visit(e, st)

    def expr_lvalue_operands(self, l, st):
        """evaluate sub-expressions of an lvalue that is about to be written (indices, bases)"""
        if not is_node(l):
            return st
        for c in children(l):
            st = self.expr(c, st)
        return st

    def cond(self, e, st):
        """-> (state if true, state if false)"""
        if st is BOT:
            return BOT, BOT
        if not is_node(e):
            return st, st
        k = e["k"]
        cc = self.const_cond(e)
        if cc is not None:
            st2 = self.expr_plain(e, st)
            return (st2, BOT) if cc else (BOT, st2)
        if k == "Unary" and e["op"] == "!":
            t, f = self.cond(e["e"], st)
            return f, t
        if k == "Binary" and e["op"] == "&&":
            t1, f1 = self.cond(e["l"], st)
            t2, f2 = self.cond(e["r"], t1)
            f = join(f1, f2)
            if f is not BOT and (f1 is BOT or f2 is BOT):
                pass
            return t2, f
        if k == "Binary" and e["op"] == "||":
            t1, f1 = self.cond(e["l"], st)
            t2, f2 = self.cond(e["r"], f1)
            return join(t1, t2), f2
        st2 = self.expr(e, st)
        if st2 is BOT:
            return BOT, BOT
        return st2 | frozenset(implied(e, True)), st2 | frozenset(implied(e, False))

    def expr_plain(self, e, st):
        # evaluate for effects without branching on its own constness (avoid infinite recursion)
        if e["k"] == "Binary" and e["op"] in ("&&", "||"):
            st = self.expr_plain(e["l"], st) if is_node(e["l"]) else st
            return self.expr_plain(e["r"], st) if is_node(e["r"]) else st
        if e["k"] == "Unary" and e["op"] == "!":
            return self.expr_plain(e["e"], st) if is_node(e["e"]) else st
        return self.expr(e, st)

    # ------------------------------------------------------------ statements
    def stmt(self, s, st):
        """-> (normal, break, continue, return) out-states"""
        if st is BOT or s is None:
            return st, BOT, BOT, BOT
        if not is_node(s):
            return st, BOT, BOT, BOT
        r0 = self.on_stmt(s, st)
        st = st if r0 is None else r0
        k = s["k"]
        if k == "Compound":
            b = c = r = BOT
            for x in s["body"]:
                n, b2, c2, r2 = self.stmt(x, st)
                b, c, r = join(b, b2), join(c, c2), join(r, r2)
                st = n
                if st is BOT:
                    break
            return st, b, c, r
        if k == "If":
            if s.get("init") is not None:
                st, _, _, _ = self.stmt(s["init"], st)
            if s.get("var") is not None:
                st = self.decl(s["var"], st)
            t, f = self.cond(s["cond"], st)
            n1, b1, c1, r1 = self.stmt(s.get("then"), t)
            n2, b2, c2, r2 = self.stmt(s.get("else"), f) if s.get("else") is not None else (f, BOT, BOT, BOT)
            return join(n1, n2), join(b1, b2), join(c1, c2), join(r1, r2)
        if k in ("For", "While", "Do", "RangeFor"):
            return self.loop(s, st)
        if k == "Switch":
            return self.switch(s, st)
        if k == "Return":
            if s.get("e") is not None:
                st = self.expr(s["e"], st)
            if st is not BOT:
                self._exit("return", s, st)
            return BOT, BOT, BOT, st
        if k == "Break":
            return BOT, st, BOT, BOT
        if k == "Continue":
            return BOT, BOT, st, BOT
        if k == "Decl":
            for v in s.get("vars", []):
                st = self.decl(v, st)
            return st, BOT, BOT, BOT
        if k == "Try":
            n, b, c, r = self.stmt(s.get("body"), st)
            hin = join(st, n)
            for h in s.get("handlers", []):
                n2, b2, c2, r2 = self.stmt(h, hin)
                n, b, c, r = join(n, n2), join(b, b2), join(c, c2), join(r, r2)
            return n, b, c, r
        if k in ("Null",):
            return st, BOT, BOT, BOT
        if k in ("Case", "Default"):
            # label outside a switch body walk (nested label): just run the sub statement
            return self.stmt(s.get("sub"), st)
        if k == "OtherStmt":
            for x in s.get("kids", []):
                n, _, _, _ = self.stmt(x, st)
                st = n
            return st, BOT, BOT, BOT
        if k == "Throw":
            st = self.expr(s.get("e"), st) if s.get("e") is not None else st
            return BOT, BOT, BOT, BOT
        # expression statement
        st = self.expr(s, st)
        if k == "Throw":
            return BOT, BOT, BOT, BOT
        return st, BOT, BOT, BOT

    def decl(self, v, st):
        if is_node(v.get("init")):
            st = self.expr(v["init"], st)
        if st is BOT:
            return st
        st = kill(st, ("v", v["id"]))
        r = self.on_decl(v, st)
        return st if r is None else r

    def loop(self, s, st):
        k = s["k"]
        if k == "For" and s.get("init") is not None:
            st, _, _, _ = self.stmt(s["init"], st)
        if k == "RangeFor":
            st = self.expr(s["range"], st)
        if st is BOT:
            return BOT, BOT, BOT, BOT

        def once(head):
            """one symbolic iteration from loop-head state; returns (back_edge_state, exit_state, ret)"""
            if k == "Do":
                n, b, c, r = self.stmt(s["body"], head)
                t, f = self.cond(s["cond"], join(n, c))
                return t, join(f, b), r
            if k == "RangeFor":
                h2 = kill(head, ("v", s["var"]["id"]))
                r0 = self.on_decl(s["var"], h2)
                h2 = h2 if r0 is None else r0
                n, b, c, r = self.stmt(s["body"], h2)
                return join(n, c), join(head, b), r
            if s.get("var") is not None:
                head = self.decl(s["var"], head)
            if s.get("cond") is not None:
                t, f = self.cond(s["cond"], head)
            else:
                t, f = head, BOT
            n, b, c, r = self.stmt(s["body"], t)
            back = join(n, c)
            if k == "For" and s.get("inc") is not None:
                back = self.expr(s["inc"], back)
            return back, join(f, b), r

        head = st
        self.muted += 1
        try:
            for _ in range(12):
                back, _, _ = once(head)
                nh = join(st, back)
                if nh == head:
                    break
                head = nh
        finally:
            self.muted -= 1
        back, ex, r = once(head)
        return ex, BOT, BOT, r

    def switch(self, s, st):
        st = self.expr(s["cond"], st)
        if st is BOT:
            return BOT, BOT, BOT, BOT
        body = s.get("body")
        stmts = body["body"] if is_node(body) and body["k"] == "Compound" else [body]
        cur = BOT
        brk = cont = ret = BOT
        has_default = False
        sel = s["cond"]
        for x in stmts:
            while is_node(x) and x["k"] in ("Case", "Default"):
                if x["k"] == "Default":
                    has_default = True
                    entry = st
                else:
                    fake = {"k": "Binary", "op": "==", "l": sel, "r": x["val"], "t": "bool", "loc": x.get("loc", "")}
                    cc = self.const_cond_switch(sel, x["val"])
                    entry = BOT if cc is False else st | frozenset(implied(fake, True))
                cur = join(cur, entry)
                x = x.get("sub")
            n, b, c, r = self.stmt(x, cur)
            cur = n
            brk, cont, ret = join(brk, b), join(cont, c), join(ret, r)
        out = join(cur, brk)
        if not has_default:
            out = join(out, st)
        return out, BOT, cont, ret

    def const_cond_switch(self, sel, val):
        return None


# ------------------------------------------------------------------------------------------------
# stream-mode tests

def _is_mode_enum(e):
    if is_node(e) and e["k"] == "Ref" and e.get("rk") == "enumconst":
        qn = e.get("qn", "")
        if qn.endswith("Mode::Reading"):
            return MODE_READ
        if qn.endswith("Mode::Writing"):
            return MODE_WRITE
    return None


def _is_mode_value(e):
    if not is_node(e):
        return False
    if e["k"] == "Call" and e.get("short") == "GetMode":
        return True
    if e["k"] == "Member" and e.get("name") == "mode" and e.get("owner") == "nifly::NiStreamReversible":
        return True
    return False


def mode_test(e):
    """if e is a test of the stream mode, return the mode for which e is TRUE, else None"""
    if not is_node(e):
        return None
    k = e["k"]
    if k == "Binary" and e["op"] in ("==", "!="):
        for a, b in ((e["l"], e["r"]), (e["r"], e["l"])):
            m = _is_mode_enum(b)
            if m and _is_mode_value(a):
                if e["op"] == "==":
                    return m
                return MODE_WRITE if m == MODE_READ else MODE_READ
    if k == "Call" and e.get("short") in ("asRead", "asWrite") and e.get("cls") == "nifly::NiStreamReversible":
        return MODE_READ if e["short"] == "asRead" else MODE_WRITE
    if k == "Unary" and e["op"] == "!":
        m = mode_test(e["e"])
        if m:
            return MODE_WRITE if m == MODE_READ else MODE_READ
    return None


def has_guard(st, key, pol):
    if st is BOT:
        return True
    for f in st:
        if f[0] == "G" and f[1] == key and f[2] == pol:
            return True
    return False


def guards(st):
    if st is BOT:
        return []
    return sorted((f[1], f[2]) for f in st if f[0] == "G")


class Collect(Flow):
    """records the state at every node for which want(node) holds"""

    def __init__(self, F, fn, want, mode=None, mode_vars=True):
        super().__init__(F, fn, mode)
        self.want = want
        self.at = []  # (node, state) in visiting order, final pass only
        self.modevars = {}  # local var id -> mode for which the var is non-null/true

    def on_decl(self, v, st):
        i = v.get("init")
        if is_node(i):
            m = mode_test(i)
            if m:
                self.modevars[v["id"]] = m
        return st

    def const_cond(self, e):
        r = super().const_cond(e)
        if r is not None:
            return r
        if self.mode is not None and is_node(e) and e["k"] == "Ref" and e.get("id") in self.modevars:
            return self.modevars[e["id"]] == self.mode
        return None

    def on_node(self, n, st):
        if not self.muted and self.want(n):
            self.at.append((n, st))
        return st
