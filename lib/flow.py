"""Structured forward dataflow over the extractor's statement trees (DESIGN Appendix A).

nifly has no goto; the statement tree is the CFG.  State = frozenset of facts, or BOT (unreachable).
Facts:
  ('G', key, pol, deps)   canonical condition `key` has truth value `pol` here   (must)
  ('D', key)              statement / call site `key` has executed               (must)
  ('I', set, elem, deps)  elem has been inserted into container `set`            (must)
  ('E', a, b, deps)       canonical paths a == b                                 (must)
  ('O', key)              obligation opened and not yet closed                   (may)
Must facts join by intersection, may facts by union.
"""
from facts import is_node, show, walk, children

BOT = None
EMPTY = frozenset()

CMP = {"<", ">", "<=", ">=", "==", "!="}


def join(a, b):
    if a is BOT:
        return b
    if b is BOT:
        return a
    if a is b or a == b:
        return a
    must = a & b
    may = frozenset(f for f in (a | b) if f[0] == "O")
    out = must | may
    # guards that depend only on the file version are never lost at a join: what holds afterwards is the disjunction of what
    # held on either side, so `if (V1) { if (V2) return; }` and `if (V1 && V2) return;` leave the same knowledge
    va = frozenset(f for f in a - b if f[0] == "G" and VER in f[3])
    vb = frozenset(f for f in b - a if f[0] == "G" and VER in f[3])
    if va and vb:
        ka = tuple(sorted((f[1], f[2]) for f in va))
        kb = tuple(sorted((f[1], f[2]) for f in vb))
        conjs = tuple(sorted({ka, kb}))
        key = "V{" + " | ".join(" & ".join(("" if pol else "!") + k for k, pol in c) for c in conjs) + "}"
        if len(key) < 2000:
            _reg(key, {"k": "VerOr", "conjs": conjs})
            out = out | {("G", key, True, frozenset({VER}))}
        # a data guard that holds on one side only, where the two sides are told apart by contradicting version guards, still
        # holds afterwards *under that side's version condition*: `if (V) { if (!named) return; }  rest` runs `rest` with
        # "V => named" — the guard of an early return taken only in some versions
        for mine, other, vm, vo in ((a, b, va, vb), (b, a, vb, va)):
            km = tuple(sorted((f[1], f[2]) for f in vm))
            if not any((k, not pol) in {(f[1], f[2]) for f in vo} for k, pol in km):
                continue
            for f in mine - other:
                if f[0] != "G" or VER in f[3] or f[1].startswith("V{") or f[2] is None:
                    continue
                ikey = "V{" + " & ".join(("" if pol else "!") + k for k, pol in km) + "}=>" + ("" if f[2] else "!") + f[1]
                if len(ikey) < 2000:
                    _reg(ikey, {"k": "VerImp", "conj": km, "then": (f[1], f[2])})
                    out = out | {("G", ikey, True, frozenset(f[3]) | {VER, ("imp",)})}
    return out


VER = ("ver",)  # dependency marker of a guard built only from NiVersion accessors and constants


def is_zero_lit(e):
    return is_node(e) and e["k"] == "Lit" and (e.get("lk") == "null" or (e.get("lk") in ("int", "bool", "zero", "char")
                                                                         and e.get("val") == 0))


def unparen(e):
    return e


def deps_of(e):
    d = set()
    for n in walk(e):
        k = n["k"]
        if k == "Ref" and n.get("rk") in ("local", "param"):
            if "Stream" in (n.get("t") or "") and "nifly::Ni" in (n.get("ct") or n.get("t") or ""):
                continue  # the stream object's configuration (version, mode) is fixed during a Get/Put
            d.add(("v", n["id"]))
            d.add(("n", n["name"]))
        elif k == "Ref" and n.get("rk") in ("global", "staticlocal"):
            d.add(("g", n.get("qn")))
        elif k in ("Member", "DepMember") and n.get("mk", "field") == "field":
            d.add(("m", n["name"]))
    return frozenset(d)


def norm_cmp(e, render=None):
    """-> (key, pol) for comparison e being TRUE, using only '<' and '==' """
    op, l, r = e["op"], e["l"], e["r"]
    render = render or show

    def rnd(x):
        # a constant operand (literal, enumerator, constexpr) is rendered by its value: `type == BSLSP_ENVMAP` and `type == 1`
        # are one test
        y = x
        while is_node(y) and y["k"] == "Cast":
            y = y["e"]
        if is_node(y) and y.get("val") is not None and (y["k"] != "Ref" or y.get("rk") != "param") and \
                isinstance(y["val"], int) and not isinstance(y["val"], bool):
            return str(y["val"])
        return render(x)

    ls, rs = rnd(l), rnd(r)
    if op == "<":
        return "(%s < %s)" % (ls, rs), True
    if op == ">":
        return "(%s < %s)" % (rs, ls), True
    if op == "<=":
        return "(%s < %s)" % (rs, ls), False
    if op == ">=":
        return "(%s < %s)" % (ls, rs), False
    a, b = sorted([ls, rs])
    if op == "==":
        return "(%s == %s)" % (a, b), True
    return "(%s == %s)" % (a, b), False


KEYNODE = {}  # canonical condition key -> (expression node, polarity the key stands for relative to the node)


def _reg(key, node):
    # always the most recent node: a key is looked up right after the fact was created in the current function, and
    # declaration ids differ between trees / extraction runs
    KEYNODE[key] = node
    return key


def implied(e, pol):
    """facts implied by expression e having truth value pol"""
    out = set()
    if not is_node(e):
        return out
    k = e["k"]
    if k == "Unary" and e["op"] == "!":
        return implied(e["e"], not pol)
    if k == "Binary" and e["op"] == "&&":
        if pol:
            out |= implied(e["l"], True) | implied(e["r"], True)
        out.add(("G", _reg(show(e), e), pol, deps_of(e)))
        return out
    if k == "Binary" and e["op"] == "||":
        if not pol:
            out |= implied(e["l"], False) | implied(e["r"], False)
        out.add(("G", _reg(show(e), e), pol, deps_of(e)))
        return out
    if k == "Binary" and e["op"] in CMP:
        key, p = norm_cmp(e)
        _reg(key, ("cmp", e, p))
        out.add(("G", key, p == pol, deps_of(e)))
        l, r, op = e["l"], e["r"], e["op"]
        # X != 0 / X == 0 / X > 0
        for x, z, o in ((l, r, op), (r, l, {"<": ">", ">": "<", "<=": ">=", ">=": "<="}.get(op, op))):
            if is_zero_lit(z):
                if o == "!=":
                    out |= implied(x, pol)
                elif o == "==":
                    out |= implied(x, not pol)
                elif o == ">" and pol:
                    out |= implied(x, True)
                elif o == "<=" and not pol:
                    out |= implied(x, True)
        return out
    if k == "OpCall" and e.get("op") in ("==", "!=") and len(e.get("args", [])) == 2:
        a, b = e["args"]
        for x, z in ((a, b), (b, a)):
            if is_zero_lit(z):
                return implied(x, pol if e["op"] == "!=" else not pol)
        s1, s2 = sorted([show(a), show(b)])
        key = "(%s == %s)" % (s1, s2)
        _reg(key, dict(e, op="=="))  # the key stands for equality; `!=` is the same key with the other polarity
        out.add(("G", key, pol == (e["op"] == "=="), deps_of(e)))
        return out
    if k == "Lit":
        return out
    if k == "Cast":
        return implied(e["e"], pol) if e.get("ck") != "dynamic" else {("G", show(e), pol, deps_of(e))}
    if k == "Assign" and e["op"] == "=":
        # if ((p = f())) ...
        out |= implied(e["l"], pol)
        return out
    d = deps_of(e)
    if k == "Ref" and e.get("rk") == "local" and (e.get("ct") or e.get("t")) in ("bool", "const bool"):
        d = d | {("flag",)}
    out.add(("G", _reg(show(e), e), pol, d))
    # smart-pointer / optional style: `if (p)` on OpCall 'operator bool' appears as Call short 'operator bool'
    if k == "Call" and e.get("short") == "operator bool" and e.get("recv") is not None:
        out |= implied(e["recv"], pol)
    return out


UNSIGNED = ("unsigned", "uint8_t", "uint16_t", "uint32_t", "uint64_t", "size_t", "bool")


def _is_unsigned(e):
    t = (e.get("ct") or e.get("t") or "") if is_node(e) else ""
    return any(u in t for u in UNSIGNED) and "*" not in t


def normalize_guards(gs):
    """canonical form of a set of guard triples (key, polarity, local) so that equivalent spellings of a test give one gate:
    * a comparison of x with the literal 0 (`x > 0`, `x != 0`, `0 == x`, `x <= 0` for unsigned x) becomes the truth value of x,
      which is also what `if (x)` / `if (!x)` record;
    * next to a positive equality `x == c1`, negative equalities `x != c2` on the same x with another constant say nothing
      (a `switch` case and the matching arm of an if / else-if chain)."""
    out = set()
    eq_pos = {}
    parsed = []
    for g in gs:
        key, pol = g[0], g[1]
        rest = tuple(g[2:])
        node = KEYNODE.get(key)
        if isinstance(node, tuple) and len(node) == 3 and node[0] == "cmp" and is_node(node[1]):
            e, p = node[1], node[2]
            op, l, r = e["op"], e["l"], e["r"]
            etruth = (pol == p)
            x = None
            if is_zero_lit(r):
                x, o = l, op
            elif is_zero_lit(l):
                x, o = r, {"<": ">", ">": "<", "<=": ">=", ">=": "<="}.get(op, op)
            if x is not None:
                xt = None
                if o == "!=":
                    xt = etruth
                elif o == "==":
                    xt = not etruth
                elif o == ">" and _is_unsigned(x):
                    xt = etruth
                elif o == "<=" and _is_unsigned(x):
                    xt = not etruth
                if xt is not None:
                    while is_node(x) and x["k"] == "Cast":
                        x = x["e"]
                    k2 = show(x)
                    if k2 not in KEYNODE:
                        _reg(k2, x)
                    out.add((k2, xt) + rest)
                    continue
            if op in ("==", "!="):
                cl, cr = (l.get("val") if is_node(l) and l["k"] != "Ref" or (is_node(l) and l.get("rk") not in ("local", "param")) else None), \
                         (r.get("val") if is_node(r) and r["k"] != "Ref" or (is_node(r) and r.get("rk") not in ("local", "param")) else None)
                is_eq = etruth == (op == "==")
                if cr is not None and cl is None:
                    parsed.append((g, show(l), cr, is_eq))
                    if is_eq:
                        eq_pos[show(l)] = cr
                    continue
                if cl is not None and cr is None:
                    parsed.append((g, show(r), cl, is_eq))
                    if is_eq:
                        eq_pos[show(r)] = cl
                    continue
        out.add(tuple(g))
    for g, xs, c, is_eq in parsed:
        if not is_eq and xs in eq_pos and eq_pos[xs] != c:
            continue  # implied by the positive equality on the same operand
        out.add(tuple(g))
    return tuple(sorted(out, key=lambda t: (t[0], str(t[1:]))))


def _is_version_pure(node):
    import versions
    if isinstance(node, tuple):
        node = node[1] if len(node) > 1 else None
    if is_node(node) and node["k"] == "VerOr":
        return True
    return is_node(node) and versions.pure_version_init(node)


def _ver_deps(e):
    d = deps_of(e)
    return d | {VER} if _is_version_pure(e) else d


def _mark_version(facts):
    out = set()
    for f in facts:
        if f[0] == "G" and VER not in f[3] and _is_version_pure(KEYNODE.get(f[1])):
            f = (f[0], f[1], f[2], f[3] | {VER})
        out.add(f)
    return out


def contradicts(st, new_facts):
    """a flag local known true/false cannot take the other value (only bare-identifier flag facts are used, so an
    unrelated imprecision elsewhere cannot make reachable code look dead)"""
    for f in new_facts:
        if f[0] == "G" and ("flag",) in f[3]:
            for g in st:
                if g[0] == "G" and g[1] == f[1] and g[2] != f[2] and ("flag",) in g[3]:
                    return True
    return False


def flag_facts(st):
    if st is BOT:
        return frozenset()
    return frozenset((f[1], f[2]) for f in st if f[0] == "G" and ("flag",) in f[3])


def merge_partitions(states, cap=8):
    if cap == 0:
        out = BOT
        for s0 in states:
            out = join(out, s0)
        return [out] if out is not BOT else []
    groups = {}
    order = []
    for s0 in states:
        k = flag_facts(s0)
        if k in groups:
            groups[k] = join(groups[k], s0)
        else:
            groups[k] = s0
            order.append(k)
    if len(order) > cap:
        out = BOT
        for k in order:
            out = join(out, groups[k])
        return [out]
    return [groups[k] for k in order]


def kill(st, dep):
    if st is BOT:
        return st
    return frozenset(f for f in st if not (isinstance(f[-1], frozenset) and dep in f[-1]))


def lvalue_dep(l):
    """the dependency key killed by assigning to lvalue l"""
    while is_node(l):
        k = l["k"]
        if k == "Ref":
            if l.get("rk") in ("local", "param"):
                return ("v", l["id"])
            return ("g", l.get("qn"))
        if k in ("Member", "DepMember"):
            return ("m", l["name"])
        if k == "Subscript":
            l = l["base"]
        elif k == "Unary" and l["op"] == "*":
            l = l["e"]
        elif k == "Cast":
            l = l["e"]
        elif k == "OpCall" and l.get("op") in ("*", "->") and l.get("args"):
            l = l["args"][0]
        else:
            return None
    return None


MODE_READ, MODE_WRITE = "Reading", "Writing"


def iterator_loop(s, resolve=None):
    """for (auto it = c.begin(); it != c.end(); ++it) whose body never steps `it` -> the node c, else None.  `resolve` maps a
    reference to a local that is defined once to its initialiser (`const auto last = c.end();` hoisted in front of the loop)"""
    if s.get("k") != "For" or not is_node(s.get("init")) or not is_node(s.get("cond")) or not is_node(s.get("inc")):
        return None
    init, cond, inc = s["init"], s["cond"], s["inc"]
    if init["k"] != "Decl" or len(init.get("vars", [])) != 1:
        return None
    v = init["vars"][0]

    def peel(e):
        while is_node(e) and e["k"] in ("Cast", "Construct") and (e.get("e") is not None or len(e.get("args", [])) == 1):
            e = e["e"] if e.get("e") is not None else e["args"][0]
        return e

    def is_it(e):
        e = peel(e)
        return is_node(e) and e["k"] == "Ref" and e.get("id") == v["id"]

    b = peel(v.get("init"))
    if not (is_node(b) and b["k"] == "Call" and b.get("short") in ("begin", "cbegin") and is_node(b.get("recv"))):
        return None
    cont = b["recv"]
    if cond["k"] == "Binary" and cond["op"] == "!=":
        l, r = cond["l"], cond["r"]
    elif cond["k"] == "OpCall" and cond.get("op") == "!=" and len(cond.get("args", [])) == 2:
        l, r = cond["args"]
    else:
        return None
    if is_it(r):
        l, r = r, l
    r = peel(r)
    if resolve is not None and is_node(r) and r["k"] == "Ref":
        r = peel(resolve(r))
    if not (is_it(l) and is_node(r) and r["k"] == "Call" and r.get("short") in ("end", "cend") and is_node(r.get("recv"))
            and show(r["recv"]) == show(cont)):
        return None
    if inc["k"] == "Unary" and inc["op"] == "++":
        t = inc["e"]
    elif inc["k"] == "OpCall" and inc.get("op") == "++" and inc.get("args"):
        t = inc["args"][0]
    else:
        return None
    if not is_it(t):
        return None
    for x in walk(s.get("body") or {}):
        t = x["l"] if x["k"] == "Assign" else (x["e"] if x["k"] == "Unary" and x["op"] in ("++", "--") else
                                               (x["args"][0] if x["k"] == "OpCall" and x.get("op") in ("++", "--", "=", "+=", "-=") and x.get("args") else None))
        if t is not None and is_it(t):
            return None
    return cont


LENGTH_CHANGERS = ("resize", "clear", "push_back", "emplace_back", "insert", "erase", "pop_back", "assign", "swap", "SetSize")


def range_sizes(body):
    """{id(RangeFor node): show(count)} where the loop's container was resized to `count` by the nearest preceding sibling
    statement (searching outwards through the enclosing blocks): the number of iterations of `for (x : c)` after
    `c.resize(n)` is n, which is what the wire format repeats the element `n` times for."""
    out = {}
    unsized = []  # (loop node, container text, [(condition text, polarity)] enclosing it)
    changes = {}  # container text -> [(short, size text, enclosing conditions)]

    def note_changes(n, conds):
        for x in walk(n):
            if x["k"] == "Call" and x.get("short") in LENGTH_CHANGERS and is_node(x.get("recv")):
                changes.setdefault(show(x["recv"]), []).append(
                    (x["short"], show(x["args"][0]) if x.get("args") else None, list(conds), x))

    def resize_of(st, cont):
        if is_node(st) and st["k"] == "Call" and st.get("short") == "resize" and is_node(st.get("recv")) and st.get("args") \
                and show(st["recv"]) == cont:
            return show(st["args"][0])
        return None

    def rec(n, chain, conds=()):
        if not is_node(n):
            return
        k = n["k"]
        if k == "Compound":
            for i, c in enumerate(n.get("body", [])):
                rec(c, [(n, i)] + chain, conds)
            return
        if k == "If":
            note_changes(n.get("cond") or {}, conds)
            rec(n.get("then"), chain, conds + ((show(n["cond"]), True),))
            rec(n.get("else"), chain, conds + ((show(n["cond"]), False),))
            return
        if k not in ("For", "While", "Do", "RangeFor", "Switch", "Case", "Default", "Try", "OtherStmt"):
            note_changes(n, conds)
        algo_range = None
        it_range = iterator_loop(n) if k == "For" else None
        if k == "Call" and n.get("ext") and n.get("short") in ("for_each", "transform", "any_of", "all_of", "none_of", "find_if",
                                                                "count_if", "copy_if", "remove_if") and n.get("args"):
            f0 = n["args"][0]
            while is_node(f0) and f0["k"] == "Cast":
                f0 = f0["e"]
            if is_node(f0) and f0["k"] == "Call" and f0.get("short") in ("begin", "cbegin") and is_node(f0.get("recv")):
                algo_range = f0["recv"]  # std::for_each(c.begin(), c.end(), f) repeats like `for (x : c)`
        if k == "RangeFor" or algo_range is not None or it_range is not None:
            cont = show(n["range"] if k == "RangeFor" else (algo_range if algo_range is not None else it_range))
            found = None
            for comp, idx in chain:
                for j in range(idx - 1, -1, -1):
                    found = resize_of(comp["body"][j], cont)
                    if found:
                        break
                if found:
                    break
            if found:
                out[id(n)] = found
            else:
                unsized.append((n, cont, conds))
        for key in ("then", "else", "body", "sub", "init"):
            c = n.get(key)
            if is_node(c) and key != "init":
                rec(c, chain, conds)
        for h in n.get("handlers", []) if k == "Try" else []:
            rec(h, chain, conds)
        for c in n.get("kids", []) if k == "OtherStmt" else []:
            rec(c, chain, conds)

    rec(body, [])
    # a loop in a later block: the container's only length change in the whole function is one resize, made earlier under
    # version conditions that all enclose the loop as well (`if (v >= 132) c.resize(n); ... if (v >= 132) for (x : c)`)
    for n, cont, conds in unsized:
        ch = changes.get(cont, [])
        if len(ch) != 1 or ch[0][0] != "resize" or ch[0][1] is None:
            continue
        _, size, rconds, call = ch[0]
        if _loc_key(call) >= _loc_key(n):
            continue
        if all(c in conds and _is_version_text(body, c[0]) for c in rconds):
            out[id(n)] = size
    return out


def _loc_key(n):
    try:
        parts = (n.get("loc") or "").rsplit(":", 2)
        return (int(parts[-2]), int(parts[-1]))
    except (ValueError, IndexError):
        return (0, 0)


def _is_version_text(body, text):
    """is the condition rendered as `text` (somewhere in body) built only from version accessors and constants?"""
    import versions as _versions
    for x in walk(body):
        if x["k"] == "If" and is_node(x.get("cond")) and show(x["cond"]) == text:
            return _versions.pure_version_init(x["cond"])
    return False


def counted_loop(s):
    """for (T i = 0; i < N; i++ / ++i) whose body never assigns i and whose bound N does not mention i -> the node N, else None"""
    if s.get("k") != "For" or not is_node(s.get("init")) or not is_node(s.get("cond")) or not is_node(s.get("inc")):
        return None
    init, cond, inc = s["init"], s["cond"], s["inc"]
    if init["k"] != "Decl" or len(init.get("vars", [])) != 1:
        return None
    v = init["vars"][0]
    i0 = v.get("init")
    while is_node(i0) and i0["k"] == "Cast":
        i0 = i0["e"]
    if not (is_node(i0) and i0.get("val") == 0 and i0["k"] in ("Lit", "Cast")):
        return None

    def is_i(e):
        while is_node(e) and e["k"] == "Cast":
            e = e["e"]
        return is_node(e) and e["k"] == "Ref" and e.get("id") == v["id"]

    if cond["k"] != "Binary" or cond["op"] not in ("<", ">", "!="):
        return None
    if cond["op"] in ("<", "!=") and is_i(cond["l"]):
        bound = cond["r"]
    elif cond["op"] == ">" and is_i(cond["r"]):
        bound = cond["l"]
    else:
        return None
    if not (inc["k"] == "Unary" and inc["op"] == "++" and is_i(inc["e"])):
        return None
    if any(x["k"] == "Ref" and x.get("id") == v["id"] for x in walk(bound)):
        return None
    for x in walk(s.get("body") or {}):
        t = x["l"] if x["k"] == "Assign" else (x["e"] if x["k"] == "Unary" and x["op"] in ("++", "--") else None)
        if is_i(t):
            return None
    while is_node(bound) and bound["k"] == "Cast":
        bound = bound["e"]
    return bound


import re as _re
_re_idx = _re.compile(r"\[\$i\d+\]")


class Flow:
    """Subclass and override the on_* hooks.  run() drives the analysis of one function."""

    def __init__(self, F, fn, mode=None):
        self.F = F
        self.fn = fn
        self.mode = mode
        self.muted = 0
        self.partition = True
        self.loop_stack = []  # canonical descriptions of the loops enclosing the node being visited
        self.loop_cond_keys = []  # for canonical counted loops: the guard key of the loop condition (it is the loop, not a gate)
        self._defs = None  # local id -> initialiser, for locals defined once (lazily)
        self._expander = None  # renders loop bounds with the locals that are defined once replaced by their initialiser
        self._range_sized = None  # id(RangeFor) -> rendering of the count its container was resized to just before
        self.exits = []  # (kind, node, state) for every return / fall-off-end, final pass only

    def _single_def(self, ref):
        """initialiser of a local that is defined once and never reassigned, else the reference itself"""
        if self._defs is None:
            body = self.fn.get("body") or {}
            assigned = set()
            for n in walk(body):
                t = n["l"] if n["k"] == "Assign" else (n["e"] if n["k"] == "Unary" and n["op"] in ("++", "--") else None)
                if is_node(t) and t["k"] == "Ref":
                    assigned.add(t.get("id"))
            self._defs = {}
            for n in walk(body):
                if n["k"] == "Decl":
                    for v in n.get("vars", []):
                        if is_node(v.get("init")) and v["id"] not in assigned:
                            self._defs[v["id"]] = v["init"]
        return self._defs.get(ref.get("id"), ref)

    # ------------------------------------------------------------ hooks
    def on_node(self, n, st):
        """called post-order for every expression node (after its operands); may return a new state"""
        return st

    def on_stmt(self, s, st):
        """called before each statement"""
        return st

    def on_decl(self, v, st):
        return st

    def on_exit(self, kind, node, st):
        pass

    def may_remove(self, call, argi, arg):
        """may the callee remove elements from a container reachable from by-reference argument argi?"""
        return self.F.may_remove(call, argi)

    def is_mode_cond(self, e):
        return mode_test(e) is not None

    def const_cond(self, e):
        """True/False if the condition is decided by configuration (stream mode, folded constant), else None"""
        if "val" in e and e["k"] != "Assign":
            return bool(e["val"])
        if self.mode is not None:
            m = mode_test(e)
            if m is not None:
                return m == self.mode
        return None

    # ------------------------------------------------------------ driver
    def run(self, entry=EMPTY):
        body = self.fn.get("body")
        st = entry
        for i in self.fn.get("inits", []):
            if is_node(i.get("e")):
                st = self.expr(i["e"], st)
        n, b, c, r = self.stmt(body, st)
        if n is not BOT:
            self._exit("end", None, n)
        return join(n, r)

    def _exit(self, kind, node, st):
        if not self.muted:
            self.exits.append((kind, node, st))
            self.on_exit(kind, node, st)

    def _visit(self, n, st):
        if st is BOT:
            return st
        if self.muted:
            # kills still have to happen while iterating to a fixpoint: on_node must be pure w.r.t. reports
            r = self.on_node(n, st)
        else:
            r = self.on_node(n, st)
        return st if r is None else r

    # ------------------------------------------------------------ expressions
    def expr(self, e, st):
        if st is BOT or not is_node(e):
            return st
        k = e["k"]
        if k == "Binary" and e["op"] in ("&&", "||"):
            t, f = self.cond(e, st)
            return join(t, f)
        if k == "Cond":
            t, f = self.cond(e["c"], st)
            a = self.expr(e["a"], t)
            b = self.expr(e["b"], f)
            return self._visit(e, join(a, b))
        if k == "Assign":
            st = self.expr(e["r"], st)
            st = self.expr_lvalue_operands(e["l"], st)
            d = lvalue_dep(e["l"])
            if d:
                st = kill(st, d)
            if st is not BOT and e["op"] == "=" and is_node(e["l"]) and e["l"]["k"] == "Ref" and \
                    e["l"].get("rk") == "local" and is_node(e["r"]) and e["r"]["k"] == "Lit" and e["r"].get("lk") == "bool":
                st = st | {("G", e["l"]["name"], bool(e["r"]["val"]),
                           frozenset({("v", e["l"]["id"]), ("n", e["l"]["name"]), ("flag",)}))}
            return self._visit(e, st)
        if k == "Unary" and e["op"] in ("++", "--"):
            st = self.expr(e["e"], st)
            d = lvalue_dep(e["e"])
            if d:
                st = kill(st, d)
            return self._visit(e, st)
        if k == "Lambda":
            return self._visit(e, st)
        if k in ("Call", "OpCall", "Construct"):
            if e.get("recv") is not None:
                st = self.expr(e["recv"], st)
            if e.get("callee") is not None:
                st = self.expr(e["callee"], st)
            args = e.get("args", [])
            for a in args:
                st = self.expr(a, st)
            if st is BOT:
                return st
            st = self._visit(e, st)  # the state in which the call executes; its effects on by-reference arguments follow
            if st is BOT:
                return st
            for i in e.get("refargs", []):
                if i < len(args) and is_node(args[i]):
                    a = args[i]
                    if a["k"] == "Unary" and a["op"] == "&":
                        a = a["e"]
                    elif (a.get("ct") or a.get("t") or "").rstrip().endswith("*"):
                        continue  # pointer passed by value: the pointer variable itself cannot change
                    d = lvalue_dep(a)
                    if d and d[0] == "v":
                        st = kill(st, d)
                    rv = _root_var(a)
                    if rv is not None and self.may_remove(e, i, a):
                        st = kill(st, ("cv", rv))
            if k == "OpCall" and e.get("op") in ("=", "+=", "-=", "++", "--", "<<=", ">>=", "|=", "&=") and args:
                d = lvalue_dep(args[0])
                if d:
                    st = kill(st, d)
            return st
        for c in children(e):
            st = self.expr(c, st)
        return self._visit(e, st)

    def expr_lvalue_operands(self, l, st):
        """evaluate sub-expressions of an lvalue that is about to be written (indices, bases)"""
        if not is_node(l):
            return st
        for c in children(l):
            st = self.expr(c, st)
        return st

    def cond(self, e, st):
        """-> (state if true, state if false)"""
        if st is BOT:
            return BOT, BOT
        if not is_node(e):
            return st, st
        k = e["k"]
        cc = self.const_cond(e)
        if cc is not None:
            st2 = self.expr_plain(e, st)
            if st2 is not BOT and self.mode is not None and self.is_mode_cond(e):
                st2 = st2 | {("D", "mode-split")}  # everything below is specific to one stream direction
            return (st2, BOT) if cc else (BOT, st2)
        if k == "Unary" and e["op"] == "!":
            t, f = self.cond(e["e"], st)
            return f, t
        if k == "Binary" and e["op"] == "&&":
            t1, f1 = self.cond(e["l"], st)
            t2, f2 = self.cond(e["r"], t1)
            f = join(f1, f2)
            if self.const_cond(e["l"]) is not None or self.const_cond(e["r"]) is not None:
                return t2, f  # one side is decided here (stream mode, bound constant): the other side's own facts say it all
            whole = ("G", _reg(show(e), e), None, _ver_deps(e))
            if t2 is not BOT:
                t2 = t2 | {(whole[0], whole[1], True, whole[3])}
            if f is not BOT:
                f = f | {(whole[0], whole[1], False, whole[3])}
            return t2, f
        if k == "Binary" and e["op"] == "||":
            t1, f1 = self.cond(e["l"], st)
            t2, f2 = self.cond(e["r"], f1)
            t = join(t1, t2)
            if self.const_cond(e["l"]) is not None or self.const_cond(e["r"]) is not None:
                return t, f2
            whole = ("G", _reg(show(e), e), None, _ver_deps(e))
            if t is not BOT:
                t = t | {(whole[0], whole[1], True, whole[3])}
            if f2 is not BOT:
                f2 = f2 | {(whole[0], whole[1], False, whole[3])}
            return t, f2
        st2 = self.expr(e, st)
        if st2 is BOT:
            return BOT, BOT
        t, f = set(implied(e, True)), set(implied(e, False))
        if k == "Ref":
            for fact in st2:
                if fact[0] == "F" and fact[1] == e["name"]:
                    dn = KEYNODE.get(fact[2])
                    if is_node(dn):
                        t |= implied(dn, True)
                        f |= implied(dn, False)
        t, f = _mark_version(t), _mark_version(f)
        # a branch contradicting a known fact is unreachable
        t |= history_facts(t)
        f |= history_facts(f)
        tt = BOT if contradicts(st2, t) else st2 | frozenset(t)
        ff = BOT if contradicts(st2, f) else st2 | frozenset(f)
        return tt, ff

    def expr_plain(self, e, st):
        # evaluate for effects without branching on its own constness (avoid infinite recursion)
        if e["k"] == "Binary" and e["op"] in ("&&", "||"):
            st = self.expr_plain(e["l"], st) if is_node(e["l"]) else st
            return self.expr_plain(e["r"], st) if is_node(e["r"]) else st
        if e["k"] == "Unary" and e["op"] == "!":
            return self.expr_plain(e["e"], st) if is_node(e["e"]) else st
        return self.expr(e, st)

    # ------------------------------------------------------------ statements
    def stmt(self, s, st):
        """-> (normal, break, continue, return) out-states"""
        outs, b, c, r = self.stmt_multi(s, st)
        n = BOT
        for o in outs:
            n = join(n, o)
        return n, b, c, r

    def stmt_multi(self, s, st):
        """-> ([normal out-states, one per trace partition], break, continue, return).
        An `if` whose branches leave different values in a flag local keeps both out-states apart (trace
        partitioning, DESIGN Appendix A); partitions flow through nested compounds/ifs and are joined at loop, switch
        and function boundaries."""
        if st is BOT or s is None or not is_node(s):
            return [st], BOT, BOT, BOT
        k = s["k"]
        if k == "Compound":
            r0 = self.on_stmt(s, st)
            st = st if r0 is None else r0
            b = c = r = BOT
            states = [st]
            for x in s["body"]:
                nxt = []
                for s0 in states:
                    outs, b2, c2, r2 = self.stmt_multi(x, s0)
                    b, c, r = join(b, b2), join(c, c2), join(r, r2)
                    nxt.extend(o for o in outs if o is not BOT)
                states = merge_partitions(nxt, 8 if self.partition else 0)
                if not states:
                    break
            return (states or [BOT]), b, c, r
        if k == "If":
            r0 = self.on_stmt(s, st)
            st = st if r0 is None else r0
            if s.get("init") is not None:
                st, _, _, _ = self.stmt(s["init"], st)
            if s.get("var") is not None:
                st = self.decl(s["var"], st)
            t, f = self.cond(s["cond"], st)
            n1, b1, c1, r1 = self.stmt_multi(s.get("then"), t)
            n2, b2, c2, r2 = self.stmt_multi(s.get("else"), f) if s.get("else") is not None else ([f], BOT, BOT, BOT)
            outs = merge_partitions([o for o in n1 + n2 if o is not BOT], 8 if self.partition else 0)
            return (outs or [BOT]), join(b1, b2), join(c1, c2), join(r1, r2)
        n, b, c, r = self.stmt1(s, st)
        return [n], b, c, r

    def stmt1(self, s, st):
        r0 = self.on_stmt(s, st)
        st = st if r0 is None else r0
        k = s["k"]
        if k in ("For", "While", "Do", "RangeFor"):
            return self.loop(s, st)
        if k == "Switch":
            return self.switch(s, st)
        if k == "Return":
            if s.get("e") is not None:
                st = self.expr(s["e"], st)
            if st is not BOT:
                self._exit("return", s, st)
            return BOT, BOT, BOT, st
        if k == "Break":
            return BOT, st, BOT, BOT
        if k == "Continue":
            return BOT, BOT, st, BOT
        if k == "Decl":
            for v in s.get("vars", []):
                st = self.decl(v, st)
            return st, BOT, BOT, BOT
        if k == "Try":
            n, b, c, r = self.stmt(s.get("body"), st)
            hin = join(st, n)
            for h in s.get("handlers", []):
                n2, b2, c2, r2 = self.stmt(h, hin)
                n, b, c, r = join(n, n2), join(b, b2), join(c, c2), join(r, r2)
            return n, b, c, r
        if k in ("Null",):
            return st, BOT, BOT, BOT
        if k in ("Case", "Default"):
            # label outside a switch body walk (nested label): just run the sub statement
            return self.stmt(s.get("sub"), st)
        if k == "OtherStmt":
            for x in s.get("kids", []):
                n, _, _, _ = self.stmt(x, st)
                st = n
            return st, BOT, BOT, BOT
        if k == "Throw":
            st = self.expr(s.get("e"), st) if s.get("e") is not None else st
            return BOT, BOT, BOT, BOT
        # expression statement
        st = self.expr(s, st)
        if k == "Throw":
            return BOT, BOT, BOT, BOT
        return st, BOT, BOT, BOT

    def decl(self, v, st):
        if is_node(v.get("init")):
            st = self.expr(v["init"], st)
        if st is BOT:
            return st
        st = kill(kill(st, ("v", v["id"])), ("n", v["name"]))
        i = v.get("init")
        if is_node(i) and (v.get("ct") or v.get("t")) in ("bool", "const bool"):
            me = frozenset({("v", v["id"]), ("n", v["name"])})
            if i["k"] == "Lit" and i.get("lk") == "bool":
                st = st | {("G", v["name"], bool(i["val"]), me | {("flag",)})}
            else:
                st = st | {("F", v["name"], _reg("def:" + show(i), i), me | deps_of(i))}
        r = self.on_decl(v, st)
        return st if r is None else r

    def loop(self, s, st):
        k = s["k"]
        if k == "For" and s.get("init") is not None:
            st, _, _, _ = self.stmt(s["init"], st)
        if k == "RangeFor":
            st = self.expr(s["range"], st)
        if st is BOT:
            return BOT, BOT, BOT, BOT

        def once(head):
            """one symbolic iteration from loop-head state; returns (back_edge_state, exit_state, ret)"""
            if k == "Do":
                n, b, c, r = self.stmt(s["body"], head)
                t, f = self.cond(s["cond"], join(n, c))
                return t, join(f, b), r
            if k == "RangeFor":
                h2 = kill(kill(head, ("v", s["var"]["id"])), ("n", s["var"]["name"]))
                r0 = self.on_decl(s["var"], h2)
                h2 = h2 if r0 is None else r0
                n, b, c, r = self.stmt(s["body"], h2)
                return join(n, c), join(head, b), r
            if s.get("var") is not None:
                head = self.decl(s["var"], head)
            if s.get("cond") is not None:
                t, f = self.cond(s["cond"], head)
            else:
                t, f = head, BOT
            n, b, c, r = self.stmt(s["body"], t)
            back = join(n, c)
            if k == "For" and s.get("inc") is not None:
                back = self.expr(s["inc"], back)
            return back, join(f, b), r

        cond_key = None
        it_range = iterator_loop(s, self._single_def) if k == "For" else None
        if k == "RangeFor" or it_range is not None:
            if self._range_sized is None:
                self._range_sized = range_sizes(self.fn.get("body"))
            sized = self._range_sized.get(id(s))
            # a range loop over a container that was just resized to n repeats n times: same canonical form as the counted loop
            self.loop_stack.append(("repeat " + _re_idx.sub("[*]", sized)) if sized else ("each " + show(s["range"] if k == "RangeFor" else it_range)))
            if it_range is not None:
                c0 = s["cond"]
                if c0["k"] == "OpCall":
                    cond_key = "(%s == %s)" % tuple(sorted([show(c0["args"][0]), show(c0["args"][1])]))
                else:
                    cond_key = norm_cmp(c0)[0]
        elif s.get("cond") is not None:
            cnt = counted_loop(s)
            if cnt is not None:
                if self._expander is None:
                    self._expander = self.F.expander(self.fn)[0] if self.F is not None and hasattr(self.F, "expander") else show
                # an element selected by an enclosing loop's index (`lens[$i1]`) and the same element reached through a local
                # copy or reference of it (`lens[*]`) are one bound
                self.loop_stack.append("repeat " + _re_idx.sub("[*]", self._expander(cnt)))
                cond_key = norm_cmp(s["cond"])[0]
            else:
                self.loop_stack.append("while " + show(s["cond"]))
        else:
            self.loop_stack.append("forever")
        self.loop_cond_keys.append(cond_key)
        try:
            ex, b, c, r = self._loop_body(s, st, once)
        finally:
            self.loop_stack.pop()
            self.loop_cond_keys.pop()
        # variables scoped to the loop go out of scope: facts about them are meaningless afterwards
        scoped = []
        if k == "For" and is_node(s.get("init")) and s["init"]["k"] == "Decl":
            scoped = [(v["id"], v["name"]) for v in s["init"].get("vars", [])]
        elif k == "RangeFor":
            scoped = [(s["var"]["id"], s["var"]["name"])]
        for vid, nm in scoped:
            ex = kill(kill(ex, ("v", vid)), ("n", nm))
        return ex, b, c, r

    def _loop_body(self, s, st, once):
        head = st
        self.muted += 1
        try:
            for _ in range(12):
                back, _, _ = once(head)
                nh = join(st, back)
                if nh == head:
                    break
                head = nh
        finally:
            self.muted -= 1
        back, ex, r = once(head)
        return ex, BOT, BOT, r

    def switch(self, s, st):
        st = self.expr(s["cond"], st)
        if st is BOT:
            return BOT, BOT, BOT, BOT
        body = s.get("body")
        stmts = body["body"] if is_node(body) and body["k"] == "Compound" else [body]
        cur = BOT
        brk = cont = ret = BOT
        has_default = False
        sel = s["cond"]
        for x in stmts:
            while is_node(x) and x["k"] in ("Case", "Default"):
                if x["k"] == "Default":
                    has_default = True
                    entry = st
                else:
                    fake = {"k": "Binary", "op": "==", "l": sel, "r": x["val"], "t": "bool", "loc": x.get("loc", "")}
                    cc = self.const_cond_switch(sel, x["val"])
                    entry = BOT if cc is False else st | frozenset(implied(fake, True))
                cur = join(cur, entry)
                x = x.get("sub")
            n, b, c, r = self.stmt(x, cur)
            cur = n
            brk, cont, ret = join(brk, b), join(cont, c), join(ret, r)
        out = join(cur, brk)
        if not has_default:
            out = join(out, st)
        return out, BOT, cont, ret

    def const_cond_switch(self, sel, val):
        return None


# ------------------------------------------------------------------------------------------------
# stream-mode tests

def _is_mode_enum(e):
    if is_node(e) and e["k"] == "Ref" and e.get("rk") == "enumconst":
        qn = e.get("qn", "")
        if qn.endswith("Mode::Reading"):
            return MODE_READ
        if qn.endswith("Mode::Writing"):
            return MODE_WRITE
    return None


def _is_mode_value(e):
    if not is_node(e):
        return False
    if e["k"] == "Call" and e.get("short") == "GetMode":
        return True
    if e["k"] == "Member" and e.get("name") == "mode" and e.get("owner") == "nifly::NiStreamReversible":
        return True
    return False


def mode_test(e):
    """if e is a test of the stream mode, return the mode for which e is TRUE, else None"""
    if not is_node(e):
        return None
    k = e["k"]
    if k == "Binary" and e["op"] in ("==", "!="):
        for a, b in ((e["l"], e["r"]), (e["r"], e["l"])):
            m = _is_mode_enum(b)
            if m and _is_mode_value(a):
                if e["op"] == "==":
                    return m
                return MODE_WRITE if m == MODE_READ else MODE_READ
    if k == "Call" and e.get("short") in ("asRead", "asWrite") and e.get("cls") == "nifly::NiStreamReversible":
        return MODE_READ if e["short"] == "asRead" else MODE_WRITE
    if k == "Unary" and e["op"] == "!":
        m = mode_test(e["e"])
        if m:
            return MODE_WRITE if m == MODE_READ else MODE_READ
    return None


def has_guard(st, key, pol):
    if st is BOT:
        return True
    for f in st:
        if f[0] == "G" and f[1] == key and f[2] == pol:
            return True
    return False


def guards(st):
    if st is BOT:
        return []
    return sorted((f[1], f[2]) for f in st if f[0] == "G")


INSERTERS = {"insert", "push_back", "emplace_back", "emplace", "push_front"}
REMOVERS = {"clear", "erase", "pop_back", "resize", "assign", "swap"}


def _root_var(e):
    while is_node(e):
        k = e["k"]
        if k == "Ref":
            return e.get("id") if e.get("rk") in ("local", "param") else None
        if k in ("Member", "DepMember"):
            e = e.get("base")
        elif k == "Subscript":
            e = e["base"]
        elif k in ("Cast",):
            e = e["e"]
        elif k == "Unary" and e["op"] in ("*", "&"):
            e = e["e"]
        else:
            return None
    return None


def set_facts(n, st):
    """('I', container, element, deps) must-facts for std container insertions; removed by clear/erase/…
    deps = variables of the element expression + ('cv', root variable of the container): the latter is only killed
    when the container is handed to code that may remove elements (Flow.may_remove)"""
    if st is BOT or n["k"] != "Call" or not n.get("ext") or not is_node(n.get("recv")):
        return st
    sh = n.get("short")
    if sh in INSERTERS and n.get("args"):
        v = show(n["recv"])
        x = show(n["args"][-1])
        d = set(deps_of(n["args"][-1]))
        rv = _root_var(n["recv"])
        if rv is not None:
            d.add(("cv", rv))
        return st | {("I", v, x, frozenset(d))}
    if sh in REMOVERS:
        v = show(n["recv"])
        return frozenset(f for f in st if not (f[0] == "I" and f[1] == v))
    return st


def _count_zero(e, truth):
    """does comparison e having truth value `truth` imply  <lhs-or-rhs call count(x)> == 0 ?  -> (V, x) or None"""
    if not (is_node(e) and e["k"] == "Binary" and e["op"] in CMP):
        return None
    for a, b, op in ((e["l"], e["r"], e["op"]), (e["r"], e["l"], {"<": ">", ">": "<", "<=": ">=", ">=": "<="}.get(e["op"], e["op"]))):
        if is_node(a) and a["k"] == "Call" and a.get("short") == "count" and is_node(a.get("recv")) and a.get("args") \
                and is_zero_lit(b):
            zero = (op == "==" and truth) or (op == "!=" and not truth) or (op == ">" and not truth) or (op == "<=" and truth)
            if zero:
                return show(a["recv"]), show(a["args"][0]), a["args"][0]
    return None


def _notin_of_fact(f):
    """(container, element, element-node) if guard fact f proves `element not in container` at its test"""
    if f[0] != "G":
        return None
    node = KEYNODE.get(f[1])
    if node is None:
        return None
    if isinstance(node, tuple):
        e, p = node[1], node[2]
        r = _count_zero(e, f[2] == p)
        if r:
            return r
        return None
    if not is_node(node):
        return None
    k = node["k"]
    if k == "Call" and node.get("short") == "count" and is_node(node.get("recv")) and node.get("args") and not f[2]:
        return show(node["recv"]), show(node["args"][0]), node["args"][0]
    if k == "Call" and (node.get("short") or "").lower() == "contains" and not f[2]:
        a = node.get("args", [])
        if len(a) == 2 and node.get("recv") is None:
            return show(a[0]), show(a[1]), a[1]
        if len(a) == 1 and is_node(node.get("recv")):
            return show(node["recv"]), show(a[0]), a[0]
    if k == "Member" and node.get("name") == "second" and f[2]:
        b = node.get("base")
        if is_node(b) and b["k"] == "Call" and b.get("short") in ("insert", "emplace") and is_node(b.get("recv")) and b.get("args"):
            return show(b["recv"]), show(b["args"][-1]), b["args"][-1]
    if k == "OpCall" and node.get("op") in ("==", "!=") and len(node.get("args", [])) == 2:
        a, b = node["args"]
        for x, y in ((a, b), (b, a)):
            if is_node(x) and x["k"] == "Call" and x.get("short") == "find" and is_node(y) and y["k"] == "Call" \
                    and y.get("short") in ("end", "cend") and is_node(x.get("recv")) and x.get("args"):
                if (node["op"] == "==") == f[2]:
                    return show(x["recv"]), show(x["args"][0]), x["args"][0]
    return None


def history_facts(new_facts):
    """('H', container, element, deps-of-element): `element` was tested and found absent from `container` on this
    path.  A historical event: later insertions do not invalidate it, only re-assignment of the element's variables."""
    out = set()
    for f in new_facts:
        r = _notin_of_fact(f)
        if r:
            out.add(("H", r[0], r[1], deps_of(r[2])))
    return out


def notin_guards(st):
    """(container, element) pairs tested absent on every path to here"""
    if st is BOT:
        return set()
    return set((f[1], f[2]) for f in st if f[0] == "H")


def in_facts(st):
    if st is BOT:
        return set()
    return set((f[1], f[2]) for f in st if f[0] == "I")


class Collect(Flow):
    """records the state at every node for which want(node) holds"""

    def __init__(self, F, fn, want, mode=None, mode_vars=True):
        super().__init__(F, fn, mode)
        self.want = want
        self.at = []  # (node, state) in visiting order, final pass only
        self.loops_at = {}
        self.loop_keys_at = {}
        self.modevars = {}  # local var id -> mode for which the var is non-null/true

    def on_decl(self, v, st):
        i = v.get("init")
        if is_node(i):
            m = mode_test(i)
            if m:
                self.modevars[v["id"]] = m
        return st

    def const_cond(self, e):
        r = super().const_cond(e)
        if r is not None:
            return r
        if self.mode is not None and is_node(e) and e["k"] == "Ref" and e.get("id") in self.modevars:
            return self.modevars[e["id"]] == self.mode
        return None

    def is_mode_cond(self, e):
        if mode_test(e) is not None:
            return True
        return is_node(e) and e["k"] == "Ref" and e.get("id") in self.modevars

    def on_node(self, n, st):
        st = set_facts(n, st)
        if not self.muted and self.want(n):
            self.at.append((n, st))
            self.loops_at[id(n)] = tuple(self.loop_stack)
            self.loop_keys_at[id(n)] = tuple(k_ for k_ in self.loop_cond_keys if k_)
        return st

    def by_node(self):
        """node -> list of states (one per trace partition that reaches it)"""
        out = {}
        for n, st in self.at:
            out.setdefault(id(n), (n, []))[1].append(st)
        return list(out.values())
