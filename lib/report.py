"""Verdict protocol, known findings, evidence and replay files (DESIGN §3.4, §11)."""
import hashlib
import json
import os
import sys
import time

VERIF = os.path.dirname(os.path.dirname(os.path.abspath(__file__)))
EVID = os.path.join(VERIF, "evidence")
KNOWN = os.path.join(VERIF, "known_findings.json")


class Broken(Exception):
    pass


class Check:
    def __init__(self, pid, tier, level, seed=0):
        self.pid = pid
        self.tier = tier
        self.level = level
        self.seed = seed
        self.t0 = time.time()
        self.viol = []  # dicts
        self.notes = []
        self.rules = {}  # rule -> {"text":..., "instances":n, "holding":n, "samples":[...]}
        self.assumptions = []
        self.extra = {}
        self.broken = []
        self.only_key = None  # --replay restricts reporting to one key

    # ---- rule bookkeeping
    def rule(self, rid, text):
        self.rules.setdefault(rid, {"text": text, "instances": 0, "holding": 0, "nontrivial": 0, "samples": []})
        return rid

    def instance(self, rid, ok=True, sample=None, nontrivial=True):
        r = self.rules[rid]
        r["instances"] += 1
        if ok:
            r["holding"] += 1
        if nontrivial:
            r["nontrivial"] += 1
        if sample is not None and len(r["samples"]) < 6:
            r["samples"].append(sample)

    def share(self, F, module, rule_ids, as_rule, why):
        """run another property's rule module on the same facts and adopt the named rules as one rule of this check: the
        clause this property states rests on them (e.g. "every reference designates the same block after a sort" rests on
        every reference being enumerated).  Instances and violations are re-keyed under this property."""
        import importlib
        import flow as _flow, versions as _versions
        mod = importlib.import_module(module)
        # one evaluation per (facts, module): several properties adopt rules of the same module, directly and through each other
        memo = getattr(F, "_shared_runs", None)
        if memo is None:
            memo = F._shared_runs = {}
        sub = memo.get(module)
        if sub is None:
            sub = Check(module.upper(), "quick", self.level)
            saved_k, saved_v = dict(_flow.KEYNODE), dict(_versions.VERSION_LOCALS)
            try:
                mod.run(F, sub)
            finally:
                _flow.KEYNODE.clear(); _flow.KEYNODE.update(saved_k)
                _versions.VERSION_LOCALS.clear(); _versions.VERSION_LOCALS.update(saved_v)
            memo[module] = sub
        rid = self.rule(as_rule, "%s (rules %s of %s, evaluated on the same facts)" % (why, ", ".join(rule_ids), module.upper()))
        n = 0
        for r in rule_ids:
            info = sub.rules.get(r)
            if info:
                n += info["instances"]
                self.rules[rid]["instances"] += info["instances"]
                self.rules[rid]["holding"] += info["holding"]
                self.rules[rid]["nontrivial"] += info.get("nontrivial", 0)
        known = set()
        if os.path.exists(KNOWN):
            known = {k["key"] for k in json.load(open(KNOWN)).get("findings", []) if k.get("status") == "known"}
        for v in sub.viol:
            if v["rule"] in rule_ids and v["key"] not in known:
                self.violation(as_rule, "%s/%s:%s" % (self.pid, as_rule, v["key"]), v["where"], v["msg"], v.get("detail"))
        if sub.broken:
            self.broken.append("shared rules of %s could not be evaluated: %s" % (module.upper(), sub.broken[:2]))
        return n

    def floor(self, rid, floor, what=""):
        """fail as analysis-broken when a rule matches fewer instances than were confirmed by hand"""
        n = self.rules[rid]["instances"]
        self.rules[rid]["floor"] = floor
        if n < floor:
            self.broken.append("rule %s matched %d instances, floor %d %s" % (rid, n, floor, what))

    def require(self, cond, msg):
        if not cond:
            self.broken.append(msg)

    def violation(self, rule, key, where, msg, detail=None):
        """key: symbolic instance key (class + member path / caller->callee), never positional"""
        self.viol.append({"property": self.pid, "rule": rule, "key": key, "where": where, "msg": msg,
                          "detail": detail or {}})

    def note(self, msg):
        self.notes.append(msg)

    # ---- finish
    def finish(self, F=None):
        known = []
        if os.path.exists(KNOWN):
            known = json.load(open(KNOWN)).get("findings", [])
        known_keys = {(k["property"], k["key"]): k for k in known if k.get("status") == "known"}
        os.makedirs(os.path.join(EVID, "replay"), exist_ok=True)
        if self.only_key is None:
            for f in os.listdir(os.path.join(EVID, "replay")):
                if f.startswith(self.pid + "-"):
                    os.unlink(os.path.join(EVID, "replay", f))
        new, listed = [], []
        seen = set()
        for v in self.viol:
            ident = (v["property"], v["key"])
            if ident in seen:
                continue
            seen.add(ident)
            if self.only_key is not None and v["key"] != self.only_key:
                continue
            if ident in known_keys:
                listed.append(v)
            else:
                new.append(v)
        code = 0
        for v in listed:
            print("KNOWN-FINDING: property=%s %s [%s] %s — %s" % (self.pid, v["key"], v["rule"], v["where"], v["msg"]))
        for v in new:
            h = hashlib.sha256(v["key"].encode()).hexdigest()[:12]
            path = os.path.join(EVID, "replay", "%s-%s.json" % (self.pid, h))
            with open(path, "w") as fh:
                json.dump(v, fh, indent=1)
            print("VIOLATION property=%s replay=%s" % (self.pid, path))
            print("  rule %s  key %s\n  at %s\n  %s" % (v["rule"], v["key"], v["where"], v["msg"]))
            code = 1
        if self.broken:
            for b in self.broken:
                print("ANALYSIS-BROKEN property=%s %s" % (self.pid, b))
            code = 2
        self._write_evidence(F, new, listed, code)
        tot = sum(r["instances"] for r in self.rules.values())
        hold = sum(r["holding"] for r in self.rules.values())
        print("%s %s: %d rule instances, %d holding, %d violation(s), %d known finding(s), %.1fs -> exit %d" % (
            self.pid, self.tier, tot, hold, len(new), len(listed), time.time() - self.t0, code))
        return code

    def _write_evidence(self, F, new, listed, code):
        tot = sum(r["instances"] for r in self.rules.values())
        hold = sum(r["holding"] for r in self.rules.values())
        nontriv = sum(r["nontrivial"] for r in self.rules.values())
        samples = []
        for rid, r in self.rules.items():
            for s in r["samples"][:3]:
                samples.append({"rule": rid, "instance": s})
        cov = {
            "evaluations": tot,
            "distinct_nontrivial": nontriv,
            "rule": "each evaluation is one rule instance (a program construct: class x member path, call site, "
                    "statement) enumerated from the facts clang extracted from /repo's current sources; "
                    "non-trivial = the instance exercises the rule's guard (see per-rule counts)",
            "samples": samples or [{"note": "no instances"}],
            "rules": {rid: {k: v for k, v in r.items() if k != "samples"} for rid, r in self.rules.items()},
            "exhaustive": True,
            "notes": self.notes[:60],
            "known_findings_reported": [v["key"] for v in listed],
            "violations_reported": [v["key"] for v in new],
            "exit_code": code,
        }
        if F is not None:
            cov["analysed"] = {"units": sorted(F.units), "functions": len(F.fns), "records": len(F.recs),
                               "enums": len(F.enums), "root": F.root, "unit_notes": F.data.get("unit_notes", [])}
        cov.update(self.extra)
        if self.level == "proof":
            cov.setdefault("obligations", tot)
            cov.setdefault("discharged", hold + 0)
            cov.setdefault("checker_cmd", "./check %s --tier %s" % (self.pid, self.tier))
            cov.setdefault("trusted_base", ["clang 14 front end (parsing, name/overload resolution, record layout)",
                                            "tools/nifly-ast extractor", "lib/paths.py path canonicaliser",
                                            "C++ value semantics of std containers"])
        if self.level == "translation_validation":
            cov.setdefault("programs", max(tot, 1))
            cov.setdefault("disagreements_checked", len(new) + len(listed))
        cov.setdefault("explanation", self.extra.get("explanation", "static rules over the resolved program; see rules"))
        ev = {
            "property_id": self.pid,
            "tier": self.tier,
            "seed": self.seed,
            "level": self.level,
            "coverage": cov,
            "assumptions": self.assumptions,
            "wall_s": round(time.time() - self.t0, 3),
            "violations": len(new),
        }
        os.makedirs(EVID, exist_ok=True)
        tmp = os.path.join(EVID, ".%s.json.tmp" % self.pid)
        with open(tmp, "w") as fh:
            json.dump(ev, fh, indent=1, default=str)
        os.replace(tmp, os.path.join(EVID, "%s.json" % self.pid))
