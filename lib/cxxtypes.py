"""Tiny parser for clang-printed canonical type strings (enough for ownership / layout censuses)."""
import re


class T:
    __slots__ = ("name", "args", "ptr", "ref", "const", "array", "func")

    def __init__(self, name, args=None):
        self.name = name
        self.args = args or []
        self.ptr = 0
        self.ref = False
        self.const = False
        self.array = None
        self.func = False

    def __repr__(self):
        s = self.name
        if self.args:
            s += "<" + ", ".join(map(repr, self.args)) + ">"
        s += "*" * self.ptr
        if self.ref:
            s += "&"
        if self.array is not None:
            s += "[%s]" % self.array
        return s

    def walk(self):
        yield self
        for a in self.args:
            if isinstance(a, T):
                yield from a.walk()


TOKEN = re.compile(r"\s*(::|[A-Za-z_~][A-Za-z_0-9]*|\d+[uUlL]*|<|>|,|\*|&&|&|\(|\)|\[|\]|-|\.\.\.|'[^']*')")


def parse(s):
    toks = TOKEN.findall(s)
    pos = [0]

    def peek():
        return toks[pos[0]] if pos[0] < len(toks) else None

    def take():
        t = toks[pos[0]]
        pos[0] += 1
        return t

    def parse_type():
        const = False
        name_parts = []
        args = None
        # leading qualifiers / multi-word builtin names
        words = []
        while peek() is not None:
            t = peek()
            if t in ("const", "volatile"):
                take()
                const = const or t == "const"
            elif t in ("unsigned", "signed", "long", "short", "int", "char", "bool", "float", "double", "void",
                       "struct", "class", "enum", "typename"):
                take()
                if t not in ("struct", "class", "enum", "typename"):
                    words.append(t)
            else:
                break
        if words:
            node = T(" ".join(words))
        else:
            # qualified name with optional template args per component
            name = ""
            if peek() == "::":
                take()
            last_args = None
            while peek() is not None and re.match(r"[A-Za-z_~(']", peek()) and peek() not in ("const",):
                if peek() == "(":
                    # (anonymous namespace) / (lambda at ...)
                    depth = 0
                    buf = ""
                    while peek() is not None:
                        t = take()
                        buf += t
                        if t == "(":
                            depth += 1
                        elif t == ")":
                            depth -= 1
                            if depth == 0:
                                break
                    name += buf
                else:
                    name += take()
                last_args = None
                if peek() == "<":
                    take()
                    last_args = []
                    while peek() not in (">", None):
                        last_args.append(parse_arg())
                        if peek() == ",":
                            take()
                    if peek() == ">":
                        take()
                if peek() == "::":
                    take()
                    if last_args is not None:
                        name += "<…>"
                    name += "::"
                    continue
                break
            node = T(name or "?", last_args)
        # trailing qualifiers
        while peek() is not None:
            t = peek()
            if t == "const":
                take()
                const = True
            elif t == "*":
                take()
                node.ptr += 1
            elif t in ("&", "&&"):
                take()
                node.ref = True
            elif t == "[":
                take()
                n = take() if peek() != "]" else ""
                if peek() == "]":
                    take()
                node.array = n
            elif t == "(":
                # function type: R (Args) — treat as opaque function
                depth = 0
                while peek() is not None:
                    x = take()
                    if x == "(":
                        depth += 1
                    elif x == ")":
                        depth -= 1
                        if depth == 0:
                            break
                node.func = True
            else:
                break
        node.const = const
        return node

    def parse_arg():
        t = peek()
        if t is not None and (re.match(r"\d", t) or t == "-"):
            v = take()
            if v == "-":
                v += take()
            return v
        return parse_type()

    try:
        return parse_type()
    except Exception:
        return T(s)
