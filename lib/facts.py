"""Extract (via bin/nifly-ast) and load per-unit facts; class hierarchy; CHA call graph.

Stdlib only.  All verdict code reads these facts; nothing here reads source text except to
hash it for the cache key and to show excerpts in reports.
"""
import glob
import hashlib
import json
import os
import pickle
import re
import subprocess
import sys
import time
from concurrent.futures import ThreadPoolExecutor

VERIF = os.path.dirname(os.path.dirname(os.path.abspath(__file__)))
BIN = os.path.join(VERIF, "bin", "nifly-ast")
CACHE = os.path.join(VERIF, ".cache")
GUARD = "OUSNIUS_NIFLY_VERIF"


class AnalysisBroken(Exception):
    """exit 2: a unit failed to parse, an anchor vanished, a floor was missed."""


def _sha_tree(root, overlays=None):
    h = hashlib.sha256()
    files = sorted(glob.glob(os.path.join(root, "src", "*")) + glob.glob(os.path.join(root, "include", "*")) +
                   glob.glob(os.path.join(root, "external", "*")))
    for f in files:
        if not os.path.isfile(f):
            continue
        h.update(f[len(root):].encode())
        src = f
        if overlays and f in overlays:
            src = overlays[f]
        with open(src, "rb") as fh:
            h.update(fh.read())
    with open(BIN, "rb") as fh:
        h.update(hashlib.sha256(fh.read()).digest())
    return h.hexdigest()[:24]


def unit_list(root):
    """units = sources named by src/CMakeLists.txt  UNION  glob(src/*.cpp); mismatches are reported."""
    cm = os.path.join(root, "src", "CMakeLists.txt")
    listed = set()
    if os.path.exists(cm):
        txt = open(cm).read()
        m = re.search(r"set\(sources(.*?)\)", txt, re.S)
        if m:
            for tok in m.group(1).split():
                if tok.endswith(".cpp"):
                    listed.add(os.path.join(root, "src", tok))
    globbed = set(glob.glob(os.path.join(root, "src", "*.cpp")))
    notes = []
    for f in sorted(listed - globbed):
        notes.append("listed in CMakeLists but missing on disk: " + f)
    for f in sorted(globbed - listed):
        notes.append("on disk but not listed in CMakeLists (analysed anyway): " + f)
    units = sorted(u for u in (listed | globbed) if os.path.exists(u))
    return units, notes


def _extract_unit(root, unit, outdir, overlays):
    out = os.path.join(outdir, os.path.basename(unit) + ".json")
    cmd = [BIN, "--root=" + root, "--out=" + out]
    for orig, repl in (overlays or {}).items():
        cmd.append("--overlay=%s=%s" % (orig, repl))
    cmd += [unit, "--", "-std=gnu++17", "-I" + os.path.join(root, "include"), "-isystem",
            os.path.join(root, "external"), "-UNDEBUG", "-D" + GUARD, "-w"]
    p = subprocess.run(cmd, stdout=subprocess.PIPE, stderr=subprocess.PIPE, text=True)
    if p.returncode != 0 or not os.path.exists(out):
        raise AnalysisBroken("extractor failed on %s:\n%s" % (unit, p.stderr[-3000:]))
    return out


def _file_bytes(path, overlays):
    src = overlays.get(path, path) if overlays else path
    with open(src, "rb") as fh:
        return fh.read()


def _unit_key(root, unit, overlays, hdr_digest, bin_digest):
    h = hashlib.sha256()
    h.update(root.encode())
    h.update(unit[len(root):].encode())
    h.update(_file_bytes(unit, overlays))
    h.update(hdr_digest)
    h.update(bin_digest)
    return h.hexdigest()[:24]


def extract(root="/repo", overlays=None, jobs=16):
    """Returns path of the merged pickle for the *current* contents of root (+overlays).
    Two cache levels: per translation unit (keyed by the unit's text, every header's text and the extractor binary) and
    per tree (the merged facts)."""
    root = root.rstrip("/")
    if not os.path.exists(BIN):
        raise AnalysisBroken("extractor binary missing: run `make -C /verif/tools` (MANIFEST.setup_cmd)")
    key = _sha_tree(root, overlays)
    cdir = os.path.join(CACHE, key)
    merged = os.path.join(cdir, "facts.pkl")
    if os.path.exists(merged):
        try:
            os.utime(cdir)
        except OSError:
            pass
        return merged
    os.makedirs(cdir, exist_ok=True)
    # one extraction at a time per tree (checks started in parallel wait for the first one and then hit the cache)
    import fcntl
    lock = open(os.path.join(cdir, ".lock"), "w")
    fcntl.flock(lock, fcntl.LOCK_EX)
    if os.path.exists(merged):
        lock.close()
        return merged
    units, notes = unit_list(root)
    if not units:
        raise AnalysisBroken("no translation units found under " + root)
    with open(BIN, "rb") as fh:
        bin_digest = hashlib.sha256(fh.read()).digest()
    hh = hashlib.sha256()
    for f in sorted(glob.glob(os.path.join(root, "include", "*")) + glob.glob(os.path.join(root, "external", "*"))):
        if os.path.isfile(f):
            hh.update(f[len(root):].encode())
            hh.update(_file_bytes(f, overlays))
    hdr_digest = hh.digest()
    udir = os.path.join(CACHE, "units")
    os.makedirs(udir, exist_ok=True)
    t0 = time.time()

    def one(u):
        uk = _unit_key(root, u, overlays, hdr_digest, bin_digest)
        out = os.path.join(udir, uk + ".json")
        if os.path.exists(out):
            try:
                os.utime(out)
            except OSError:
                pass
            return out
        tmpd = os.path.join(cdir, "tmp%d" % os.getpid())
        os.makedirs(tmpd, exist_ok=True)
        o = _extract_unit(root, u, tmpd, overlays)
        os.replace(o, out)
        return out

    with ThreadPoolExecutor(max_workers=jobs) as ex:
        outs = list(ex.map(one, units))
    data = _merge(outs, units, notes)
    data["extract_s"] = time.time() - t0
    data["root"] = root
    tmp = merged + ".tmp%d" % os.getpid()
    with open(tmp, "wb") as fh:
        pickle.dump(data, fh, protocol=pickle.HIGHEST_PROTOCOL)
    os.replace(tmp, merged)
    tmpd = os.path.join(cdir, "tmp%d" % os.getpid())
    if os.path.isdir(tmpd):
        try:
            os.rmdir(tmpd)
        except OSError:
            pass
    lock.close()
    _prune_cache(keep=key)
    return merged


def _prune_cache(keep, maxn=12, max_units=800):
    try:
        now = time.time()
        ents = [(os.path.getmtime(os.path.join(CACHE, d)), d) for d in os.listdir(CACHE) if d not in (keep, "units")]
        ents.sort(reverse=True)
        # entries touched in the last 15 minutes may be in use by a check running in parallel: never prune those
        for mt, d in ents[maxn:]:
            if now - mt < 900:
                continue
            p = os.path.join(CACHE, d)
            for f in os.listdir(p):
                fp = os.path.join(p, f)
                if os.path.isdir(fp):
                    continue
                os.unlink(fp)
            try:
                os.rmdir(p)
            except OSError:
                pass
        udir = os.path.join(CACHE, "units")
        if os.path.isdir(udir):
            us = sorted(((os.path.getmtime(os.path.join(udir, f)), f) for f in os.listdir(udir)), reverse=True)
            for mt, f in us[max_units:]:
                if now - mt < 900:
                    continue
                os.unlink(os.path.join(udir, f))
    except OSError:
        pass


def _merge(outs, units, notes):
    fns, recs, enums, globs = {}, {}, {}, {}
    per_unit = {}
    for out, unit in zip(outs, units):
        with open(out) as fh:
            d = json.load(fh)
        nf = 0
        for f in d["functions"]:
            if f["id"] not in fns:
                f["unit"] = os.path.basename(unit)
                fns[f["id"]] = f
                nf += 1
        for r in d["records"]:
            k = r["name"]
            if k not in recs or (r.get("tmpl") != "pattern" and recs[k].get("tmpl") == "pattern"):
                recs[k] = r
        for e in d["enums"]:
            enums.setdefault(e["name"], e)
        for g in d["globals"]:
            globs.setdefault(g["name"] + "@" + g["file"] + ":" + g["loc"], g)
        per_unit[os.path.basename(unit)] = {"functions": len(d["functions"]), "new_functions": nf,
                                             "records": len(d["records"])}
    return {"functions": fns, "records": recs, "enums": enums, "globals": globs, "units": per_unit,
            "unit_notes": notes}


# --------------------------------------------------------------------------------------------
# tree helpers

def is_node(x):
    return isinstance(x, dict) and "k" in x


def children(n):
    """direct child nodes (expressions and statements) of a node, in source order-ish"""
    for key, v in n.items():
        if key in ("ovl",):
            continue
        if isinstance(v, dict):
            if "k" in v:
                yield v
            elif key == "var" and isinstance(v.get("init"), dict):
                yield v["init"]
        elif isinstance(v, list):
            for it in v:
                if isinstance(it, dict):
                    if "k" in it:
                        yield it
                    elif "init" in it and isinstance(it["init"], dict):  # Decl vars
                        yield it["init"]
                    elif "e" in it and isinstance(it["e"], dict):  # ctor inits
                        yield it["e"]


def walk(n):
    """pre-order over all nodes"""
    if not is_node(n):
        return
    stack = [n]
    while stack:
        x = stack.pop()
        yield x
        ch = list(children(x))
        stack.extend(reversed(ch))


def strip_casts(e):
    while is_node(e) and e["k"] == "Cast" and e.get("ck") in ("static", "cstyle", "functional", "const",
                                                                "reinterpret") and e.get("cast") in (
            "NoOp", "IntegralCast", "LValueToRValue", "IntegralToBoolean", "ConstructorConversion"):
        e = e["e"]
    return e


SHOW_ALIAS = None  # optional {decl id: canonical rendering} applied to local/param references (set by schema summaries)


def show(e, depth=0):
    """canonical, human-readable rendering of an expression (used as keys and in reports)"""
    if e is None:
        return "<null>"
    if not isinstance(e, dict):
        return str(e)
    k = e.get("k")
    if depth > 40:
        return "…"
    d = depth + 1
    if k == "Lit":
        lk = e.get("lk")
        if lk in ("int", "bool", "char", "zero"):
            return str(e.get("val"))
        if lk == "float":
            return repr(e.get("fval"))
        if lk == "str":
            return json.dumps(e.get("sval", ""))
        return "nullptr"
    if k == "This":
        return "this"
    if k == "Ref":
        if SHOW_ALIAS and e.get("id") in SHOW_ALIAS and e.get("rk") in ("local", "param"):
            return SHOW_ALIAS[e["id"]]
        return e.get("qn") if e.get("rk") in ("enumconst",) else e["name"]
    if k == "Member":
        b = e.get("base")
        if b is None or (is_node(b) and b["k"] == "This"):
            return e["name"]
        return show(b, d) + "." + e["name"]
    if k == "DepMember":
        b = e.get("base")
        if b is None or (is_node(b) and b["k"] == "This"):
            return e["name"]
        return show(b, d) + "." + e["name"]
    if k == "Unresolved":
        return e["name"]
    if k == "Call":
        args = ", ".join(show(a, d) for a in e.get("args", []))
        name = e.get("short") or (show(e.get("callee"), d) if e.get("callee") else "?")
        if e.get("targs") and e.get("cls") != "nifly::NiStreamReversible":
            name += "<%s>" % ",".join(str(x) for x in e["targs"])
        r = e.get("recv")
        if r is not None and not (is_node(r) and r["k"] == "This"):
            return "%s.%s(%s)" % (show(r, d), name, args)
        return "%s(%s)" % (name, args)
    if k == "OpCall":
        a = e.get("args", [])
        op = e.get("op")
        if op == "()" and a:
            return "%s(%s)" % (show(a[0], d), ", ".join(show(x, d) for x in a[1:]))
        if op in ("*", "->") and len(a) == 1:
            return show(a[0], d) if op == "->" else "*" + show(a[0], d)
        if len(a) == 2:
            return "(%s %s %s)" % (show(a[0], d), op, show(a[1], d))
        if len(a) == 1:
            return "%s%s" % (op, show(a[0], d))
        return "op%s(%s)" % (op, ", ".join(show(x, d) for x in a))
    if k == "Unary":
        if e.get("post"):
            return show(e["e"], d) + e["op"]
        return e["op"] + show(e["e"], d)
    if k in ("Binary", "Assign"):
        return "(%s %s %s)" % (show(e["l"], d), e["op"], show(e["r"], d))
    if k == "Cond":
        return "(%s ? %s : %s)" % (show(e["c"], d), show(e["a"], d), show(e["b"], d))
    if k == "Subscript":
        return "%s[%s]" % (show(e["base"], d), show(e["idx"], d))
    if k == "Cast":
        if e.get("ck") == "dynamic":
            return "dynamic_cast<%s>(%s)" % (e["t"], show(e["e"], d))
        if e.get("cast") in ("BaseToDerived",):
            return "downcast<%s>(%s)" % (e["t"], show(e["e"], d))
        return show(e["e"], d)
    if k == "Sizeof":
        return "sizeof(%s)" % e.get("arg")
    if k == "Construct":
        return "%s(%s)" % (e["t"], ", ".join(show(a, d) for a in e.get("args", [])))
    if k == "New":
        return "new %s" % e.get("alloc")
    if k == "Delete":
        return "delete " + show(e.get("e"), d)
    if k == "Lambda":
        return "lambda"
    if k == "InitList":
        return "{%s}" % ", ".join(show(a, d) for a in e.get("inits", []))
    if k == "Throw":
        return "throw"
    if k == "Other":
        return "%s(%s)" % (e.get("cls"), ", ".join(show(a, d) for a in e.get("kids", [])))
    return k or "?"


def where(fn, node=None):
    loc = (node or {}).get("loc") or fn.get("loc", "")
    return "%s:%s" % (fn.get("file", "?"), loc.split(":")[0] if loc else "?")


# --------------------------------------------------------------------------------------------

class Facts:
    def __init__(self, data):
        self.data = data
        self.root = data["root"]
        self.fns = data["functions"]
        self.recs = data["records"]
        self.enums = data["enums"]
        self.globals = data["globals"]
        self.units = data["units"]
        self._derived = None
        self._by_name = None
        self._anc = {}
        self._callees = {}
        self._callers = None
        self._overriders = None

    # ---- loading
    @staticmethod
    def load(root="/repo", overlays=None):
        # a cache entry can vanish between its discovery and its use when several checks run in parallel: extract again
        last = None
        for _attempt in range(3):
            try:
                path = extract(root, overlays)
                with open(path, "rb") as fh:
                    return Facts(pickle.load(fh))
            except (FileNotFoundError, EOFError, pickle.UnpicklingError, json.JSONDecodeError) as e:
                last = e
                time.sleep(0.5)
        raise AnalysisBroken("facts could not be loaded after three attempts: %r" % (last,))

    # ---- records
    def rec(self, name):
        return self.recs.get(name)

    def bases(self, name):
        r = self.recs.get(name)
        if not r:
            return []
        return [b.get("name") for b in r.get("bases", []) if b.get("name")]

    def ancestors(self, name):
        """all transitive bases (record names), nearest first; includes template instantiations"""
        if name in self._anc:
            return self._anc[name]
        out, seen = [], set()
        work = list(self.bases(name))
        while work:
            b = work.pop(0)
            if b in seen:
                continue
            seen.add(b)
            out.append(b)
            work.extend(self.bases(b))
        self._anc[name] = out
        return out

    def derives_from(self, name, base):
        return name == base or base in self.ancestors(name)

    def derived_map(self):
        if self._derived is None:
            d = {}
            for n in self.recs:
                for b in self.bases(n):
                    d.setdefault(b, []).append(n)
            self._derived = d
        return self._derived

    def descendants(self, name):
        out, work, seen = [], [name], set()
        dm = self.derived_map()
        while work:
            x = work.pop()
            for c in dm.get(x, []):
                if c not in seen:
                    seen.add(c)
                    out.append(c)
                    work.append(c)
        return out

    def concrete_classes(self, base="nifly::NiObject"):
        return sorted(n for n, r in self.recs.items()
                      if r.get("tmpl") is None and self.derives_from(n, base) and not r.get("abstract"))

    def block_classes(self, base="nifly::NiObject"):
        """non-template classes deriving from NiObject (incl. NiObject)"""
        return sorted(n for n, r in self.recs.items() if r.get("tmpl") is None and self.derives_from(n, base))

    def fields(self, name, inherited=False):
        r = self.recs.get(name)
        if not r:
            return []
        out = [(name, f) for f in r.get("fields", [])]
        if inherited:
            for b in self.ancestors(name):
                rb = self.recs.get(b)
                if rb:
                    out += [(b, f) for f in rb.get("fields", [])]
        return out

    def find_field(self, cls, fname):
        for owner, f in self.fields(cls, inherited=True):
            if f["name"] == fname:
                return owner, f
        return None, None

    # ---- functions
    def by_name(self):
        if self._by_name is None:
            d = {}
            for f in self.fns.values():
                d.setdefault(f["name"], []).append(f)
            self._by_name = d
        return self._by_name

    def fn_named(self, qname, required=True):
        """all definitions with this qualified name (overloads, instantiations excluded unless spelled)"""
        r = self.by_name().get(qname, [])
        if required and not r:
            raise AnalysisBroken("anchor function vanished: " + qname)
        return r

    def fn1(self, qname, pred=None):
        r = [f for f in self.fn_named(qname) if pred is None or pred(f)]
        if len(r) != 1:
            raise AnalysisBroken("anchor %s: expected exactly one definition, found %d" % (qname, len(r)))
        return r[0]

    def expander(self, fn):
        """-> (render, names): render(e) = show(e) with every local that is defined once and never reassigned replaced by its
        initialiser (`const size_t n = order.size();` ... `n` renders as `order.size()`); names = {local name: rendering}"""
        body = fn.get("body") or {}
        assigned = set()
        for n in walk(body):
            t = n["l"] if n["k"] == "Assign" else (n["e"] if n["k"] == "Unary" and n["op"] in ("++", "--") else None)
            if is_node(t) and t["k"] == "Ref":
                assigned.add(t.get("id"))
            for i_ in (n.get("refargs") or []) if n["k"] in ("Call", "OpCall", "Construct") else []:
                a = (n.get("args") or [None] * (i_ + 1))[i_] if i_ < len(n.get("args") or []) else None
                if is_node(a) and a["k"] == "Ref":
                    assigned.add(a.get("id"))
        defs = {}
        for n in walk(body):
            if n["k"] == "Decl":
                for v in n.get("vars", []):
                    t = (v.get("ct") or v.get("t") or "").rstrip()
                    if is_node(v.get("init")) and v["id"] not in assigned and v["init"]["k"] not in ("Lambda", "InitList", "Construct"):
                        defs[v["id"]] = v["init"]

        def subst(e, depth=0):
            if isinstance(e, list):
                return [subst(x, depth) for x in e]
            if not isinstance(e, dict):
                return e
            if e.get("k") == "Ref" and e.get("id") in defs and depth < 6 and not (SHOW_ALIAS and e.get("id") in SHOW_ALIAS):
                # (a local that already has a canonical rendering — an alias of a member path — keeps it)
                i0 = defs[e["id"]]
                while is_node(i0) and i0["k"] == "Cast":
                    i0 = i0["e"]
                return subst(i0, depth + 1)
            return {k: subst(v, depth) for k, v in e.items()}

        def render(e):
            return show(subst(e)) if is_node(e) else str(e)

        names = {}
        for n in walk(body):
            if n["k"] == "Decl":
                for v in n.get("vars", []):
                    if v["id"] in defs:
                        names[v["name"]] = render(defs[v["id"]])
        return render, names

    def inl(self, fn):
        """inline view of fn (private helpers, local lambdas and std::for_each expanded; lib/inline.py)"""
        import inline
        if getattr(self, "_inliner", None) is None:
            self._inliner = inline.Inliner(self)
        return self._inliner.view(fn)

    def method(self, cls, short, inherited=True):
        """definitions of cls::short, or of the nearest base that defines it"""
        for c in [cls] + (self.ancestors(cls) if inherited else []):
            r = self.by_name().get(c + "::" + short, [])
            if r:
                return r
        return []

    def overriders(self):
        """fid of virtual method -> list of fids overriding it directly or transitively (defined or not)"""
        if self._overriders is None:
            direct = {}
            for r in self.recs.values():
                for m in r.get("methods", []):
                    for o in m.get("overrides", []):
                        direct.setdefault(o, set()).add(m["id"])
            memo = {}

            def trans(fid, depth=0):
                if fid in memo:
                    return memo[fid]
                memo[fid] = set()
                res = set()
                for o in direct.get(fid, ()):
                    res.add(o)
                    res |= trans(o, depth + 1)
                memo[fid] = res
                return res

            self._overriders = {fid: trans(fid) for fid in list(direct)}
        return self._overriders

    def call_targets(self, call):
        """resolved targets (fids with bodies where available) of a Call/OpCall/Construct node (CHA for virtual)"""
        fid = call.get("fid") or call.get("ctor")
        if not fid:
            return []
        out = [fid]
        if call.get("virt") and not self._exact_receiver(call):
            out += sorted(self.overriders().get(fid, ()))
        return out

    def _exact_receiver(self, call):
        """the receiver is a data member held by value: its dynamic type is its static type, no virtual dispatch"""
        r = call.get("recv")
        if not is_node(r) or call.get("arrow"):
            return False
        if r["k"] == "Member" and r.get("mk") == "field":
            owner, fld = r.get("owner"), r.get("name")
            rec = self.recs.get(owner)
            if rec:
                for f in rec.get("fields", []):
                    if f["name"] == fld:
                        t = f.get("ct", "").rstrip()
                        return not (t.endswith("&") or t.endswith("*"))
        return False

    def calls_in(self, fn):
        """list of (node, [target fids]) for every call-like node in fn, including its lambdas' bodies? no: per fn"""
        fid = fn["id"]
        if fid in self._callees:
            return self._callees[fid]
        res = []
        nodes = [fn["body"]] + [i["e"] for i in fn.get("inits", []) if is_node(i.get("e"))]
        for root in nodes:
            for n in walk(root):
                k = n["k"]
                if k in ("Call", "OpCall"):
                    res.append((n, self.call_targets(n)))
                elif k == "Construct":
                    res.append((n, [n["ctor"]]))
                elif k == "Subscript" and n.get("ovl"):
                    res.append((n, [n["ovl"].get("fid")] if n["ovl"].get("fid") else []))
                elif k == "Lambda" and n.get("fid"):
                    res.append((n, [n["fid"]]))  # conservative: creating a lambda "calls" it
                elif k == "Ref" and n.get("rk") == "func" and n.get("fid"):
                    res.append((n, [n["fid"]]))
                elif k == "Member" and n.get("mk") == "method" and n.get("fid"):
                    pass  # callee of a Call: handled there
        self._callees[fid] = res
        return res

    def callee_ids(self, fid):
        fn = self.fns.get(fid)
        if not fn:
            return set()
        s = set()
        for _, ts in self.calls_in(fn):
            s.update(ts)
        return s

    def reachable(self, roots, stop=None):
        """fids reachable from roots through the CHA call graph (only functions with bodies are expanded)"""
        seen = set()
        work = list(roots)
        while work:
            f = work.pop()
            if f in seen:
                continue
            seen.add(f)
            if stop and f in stop:
                continue
            if f in self.fns:
                work.extend(self.callee_ids(f) - seen)
        return seen

    def callers(self):
        if self._callers is None:
            c = {}
            for fid, fn in self.fns.items():
                for node, ts in self.calls_in(fn):
                    for t in ts:
                        c.setdefault(t, []).append((fid, node))
            self._callers = c
        return self._callers

    # ---- does a callee (transitively) remove elements from containers? (used to keep "inserted" facts alive)
    REMOVERS = {"clear", "erase", "pop_back", "resize", "assign", "swap", "pop_front", "remove", "remove_if", "extract"}

    def removing_functions(self):
        """fids whose transitive closure contains a remover call on any std container (coarse, sound for keeping
        insertion facts: a callee outside this set cannot shrink any container)"""
        if getattr(self, "_removing", None) is None:
            direct = set()
            for fid, fn in self.fns.items():
                for n in walk(fn.get("body") or {}):
                    if n["k"] == "Call" and n.get("ext") and n.get("short") in self.REMOVERS:
                        direct.add(fid)
                        break
                    if n["k"] in ("Assign",) and is_node(n.get("l")) and "std::" in ((n["l"].get("ct") or n["l"].get("t")) or "") \
                            and n["l"]["k"] != "Ref":
                        direct.add(fid)  # whole-container assignment to a member/param path
                        break
                    if n["k"] == "OpCall" and n.get("op") == "=" and n.get("args") and is_node(n["args"][0]) and \
                            n["args"][0]["k"] != "Ref" and "std::" in ((n["args"][0].get("ct") or n["args"][0].get("t")) or ""):
                        direct.add(fid)
                        break
            rem = set(direct)
            changed = True
            while changed:
                changed = False
                for fid in self.fns:
                    if fid in rem:
                        continue
                    if self.callee_ids(fid) & rem:
                        rem.add(fid)
                        changed = True
            self._removing = rem
        return self._removing

    def may_remove(self, call, argi):
        ts = self.call_targets(call)
        if not ts:
            return True
        rem = self.removing_functions()
        for t in ts:
            if t not in self.fns:
                if call.get("ext") and (call.get("short") in ("sort", "unique", "remove", "remove_if", "swap", "reverse",
                                                               "rotate", "stable_sort", "erase", "clear")):
                    return True
                if call.get("ext"):
                    continue  # other std functions taking the object by reference do not shrink it
                return True
            if t in rem:
                return True
        return False

    def excerpt(self, fn, node=None, ctx=0):
        try:
            path = os.path.join(self.root, fn["file"])
            line = int(((node or {}).get("loc") or fn["loc"]).split(":")[0])
            lines = open(path, errors="replace").read().split("\n")
            return "\n".join(lines[max(0, line - 1 - ctx):line + ctx])
        except Exception:
            return ""
