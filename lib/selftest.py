"""Thorough-tier self-test of the checker (DESIGN §4.5): semantic mutants of /repo's *current* sources are analysed through
clang virtual-file overlays (nothing is written into /repo; scratch copies live under /verif/.work and are removed) and
each rule module must report the expected instance key.  Results go to the evidence file; they never produce a
VIOLATION and never mask one.  A mutant whose patch no longer applies to the current tree is skipped and counted."""
import hashlib
import importlib
import json
import os
import shutil
import subprocess

import facts
import report

VERIF = os.path.dirname(os.path.dirname(os.path.abspath(__file__)))
INDEX = os.path.join(VERIF, "selftest", "index.json")
WORK = os.path.join(VERIF, ".work", "mut")


def _patched_files(patch_path, root="/repo"):
    """apply the patch to scratch copies of the files it touches; -> {original path: patched copy} or None"""
    txt = open(patch_path).read()
    files = []
    for line in txt.split("\n"):
        if line.startswith("+++ b/"):
            files.append(line[6:].strip())
    if not files:
        return None
    h = hashlib.sha256(txt.encode()).hexdigest()[:12]
    d = os.path.join(WORK, "%s-%d" % (h, os.getpid()))  # per process: checks of several properties may run side by side
    shutil.rmtree(d, ignore_errors=True)
    for f in files:
        src = os.path.join(root, f)
        if not os.path.exists(src):
            shutil.rmtree(d, ignore_errors=True)
            return None
        os.makedirs(os.path.dirname(os.path.join(d, f)), exist_ok=True)
        shutil.copy(src, os.path.join(d, f))
    p = subprocess.run(["patch", "-p1", "-s", "-f", "--no-backup-if-mismatch", "-d", d, "-i", patch_path],
                       stdout=subprocess.PIPE, stderr=subprocess.STDOUT, text=True)
    if p.returncode != 0:
        shutil.rmtree(d, ignore_errors=True)
        return None
    return {os.path.join(root, f): os.path.join(d, f) for f in files}, d


def load_index():
    specs = json.load(open(INDEX)) if os.path.exists(INDEX) else []
    # seeded changes with a recorded detection are mutants too
    sd = os.path.join(VERIF, "seeded")
    if os.path.isdir(sd):
        for sid in sorted(os.listdir(sd)):
            mp, pp = os.path.join(sd, sid, "meta.json"), os.path.join(sd, sid, "patch.diff")
            if os.path.exists(mp) and os.path.exists(pp):
                m = json.load(open(mp))
                exp = {pid: sorted(set(k.rsplit(":", 1)[0] if k.count(":") > 2 else k for k in keys))[:3]
                       for pid, keys in (m.get("detected_by") or {}).items() if keys and keys != ["ANALYSIS-BROKEN"]}
                if exp:
                    specs.append({"name": "seed:" + sid, "patch": os.path.relpath(pp, VERIF), "expect": exp})
    return specs


_KNOWN = None


def _known_keys():
    global _KNOWN
    if _KNOWN is None:
        import json as _json
        try:
            _KNOWN = {k["key"] for k in _json.load(open(os.path.join(VERIF, "known_findings.json")))["findings"] if k.get("status") == "known"}
        except Exception:
            _KNOWN = set()
    return _KNOWN


def run(pid, chk, max_mutants=None):
    specs = [s for s in load_index() if pid in s.get("expect", {}) or pid in s.get("silent", [])]
    if max_mutants:
        specs = specs[:max_mutants]
    mod = importlib.import_module(pid.lower())
    res = {"mutants": len(specs), "applied": 0, "skipped": [], "detected": [], "missed": [], "silent_ok": [], "silent_alarm": []}
    for s in specs:
        r = _patched_files(os.path.join(VERIF, s["patch"]))
        if r is None:
            res["skipped"].append(s["name"])
            continue
        overlays, d = r
        try:
            Fm = facts.Facts.load("/repo", overlays=overlays)
            import flow, versions
            flow.KEYNODE.clear()
            versions.VERSION_LOCALS.clear()
            sub = report.Check(pid, "quick", chk.level)  # mutants are analysed with the named versions
            try:
                mod.run(Fm, sub)
            except Exception as e:  # a mutant may break an anchor: that is a detection of sorts, recorded separately
                sub.broken.append("exception: %r" % (e,))
            # findings that are listed as known on the unchanged tree are not alarms of the variant
            keys = sorted(set(v["key"] for v in sub.viol if v["key"] not in _known_keys()))
            res["applied"] += 1
            if pid in s.get("silent", []):
                (res["silent_ok"] if not keys and not sub.broken else res["silent_alarm"]).append({"mutant": s["name"], "keys": keys[:4]})
            else:
                want = s["expect"][pid]
                hit = [k for k in keys if any(k.startswith(w) for w in want)]
                (res["detected"] if hit else res["missed"]).append({"mutant": s["name"], "expected": want, "reported": keys[:4]})
        finally:
            shutil.rmtree(d, ignore_errors=True)
    chk.extra["selftest"] = res
    if specs and res["applied"] == 0:
        chk.broken.append("self-test: none of the %d mutants for %s applies to the current tree" % (len(specs), pid))
    for m in res["missed"]:
        chk.note("self-test mutant not reported as expected: %s" % m)
    for m in res["silent_alarm"]:
        chk.note("self-test: behaviour-preserving variant raised an alarm: %s" % m)
    return res
