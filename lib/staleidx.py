"""Stale block index after deletion (DESIGN R6.5 / R4.4): a local or parameter that holds a block index must not be
read after a call that deletes blocks (all higher indices shift down) unless it was re-derived, or is being adjusted
against the deleted index in the same expression.  References (NiRef) are maintained by the header and are exempt;
plain integers are not."""
from facts import is_node, walk, show
import flow

HDR = "nifly::NiHeader"
TABLES = {"blocks", "blockTypeIndices", "blockSizes"}


def _is_int(t):
    t = (t or "").replace("const ", "").replace("&", "").strip()
    return t in ("unsigned int", "int", "unsigned long", "long", "unsigned short", "short", "uint32_t", "size_t")


def _peel(e):
    while is_node(e) and e["k"] == "Cast":
        e = e["e"]
    return e


class StaleIndex:
    def __init__(self, F):
        self.F = F
        self.del_prim = set(f["id"] for f in F.fns.values() if f.get("cls") == HDR and f["short"] == "DeleteBlock"
                            and f.get("params") and _is_int(f["params"][0].get("ct") or f["params"][0].get("t")))
        self.deleting = self._deleting_functions()
        self.idparams = self._block_id_params()

    def _deleting_functions(self):
        """functions from which the index-shifting primitive is reachable"""
        F = self.F
        rev = {}
        for fid in F.fns:
            for c in F.callee_ids(fid):
                rev.setdefault(c, set()).add(fid)
        out = set(self.del_prim)
        work = list(out)
        while work:
            x = work.pop()
            for c in rev.get(x, ()):
                if c not in out:
                    out.add(c)
                    work.append(c)
        return out

    def _block_id_params(self):
        """(fid, param index) pairs whose value is used as a block index: subscripts a header table, is compared with a
        NiRef index, or is passed on to such a parameter"""
        F = self.F
        res = set()

        def param_index(fn):
            return {p["id"]: i for i, p in enumerate(fn.get("params", [])) if _is_int(p.get("ct") or p.get("t"))}

        # base cases in NiHeader
        for fn in F.fns.values():
            if fn.get("cls") != HDR or fn.get("tmpl") == "pattern":
                continue
            pi = param_index(fn)
            if not pi:
                continue
            for n in walk(fn.get("body") or {}):
                if n["k"] == "Subscript":
                    i = _peel(n["idx"])
                    if is_node(i) and i["k"] == "Ref" and i.get("id") in pi and _roots_at_table(n["base"]):
                        res.add((fn["id"], pi[i["id"]]))
                elif n["k"] == "Binary" and n["op"] in ("==", "!=", "<", ">", "<=", ">="):
                    for a, b in ((n["l"], n["r"]), (n["r"], n["l"])):
                        a, b = _peel(a), _peel(b)
                        if is_node(a) and a["k"] == "Ref" and a.get("id") in pi and is_node(b) and b["k"] == "Member" and \
                                b.get("name") == "index" and b.get("owner") == "nifly::NiRef":
                            res.add((fn["id"], pi[a["id"]]))
                elif n["k"] == "Binary" and n["op"] == "+":
                    # blocks.begin() + blockId
                    for a, b in ((n["l"], n["r"]), (n["r"], n["l"])):
                        a = _peel(a)
                        if is_node(a) and a["k"] == "Ref" and a.get("id") in pi and is_node(b) and "begin" in show(b) and \
                                any(t in show(b) for t in TABLES):
                            res.add((fn["id"], pi[a["id"]]))
                elif n["k"] == "OpCall" and n.get("op") == "+" and len(n.get("args", [])) == 2:
                    for a, b in ((n["args"][0], n["args"][1]), (n["args"][1], n["args"][0])):
                        a = _peel(a)
                        if is_node(a) and a["k"] == "Ref" and a.get("id") in pi and "begin" in show(b) and \
                                any(t in show(b) for t in TABLES):
                            res.add((fn["id"], pi[a["id"]]))
        # propagate through calls
        changed = True
        while changed:
            changed = False
            for fn in F.fns.values():
                if fn.get("tmpl") == "pattern":
                    continue
                pi = param_index(fn)
                if not pi:
                    continue
                for n, ts in F.calls_in(fn):
                    if n["k"] != "Call":
                        continue
                    for j, a in enumerate(n.get("args", [])):
                        a = _peel(a)
                        if is_node(a) and a["k"] == "Ref" and a.get("id") in pi:
                            if any((t, j) in res for t in ts) and (fn["id"], pi[a["id"]]) not in res:
                                res.add((fn["id"], pi[a["id"]]))
                                changed = True
        return res

    def block_id_vars(self, fn):
        """ids of int locals/params of fn that hold block indices: passed to a block-id parameter, initialised from
        GetBlockID / a NiRef index, or compared / assigned with another such variable"""
        F = self.F
        ints = {}
        for p in fn.get("params", []):
            if _is_int(p.get("ct") or p.get("t")):
                ints[p["id"]] = p["name"]
        for n in walk(fn.get("body") or {}):
            if n["k"] == "Decl":
                for v in n.get("vars", []):
                    if _is_int(v.get("ct") or v.get("t")):
                        ints[v["id"]] = v["name"]
        ids = set()
        for i, p in enumerate(fn.get("params", [])):
            if (fn["id"], i) in self.idparams:
                ids.add(p["id"])
        for n in walk(fn.get("body") or {}):
            if n["k"] == "Call":
                ts = F.call_targets(n)
                for j, a in enumerate(n.get("args", [])):
                    a = _peel(a)
                    if is_node(a) and a["k"] == "Ref" and a.get("id") in ints and any((t, j) in self.idparams for t in ts):
                        ids.add(a["id"])
            if n["k"] == "Decl":
                for v in n.get("vars", []):
                    i = _peel(v.get("init"))
                    if v["id"] in ints and is_node(i):
                        if (i["k"] == "Call" and i.get("short") == "GetBlockID") or \
                                (i["k"] == "Member" and i.get("name") == "index" and i.get("owner") == "nifly::NiRef"):
                            ids.add(v["id"])
        # type-table indices go stale too: deleting the last block of a type erases its name and shifts higher type ids
        for n in walk(fn.get("body") or {}):
            if n["k"] == "Binary" and n["op"] in ("==", "!="):
                for a, b in ((n["l"], n["r"]), (n["r"], n["l"])):
                    a, b = _peel(a), _peel(b)
                    if is_node(a) and a["k"] == "Ref" and a.get("id") in ints and is_node(b) and b["k"] == "Subscript" and \
                            _roots_at(b["base"], ("blockTypeIndices",)):
                        ids.add(a["id"])
            if n["k"] == "Subscript" and _roots_at(n["base"], ("blockTypes",)):
                i = _peel(n["idx"])
                if is_node(i) and i["k"] == "Ref" and i.get("id") in ints:
                    ids.add(i["id"])
        changed = True
        while changed:
            changed = False
            for n in walk(fn.get("body") or {}):
                pair = None
                if n["k"] == "Binary" and n["op"] in ("==", "!=", "<", ">", "<=", ">="):
                    pair = (_peel(n["l"]), _peel(n["r"]))
                elif n["k"] == "Assign" and n["op"] == "=":
                    pair = (_peel(n["l"]), _peel(n["r"]))
                if pair and all(is_node(x) and x["k"] == "Ref" and x.get("id") in ints for x in pair):
                    a, b = pair[0]["id"], pair[1]["id"]
                    if (a in ids) != (b in ids):
                        ids |= {a, b}
                        changed = True
        return {i: ints[i] for i in ids}

    def analyse(self, fn):
        """-> (number of uses of block-id variables examined, findings)"""
        F = self.F
        if not any(t in self.deleting for _, ts in F.calls_in(fn) for t in ts):
            return 0, []
        bvars = self.block_id_vars(fn)
        if not bvars:
            return 0, []
        findings = []
        uses = [0]
        me = self

        class S(flow.Flow):
            def on_node(self, n, st):
                if st is None:
                    return st
                if n["k"] in ("Call",) and any(t in me.deleting for t in F.call_targets(n)):
                    # the index argument of the delete call itself denotes "the slot", and stays meaningful
                    exempt = set()
                    for a in n.get("args", []):
                        a = _peel(a)
                        if is_node(a) and a["k"] == "Ref":
                            exempt.add(a["id"])
                    add = set()
                    for vid, name in bvars.items():
                        if vid in exempt:
                            add.add(("O", "deleted-at", name, frozenset({("v", vid)})))
                        else:
                            add.add(("O", "stale", name, frozenset({("v", vid)})))
                    return st | add
                if n["k"] == "Binary" and n["op"] in ("<", ">", "<=", ">="):
                    # ordering comparison of a stale index with the deleted position: the code is handling the shift
                    l, r = _peel(n["l"]), _peel(n["r"])
                    if all(is_node(x) and x["k"] == "Ref" and x.get("id") in bvars for x in (l, r)):
                        dels = set(f[2] for f in st if f[0] == "O" and f[1] == "deleted-at")
                        for a, b in ((l, r), (r, l)):
                            if b["name"] in dels:
                                st = frozenset(f for f in st if not (f[0] == "O" and f[1] == "stale" and f[2] == a["name"]))
                    return st
                if n["k"] == "Ref" and n.get("id") in bvars and not self.muted:
                    uses[0] += 1
                    if any(f[0] == "O" and f[1] == "stale" and ("v", n["id"]) in f[3] for f in st):
                        if id(n) not in self.adjusting:
                            findings.append(n)
                return st

        s = S(F, fn)
        # uses inside an adjusting expression: a conditional / comparison that relates the variable to a deleted index
        s.adjusting = set()
        for n in walk(fn.get("body") or {}):
            if n["k"] == "Cond" and is_node(n["c"]) and n["c"]["k"] == "Binary" and n["c"]["op"] in ("<", ">", "<=", ">="):
                l, r = _peel(n["c"]["l"]), _peel(n["c"]["r"])
                if all(is_node(x) and x["k"] == "Ref" and x.get("id") in bvars for x in (l, r)):
                    for x in walk(n):
                        if x["k"] == "Ref":
                            s.adjusting.add(id(x))
            if n["k"] == "If" and is_node(n.get("cond")) and n["cond"]["k"] == "Binary" and n["cond"]["op"] in ("<", ">", "<=", ">="):
                l, r = _peel(n["cond"]["l"]), _peel(n["cond"]["r"])
                if all(is_node(x) and x["k"] == "Ref" and x.get("id") in bvars for x in (l, r)):
                    # if (root > i) root--;   the statement as a whole adjusts
                    for x in walk(n):
                        if x["k"] == "Ref":
                            s.adjusting.add(id(x))
        s.run()
        return uses[0], findings


def _roots_at(e, names):
    while is_node(e):
        k = e["k"]
        if k == "Member":
            if e.get("name") in names and e.get("owner") == HDR:
                return True
            e = e.get("base")
        elif k == "Unary" and e["op"] == "*":
            e = e["e"]
        elif k == "Cast":
            e = e["e"]
        elif k == "OpCall" and e.get("args"):
            e = e["args"][0]
        else:
            return False
    return False


def _roots_at_table(e):
    while is_node(e):
        k = e["k"]
        if k == "Member":
            if e.get("name") in TABLES and e.get("owner") == HDR:
                return True
            e = e.get("base")
        elif k == "Unary" and e["op"] == "*":
            e = e["e"]
        elif k in ("Cast",):
            e = e["e"]
        elif k == "OpCall" and e.get("args"):
            e = e["args"][0]
        else:
            return False
    return False
