"""Inline view of a function for the rules that read one function body as a protocol (Save, NiHeader::Put, DeleteBlock,
SetBlockOrder, Load): calls of private helpers — non-virtual methods of the same class on the same object, file-static free
functions, lambdas defined in the function — are replaced by the helper's body, and `std::for_each(c.begin(), c.end(), λ)`
by the loop it stands for, so that splitting a long function into helpers (or folding two loops into one lambda) leaves the
protocol the rules see unchanged.

An expansion is a block `{ T p1 = a1; ...; do { body } while (false); }` with the helper's early `return;` turned into
`break` (helpers that return from inside a loop, or return a value other than through one trailing `return e;`, are not
expanded).  Ids of declarations are kept, so the flow engine's kills / aliases work unchanged."""
import copy
from facts import is_node, walk

MAX_DEPTH = 3


def _returns(body):
    return [n for n in walk(body or {}) if n["k"] == "Return"]


def _return_in_loop(body):
    for lp in walk(body or {}):
        if lp["k"] in ("For", "While", "Do", "RangeFor") and any(x["k"] == "Return" for x in walk(lp.get("body") or {})):
            return True
    return False


def _has_lambda_return(body):
    return False


class Inliner:
    def __init__(self, F):
        self.F = F
        self.cache = {}
        self.expanded = {}  # fn id -> set of helper ids expanded into it

    def view(self, fn):
        """a copy of the function record whose body has the private helpers expanded (cached)"""
        if fn["id"] in self.cache:
            return self.cache[fn["id"]]
        self.expanded[fn["id"]] = set()
        out = dict(fn)
        out["body"] = self._stmt(copy.deepcopy(fn.get("body")), fn, 0, {fn["id"]})
        out["inlined_from"] = sorted(self.expanded[fn["id"]])
        self.cache[fn["id"]] = out
        return out

    # ------------------------------------------------------------ eligibility
    def _callee(self, call, fn, lambdas):
        """function record of a helper this call can be replaced by, or None"""
        if not is_node(call) or call["k"] not in ("Call", "OpCall"):
            return None, None
        args = list(call.get("args", []))
        g = None
        if call["k"] == "OpCall" and call.get("op") == "()" and args:
            a0 = args[0]
            while is_node(a0) and a0["k"] == "Cast":
                a0 = a0["e"]
            fid = call.get("fid")
            if fid in self.F.fns and self.F.fns[fid].get("lambda_parent"):
                g = self.F.fns[fid]
            elif is_node(a0) and a0["k"] == "Ref" and a0.get("id") in lambdas:
                g = self.F.fns.get(lambdas[a0["id"]])
            args = args[1:]
        elif call["k"] == "Call" and not call.get("virt") and not call.get("ext") and call.get("fid") in self.F.fns:
            cand = self.F.fns[call["fid"]]
            recv = call.get("recv")
            same_obj = recv is None or (is_node(recv) and recv["k"] == "This")
            if cand.get("cls") and cand.get("cls") == fn.get("cls") and same_obj and not cand.get("virtual") and \
                    cand.get("access") in ("private", "protected"):
                g = cand
            elif not cand.get("cls") and cand.get("file") == fn.get("file") and cand.get("static_linkage", True) and \
                    not cand.get("tmpl"):
                g = cand if cand.get("file", "").startswith("src/") else None
        if g is None or not g.get("body") or g.get("tmpl") == "pattern":
            return None, None
        return g, args

    def _expandable(self, g, want_value):
        rets = _returns(g["body"])
        if _return_in_loop(g["body"]):
            return False
        if want_value:
            body = g["body"].get("body", []) if g["body"]["k"] == "Compound" else []
            return len(rets) == 1 and body and body[-1] is rets[0] and is_node(rets[0].get("e"))
        return all(not is_node(r.get("e")) for r in rets)

    # ------------------------------------------------------------ expansion
    def _expand(self, g, args, fn, depth, active, value_into=None):
        self.expanded.setdefault(self._root, set()).add(g["id"])
        body = copy.deepcopy(g["body"])
        decls = []
        for i, p in enumerate(g.get("params", [])):
            if i < len(args) and is_node(args[i]):
                decls.append({"k": "Decl", "loc": p.get("loc", ""), "vars": [dict(p, init=args[i])]})
        ret_expr = None
        if value_into is not None:
            last = body["body"].pop()
            ret_expr = last.get("e")
        else:
            for r in _returns(body):
                r.clear()
                r.update({"k": "Break", "loc": ""})
        body = self._stmt(body, g, depth + 1, active | {g["id"]})
        block = {"k": "Compound", "loc": g.get("loc", ""), "inlined": g["name"],
                 "body": decls + [{"k": "Do", "loc": "", "body": body, "cond": {"k": "Lit", "lk": "bool", "val": 0, "t": "bool", "loc": ""}}]}
        if value_into is not None:
            # the do-while wrapper is not needed (no early return); keep the body flat so declarations stay in scope
            block["body"] = decls + (body["body"] if body["k"] == "Compound" else [body]) + [value_into(ret_expr)]
            block["splice"] = True  # the declared result stays visible to the statements that follow in the caller
        return block

    def _for_each(self, call, fn, lambdas, depth, active):
        """std::for_each(c.begin(), c.end(), lambda) -> for (auto& x : c) { lambda body }"""
        if not (is_node(call) and call["k"] == "Call" and call.get("ext") and call.get("short") == "for_each" and len(call.get("args", [])) == 3):
            return None
        first = call["args"][0]
        while is_node(first) and first["k"] == "Cast":
            first = first["e"]
        lam = call["args"][2]
        while is_node(lam) and lam["k"] in ("Cast", "Construct") and (lam.get("e") is not None or len(lam.get("args", [])) == 1):
            lam = lam["e"] if lam.get("e") is not None else lam["args"][0]
        g = None
        if is_node(lam) and lam["k"] == "Lambda":
            g = self.F.fns.get(lam.get("fid"))
        elif is_node(lam) and lam["k"] == "Ref" and lam.get("id") in lambdas:
            g = self.F.fns.get(lambdas[lam["id"]])
        if g is None or not g.get("body") or len(g.get("params", [])) != 1 or _return_in_loop(g["body"]) or \
                not (is_node(first) and first["k"] == "Call" and first.get("short") in ("begin", "cbegin") and is_node(first.get("recv"))):
            return None
        if any(is_node(r.get("e")) for r in _returns(g["body"])):
            return None
        self.expanded.setdefault(self._root, set()).add(g["id"])
        body = copy.deepcopy(g["body"])
        for r in _returns(body):
            r.clear()
            r.update({"k": "Continue", "loc": ""})
        body = self._stmt(body, g, depth + 1, active | {g["id"]})
        return {"k": "RangeFor", "loc": call.get("loc", ""), "var": dict(g["params"][0]), "range": first["recv"], "body": body}

    def _stmt(self, s, fn, depth, active):
        if depth == 0:
            self._root = fn["id"]
        if not is_node(s) or depth > MAX_DEPTH:
            return s
        lambdas = {}
        for n in walk(fn.get("body") or {}):
            if n["k"] == "Decl":
                for v in n.get("vars", []):
                    i = v.get("init")
                    while is_node(i) and i["k"] in ("Cast", "Construct") and (i.get("e") is not None or len(i.get("args", [])) == 1):
                        i = i["e"] if i.get("e") is not None else i["args"][0]
                    if is_node(i) and i["k"] == "Lambda" and i.get("fid"):
                        lambdas[v["id"]] = i["fid"]
        return self._rewrite(s, fn, depth, active, lambdas)

    def _rewrite(self, s, fn, depth, active, lambdas):
        if not is_node(s):
            return s
        k = s["k"]
        if k == "Compound":
            nb = []
            for x in s.get("body", []):
                y = self._rewrite(x, fn, depth, active, lambdas)
                if is_node(y) and y.get("splice"):
                    nb.extend(y["body"])
                else:
                    nb.append(y)
            s["body"] = nb
            return s
        if k == "If":
            for key in ("then", "else"):
                if is_node(s.get(key)):
                    s[key] = self._rewrite(s[key], fn, depth, active, lambdas)
            return s
        if k in ("For", "While", "Do", "RangeFor", "Switch", "Case", "Default", "Try"):
            for key in ("body", "sub"):
                if is_node(s.get(key)):
                    s[key] = self._rewrite(s[key], fn, depth, active, lambdas)
            return s
        if k in ("Call", "OpCall"):
            fe = self._for_each(s, fn, lambdas, depth, active)
            if fe is not None:
                return fe
            g, args = self._callee(s, fn, lambdas)
            if g is not None and g["id"] not in active and self._expandable(g, False):
                return self._expand(g, args, fn, depth, active)
            return s
        if k == "Decl" and len(s.get("vars", [])) == 1 and is_node(s["vars"][0].get("init")):
            v = s["vars"][0]
            init = v["init"]
            while is_node(init) and init["k"] == "Cast":
                init = init["e"]
            g, args = self._callee(init, fn, lambdas)
            if g is not None and g["id"] not in active and self._expandable(g, True):
                return self._expand(g, args, fn, depth, active,
                                    value_into=lambda e, v=v, s=s: {"k": "Decl", "loc": s.get("loc", ""), "vars": [dict(v, init=e)]})
            return s
        return s
