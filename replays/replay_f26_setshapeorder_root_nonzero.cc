// F26 (C04/C06): NifFile::SetShapeOrder starts the position counter of the sort at the root node's old block number; when the root is
// not block 0 the order handed to NiHeader::SetBlockOrder is no permutation (written by a bug-hunting sub-agent; paths adapted).
// C06 demo 1: NifFile::SetShapeOrder hands NiHeader::SetBlockOrder a non-permutation
// when the root node is not block 0.
//
// Scenario (all legitimate API use):
//   1. load tests/input/TestNifFile_RootNonZero.nif (a real file whose root BSFadeNode is block 1,
//      block 0 is a BSXFlags) -- the library supports this, GetRootNode() finds block 1;
//   2. add a shape with CreateShapeFromData (block additions);
//   3. call SetShapeOrder(GetShapeNames()) (set-order with the identity shape order).
// Expected by the property: every slot still holds exactly one block, header type names describe
// the blocks, every reference still designates the same block.
// The scenario runs in a forked child so that a crash inside the library can be reported.
//
// exit 0 = property holds, non-zero = violated.

#include "NifFile.hpp"

#include <iostream>
#include <map>
#include <set>
#include <sys/wait.h>
#include <unistd.h>

using namespace nifly;

static const char* kFile = "/repo/tests/input/TestNifFile_RootNonZero.nif";

static int scenario() {
	NifFile nif;
	if (nif.Load(kFile) != 0) {
		std::cout << "cannot load " << kFile << std::endl;
		return 3;
	}

	NiHeader& hdr = nif.GetHeader();

	std::vector<Vector3> verts{{0, 0, 0}, {1, 0, 0}, {0, 1, 0}};
	std::vector<Triangle> tris{{0, 1, 2}};
	std::vector<Vector2> uvs{{0, 0}, {1, 0}, {0, 1}};
	if (!nif.CreateShapeFromData("Shape", &verts, &tris, &uvs)) {
		std::cout << "CreateShapeFromData failed" << std::endl;
		return 3;
	}

	uint32_t n = hdr.GetNumBlocks();
	std::cout << "blocks: " << n << ", root node is block " << nif.GetBlockID(nif.GetRootNode()) << std::endl;

	// Reference model: remember which object sits where and what every ref designates
	std::vector<NiObject*> before(n);
	std::map<NiObject*, std::multiset<NiObject*>> targets;
	for (uint32_t i = 0; i < n; i++)
		before[i] = hdr.GetBlock<NiObject>(i);
	for (uint32_t i = 0; i < n; i++) {
		std::set<NiRef*> refs;
		before[i]->GetChildRefs(refs);
		before[i]->GetPtrs(refs);
		for (auto r : refs)
			if (!r->IsEmpty() && r->index < n)
				targets[before[i]].insert(before[r->index]);
	}

	std::cout << "calling SetShapeOrder(GetShapeNames()) ..." << std::endl;
	nif.SetShapeOrder(nif.GetShapeNames());
	std::cout << "returned" << std::endl;

	int bad = 0;
	if (hdr.GetNumBlocks() != n) {
		std::cout << "block count changed: " << hdr.GetNumBlocks() << std::endl;
		bad++;
	}

	std::set<NiObject*> seen;
	for (uint32_t i = 0; i < hdr.GetNumBlocks(); i++) {
		auto b = hdr.GetBlock<NiObject>(i);
		if (!b) {
			std::cout << "slot " << i << " is empty" << std::endl;
			bad++;
			continue;
		}
		if (!seen.insert(b).second) {
			std::cout << "slot " << i << " holds a block that is also in another slot" << std::endl;
			bad++;
		}
		if (hdr.GetBlockTypeStringById(i) != b->GetBlockName()) {
			std::cout << "slot " << i << ": header says '" << hdr.GetBlockTypeStringById(i) << "' but block is '"
					  << b->GetBlockName() << "'" << std::endl;
			bad++;
		}
	}
	for (auto b : before)
		if (!seen.count(b)) {
			std::cout << "a block that was in the file before the reordering is no longer in any slot" << std::endl;
			bad++;
		}

	if (!bad) {
		for (uint32_t i = 0; i < hdr.GetNumBlocks(); i++) {
			auto b = hdr.GetBlock<NiObject>(i);
			std::set<NiRef*> refs;
			b->GetChildRefs(refs);
			b->GetPtrs(refs);
			std::multiset<NiObject*> now;
			for (auto r : refs)
				if (!r->IsEmpty())
					now.insert(hdr.GetBlock<NiObject>(r->index));
			if (now != targets[b]) {
				std::cout << "refs of block " << i << " (" << b->GetBlockName() << ") changed their targets" << std::endl;
				bad++;
			}
		}
	}

	return bad ? 1 : 0;
}

int main() {
	std::cout.setf(std::ios::unitbuf);

	pid_t pid = fork();
	if (pid == 0)
		_exit(scenario());

	int status = 0;
	waitpid(pid, &status, 0);

	if (WIFSIGNALED(status)) {
		std::cout << "VIOLATION: the library crashed with signal " << WTERMSIG(status)
				  << " inside SetShapeOrder/SetBlockOrder (out-of-range new indices -> heap overflow / empty slots)"
				  << std::endl;
		return 1;
	}

	int rc = WEXITSTATUS(status);
	if (rc == 0)
		std::cout << "OK: property holds" << std::endl;
	else
		std::cout << "VIOLATION: see above (exit " << rc << ")" << std::endl;
	return rc;
}
