// Replay of the C02 known finding "read-only query rewrites strip partitions": the const query
// NifFile::GetShapePartitions converts strip partitions to triangle lists in the live model, so the save after the
// query differs from the save before it.  Only public API.
#include "NifFile.hpp"
#include <sstream>
#include <iostream>
using namespace nifly;
int main(int argc, char** argv) {
	const char* in = argc > 1 ? argv[1] : "/repo/tests/input/TestNifFile_Skinned_OB.nif";
	NifFile nif;
	if (nif.Load(in) != 0) { std::cout << "cannot load input\n"; return 2; }
	std::stringstream s1, s2, s3;
	nif.Save(s1);
	nif.Save(s2);
	size_t strips = 0;
	for (auto shape : nif.GetShapes()) {
		NiVector<BSDismemberSkinInstance::PartitionInfo> pi;
		std::vector<int> tp;
		const NifFile& q = nif;
		q.GetShapePartitions(shape, pi, tp);
	}
	nif.Save(s3);
	bool same12 = s1.str() == s2.str(), same23 = s2.str() == s3.str();
	std::cout << "save1==save2: " << same12 << "  save2==save3 (const query in between): " << same23
	          << "  sizes " << s2.str().size() << " vs " << s3.str().size() << "\n";
	return same23 ? 0 : 1;
}
