// F28 (C11): NifFile::CopyFrom calls Clear() before it reads the source and never tests this == &other: assigning a model to itself
// (models[i] = models[j] with i == j) empties it (written by a bug-hunting sub-agent; paths adapted).
// C11 demo 1: copy-assignment where source and destination are the same object.
// "Copying a model yields a model that saves to the same bytes as the source."
// NifFile::operator= -> CopyFrom(other) calls Clear() on *this before reading `other`;
// when &other == this the model is wiped and what is left is an invalid, empty file.
#include "NifFile.hpp"
#include <iostream>
#include <sstream>
#include <vector>

using namespace nifly;

static std::string SaveToString(NifFile& nif) {
	std::ostringstream out(std::ios::binary);
	NifSaveOptions opts;
	opts.optimize = false;
	opts.sortBlocks = false;
	nif.Save(out, opts);
	return out.str();
}

int main() {
	const char* path = "/repo/tests/input/TestNifFile_Static_SE.nif";

	// Reference: what the model saves to.
	std::string expected;
	size_t expectedShapes = 0;
	uint32_t expectedBlocks = 0;
	{
		NifFile ref(path);
		if (!ref.IsValid()) {
			std::cout << "cannot load input\n";
			return 2;
		}
		expectedShapes = ref.GetShapes().size();
		expectedBlocks = ref.GetHeader().GetNumBlocks();
		expected = SaveToString(ref);
	}

	// A list of models; an element is assigned from an element picked by index.
	// (i == j is an ordinary case for e.g. "make slot i the same as slot j".)
	std::vector<NifFile> models(2);
	models[0].Load(path);
	models[1].Load(path);

	size_t i = 0, j = 0;
	models[i] = models[j];

	int rc = 0;
	if (!models[i].IsValid()) {
		std::cout << "VIOLATION: model is no longer valid after being assigned a copy of itself\n";
		rc = 1;
	}
	if (models[i].GetShapes().size() != expectedShapes
		|| models[i].GetHeader().GetNumBlocks() != expectedBlocks) {
		std::cout << "VIOLATION: shapes " << models[i].GetShapes().size() << " (expected " << expectedShapes
				  << "), blocks " << models[i].GetHeader().GetNumBlocks() << " (expected " << expectedBlocks
				  << ")\n";
		rc = 1;
	}
	std::string got = SaveToString(models[i]);
	if (got != expected) {
		std::cout << "VIOLATION: saved bytes differ from the source: " << got.size() << " bytes vs "
				  << expected.size() << " bytes\n";
		rc = 1;
	}

	// The untouched sibling proves the input itself round-trips.
	if (SaveToString(models[1]) != expected) {
		std::cout << "unexpected: control model does not match the reference\n";
		return 2;
	}

	if (rc == 0)
		std::cout << "OK: self-assigned model is unchanged\n";
	return rc;
}
