// Replay of F18 (C13): SetVertsForShape stores positions in a NiGeometryData whose hasVertices flag is off without switching
// the flag on (the sibling setters for UVs, normals and colours do): the getter then hands nothing back and Save writes none.
#include "NifFile.hpp"
#include <sstream>
#include <iostream>
using namespace nifly;
int main(int argc, char** argv) {
	const char* in = argc > 1 ? argv[1] : "/repo/tests/input/TestNifFile_Skinned_OB.nif";
	NifFile nif;
	if (nif.Load(in) != 0) { std::cout << "cannot load input\n"; return 2; }
	int bad = 0;
	for (auto shape : nif.GetShapes()) {
		auto data = nif.GetGeometryData(shape);
		if (!data) continue;
		std::vector<Vector3> verts;
		nif.GetVertsForShape(shape, verts);
		data->SetVertices(false);                 // public API: drop the positions (flag off, count 0)
		nif.SetVertsForShape(shape, verts);       // store them again through the setter
		std::vector<Vector3> back;
		bool got = nif.GetVertsForShape(shape, back);
		std::cout << shape->name.get() << ": set " << verts.size() << " vertices, getter returned " << got << " with " << back.size()
		          << " vertices, hasVertices=" << data->HasVertices() << "\n";
		if (!got || back.size() != verts.size()) bad++;
	}
	return bad ? 1 : 0;
}
