// F25 (C13): NiGeometryData::Create re-derives numVertices and resets UVs, normals and tangents but leaves vertexColors alone: after
// SetVertsForShape re-creates a coloured OB/FO3/SK shape with another vertex count the colour array keeps its old length (written by a
// bug-hunting sub-agent that saw only the property text; paths adapted).
// C13 demo 3: SetVertsForShape with a new vertex count re-creates the NiGeometryData
// (NiGeometryData::Create). Create resets UVs, normals and tangents but forgets the vertex
// colours, so the colour array keeps the OLD vertex count while HasVertexColors() stays true.
#include "NifFile.hpp"
#include <iostream>
#include <sstream>

using namespace nifly;

int main() {
	struct Ver {
		const char* name;
		NiVersion v;
	};
	Ver vers[] = {{"OB", NiVersion::getOB()},
				  {"FO3", NiVersion::getFO3()},
				  {"SK", NiVersion::getSK()},
				  {"SSE", NiVersion::getSSE()},
				  {"FO4", NiVersion::getFO4()},
				  {"FO76", NiVersion::getFO76()}};

	int bad = 0;
	for (auto& ver : vers) {
		std::vector<Vector3> v = {{0, 0, 0}, {1, 0, 0}, {0, 1, 0}, {1, 1, 0}};
		std::vector<Vector2> uv = {{0, 0}, {1, 0}, {0, 1}, {1, 1}};
		std::vector<Vector3> n(4, Vector3(0, 0, 1));
		std::vector<Triangle> t = {{0, 1, 2}, {1, 3, 2}};

		NifFile nif;
		nif.Create(ver.v);
		NiShape* s = nif.CreateShapeFromData("shape", &v, &t, &uv, &n);
		if (!s)
			return 2;

		std::vector<Color4> cols(4, Color4(1.0f, 0.0f, 0.0f, 1.0f));
		nif.SetColorsForShape(s, cols);

		// Replace the geometry by a mesh with a different vertex count
		std::vector<Vector3> v2(6, Vector3(1, 2, 3));
		nif.SetVertsForShape(s, v2);

		uint16_t nv = s->GetNumVertices();
		int fail = 0;
		std::cout << ver.name << ": vertices=" << nv;

		auto check = [&](const char* what, size_t size, bool present) {
			std::cout << " " << what << "=" << (present ? std::to_string(size) : std::string("-"));
			if (present && size != nv)
				fail++;
		};

		std::vector<Vector3> gv;
		bool ok = nif.GetVertsForShape(s, gv);
		check("positions", gv.size(), ok);
		std::vector<Vector2> guv;
		ok = nif.GetUvsForShape(s, guv);
		check("uvs", guv.size(), ok);
		auto pn = nif.GetNormalsForShape(s);
		check("normals", pn ? pn->size() : 0, pn != nullptr);
		std::vector<Vector3> gt;
		ok = nif.GetTangentsForShape(s, gt);
		check("tangents", gt.size(), ok);
		std::vector<Color4> gc;
		ok = nif.GetColorsForShape(s, gc);
		check("colours", gc.size(), ok);
		std::cout << " HasVertexColors=" << s->HasVertexColors() << (fail ? "  <-- array length != vertex count" : "")
				  << "\n";

		if (fail)
			bad++;
	}

	if (bad) {
		std::cout << "VIOLATION: a per-vertex array did not keep the vertex count in " << bad << " version(s)\n";
		return 1;
	}
	std::cout << "property holds\n";
	return 0;
}
