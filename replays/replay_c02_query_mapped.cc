// Replay of the C02 known finding "read-only query drops mapped partition triangles": with a partition triangle whose
// mapped index lies outside the partition's vertex map (a malformed but loadable/saveable model), the const query
// NifFile::GetShapePartitions clears PartitionBlock::triangles and rewrites numTriangles in the live model.
#include "NifFile.hpp"
#include <sstream>
#include <iostream>
using namespace nifly;
int main(int argc, char** argv) {
	const char* in = argc > 1 ? argv[1] : "/repo/tests/input/TestNifFile_Optimize_LE_to_SE.nif";
	NifFile nif;
	if (nif.Load(in) != 0) { std::cout << "cannot load input\n"; return 2; }
	int touched = 0;
	for (auto shape : nif.GetShapes()) {
		auto skinInst = nif.GetHeader().GetBlock<NiSkinInstance>(shape->SkinInstanceRef());
		if (!skinInst) continue;
		auto part = nif.GetHeader().GetBlock(skinInst->skinPartitionRef);
		if (!part || part->partitions.empty() || part->partitions[0].triangles.empty()) continue;
		part->partitions[0].triangles[0].p1 = 65535; // outside the vertex map
		touched++;
	}
	std::stringstream s1, s2, s3;
	nif.Save(s1);
	nif.Save(s2);
	for (auto shape : nif.GetShapes()) {
		NiVector<BSDismemberSkinInstance::PartitionInfo> pi;
		std::vector<int> tp;
		const NifFile& q = nif;
		q.GetShapePartitions(shape, pi, tp);
	}
	nif.Save(s3);
	bool same12 = s1.str() == s2.str(), same23 = s2.str() == s3.str();
	std::cout << touched << " partitions given an unmapped index; save1==save2: " << same12
	          << "  save2==save3 (const query in between): " << same23 << "  sizes " << s2.str().size() << " vs " << s3.str().size() << "\n";
	return same23 ? 0 : 1;
}
