// Known finding (C02 R2.2): writing a skin instance erases the empty slots of its boneRefs array in the live model
// (NiBlockRefArray::Sync -> CleanInvalidRefs in write mode).  Bone slots are positional: NiSkinData::bones keeps its entries, so after one
// save every later bone is looked up against its neighbour's data (written by a bug-hunting sub-agent; paths adapted).
// C02 demo 2: Save removes empty slots from NiSkinInstance::boneRefs in the live model, which shifts every
// later bone against the index-parallel NiSkinData::bones array.  Read-only bone queries therefore answer
// differently before and after a Save of the same model.
//
// Scenario (edited model, public NifFile API only):
//   load the skinned Oblivion test file (10 bones), delete the node of the 3rd bone with NifFile::DeleteNode
//   (the library empties the bone slot, it does not remove it), then ask for every remaining bone
//     - its bone index              NiShape::GetBoneID
//     - its skin-to-bone transform  NifFile::GetShapeTransformSkinToBone(shape, boneName, ...)
//     - its vertex weight count     NifFile::GetShapeBoneWeights(shape, boneIndex, ...)
//   Save, then ask again.
//
// exit 0 = all answers unchanged by the save, 1 = violation, 2 = set-up problem

#include "NifFile.hpp"

#include <cstring>
#include <iostream>
#include <sstream>
#include <string>
#include <unordered_map>
#include <vector>

using namespace nifly;

struct BoneAnswer {
	std::string name;
	int boneId = -1;
	bool hasXform = false;
	MatTransform xform;
	uint32_t numWeights = 0;
};

static std::vector<BoneAnswer> Ask(NifFile& nif, NiShape* shape) {
	std::vector<BoneAnswer> out;
	std::vector<std::string> names;
	nif.GetShapeBoneList(shape, names);
	for (auto& n : names) {
		BoneAnswer a;
		a.name = n;
		a.boneId = shape->GetBoneID(nif.GetHeader(), n);
		a.hasXform = nif.GetShapeTransformSkinToBone(shape, n, a.xform);
		std::unordered_map<uint16_t, float> w;
		a.numWeights = nif.GetShapeBoneWeights(shape, static_cast<uint32_t>(a.boneId), w);
		out.push_back(a);
	}
	return out;
}

static bool SameXform(const MatTransform& a, const MatTransform& b) {
	return std::memcmp(&a.translation, &b.translation, sizeof(Vector3)) == 0
		   && std::memcmp(&a.rotation, &b.rotation, sizeof(Matrix3)) == 0 && a.scale == b.scale;
}

int main() {
	NifFile nif;
	if (nif.Load("/repo/tests/input/TestNifFile_Skinned_OB.nif") != 0) {
		std::cout << "cannot load input\n";
		return 2;
	}

	auto shapes = nif.GetShapes();
	if (shapes.empty())
		return 2;
	NiShape* shape = shapes[0];

	std::vector<std::string> bones;
	nif.GetShapeBoneList(shape, bones);
	if (bones.size() < 5) {
		std::cout << "not enough bones\n";
		return 2;
	}

	// The edit: remove the node of the 3rd bone.
	std::cout << "deleting node '" << bones[2] << "' (bone slot 2 of " << bones.size() << ")\n";
	nif.DeleteNode(bones[2]);

	shape = nif.GetShapes()[0];
	auto skinInst = nif.GetHeader().GetBlock<NiSkinInstance>(shape->SkinInstanceRef());
	auto skinData = skinInst ? nif.GetHeader().GetBlock(skinInst->dataRef) : nullptr;
	if (!skinInst || !skinData)
		return 2;

	std::vector<int> idsBefore;
	nif.GetShapeBoneIDList(shape, idsBefore);
	uint32_t slotsBefore = skinInst->boneRefs.GetSize();
	auto before = Ask(nif, shape);

	std::stringstream ss;
	NifSaveOptions opts;
	opts.optimize = false; // not needed for the effect, keeps everything else untouched
	opts.sortBlocks = false;
	if (nif.Save(ss, opts) != 0)
		return 2;

	shape = nif.GetShapes()[0];
	uint32_t slotsAfter = skinInst->boneRefs.GetSize();
	auto after = Ask(nif, shape);

	std::cout << "bone slots in NiSkinInstance before/after save: " << slotsBefore << " / " << slotsAfter
			  << "   (NiSkinData::numBones stays " << skinData->numBones << ")\n";

	int bad = 0;
	if (slotsBefore != slotsAfter)
		bad++;

	if (before.size() != after.size()) {
		std::cout << "bone list length changed: " << before.size() << " -> " << after.size() << "\n";
		bad++;
	}

	for (size_t i = 0; i < before.size() && i < after.size(); i++) {
		auto& b = before[i];
		auto& a = after[i];
		bool same = b.name == a.name && b.boneId == a.boneId && b.hasXform == a.hasXform
					&& SameXform(b.xform, a.xform) && b.numWeights == a.numWeights;
		std::cout << "  " << b.name << ": boneId " << b.boneId << " -> " << a.boneId << ", skinToBone.translation ("
				  << b.xform.translation.x << ", " << b.xform.translation.y << ", " << b.xform.translation.z
				  << ") -> (" << a.xform.translation.x << ", " << a.xform.translation.y << ", "
				  << a.xform.translation.z << "), weights " << b.numWeights << " -> " << a.numWeights
				  << (same ? "" : "   <-- CHANGED BY SAVE") << "\n";
		if (!same)
			bad++;
	}

	if (bad == 0) {
		std::cout << "OK: bone queries answer the same before and after the save\n";
		return 0;
	}

	std::cout << "VIOLATION: " << bad << " read-only answers changed merely because the model was saved\n";
	return 1;
}
