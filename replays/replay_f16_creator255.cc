// Replay of F16 (C07): NiString::Write wraps the one-byte length prefix when a NUL terminator is appended to a
// 255-character string.  Only public API: Load, NiHeader::SetCreatorInfo, Save, Load.
#include "NifFile.hpp"
#include <sstream>
#include <iostream>
using namespace nifly;
int main(int argc, char** argv) {
	const char* in = argc > 1 ? argv[1] : "/repo/tests/input/TestNifFile_Static_SE.nif";
	int bad = 0;
	for (size_t len : {10u, 254u, 255u, 256u, 511u}) {
		NifFile nif;
		if (nif.Load(in) != 0) { std::cout << "cannot load input\n"; return 2; }
		size_t blocks = nif.GetHeader().GetNumBlocks();
		nif.GetHeader().SetCreatorInfo(std::string(len, 'a'));
		std::stringstream ss;
		nif.Save(ss);
		NifFile re;
		int rc = re.Load(ss);
		size_t b2 = re.IsValid() ? re.GetHeader().GetNumBlocks() : 0;
		bool ok = rc == 0 && b2 == blocks && !re.HasUnknown();
		std::cout << "creator length " << len << ": reload rc=" << rc << " blocks " << b2 << "/" << blocks
		          << " creator read back length " << (re.IsValid() ? re.GetHeader().GetCreatorInfo().size() : 0) << (ok ? " ok" : " BROKEN") << "\n";
		bad += !ok;
	}
	return bad ? 1 : 0;
}
