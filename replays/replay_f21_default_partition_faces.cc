// F21 (C10): NifFile::SetDefaultPartition builds the single default partition with numTriangles = N and the triangle lists filled
// but leaves PartitionBlock::hasFaces at its default (false).  NiSkinPartition::Sync writes the triangle array only under
// hasFaces, so the saved file announces N triangles and stores none: after a reload no triangle of the shape lies in any partition.
// build: g++ -std=c++17 -I/repo/include -I/repo/external replay_f21_default_partition_faces.cc <libnifly.a> -o replay && ./replay <tests/input dir>
#include "NifFile.hpp"
#include <cstdio>
#include <sstream>
using namespace nifly;
int main(int argc, char** argv) {
	std::string dir = argc > 1 ? argv[1] : "/repo/tests/input";
	int bad = 0, checked = 0;
	for (const char* name : {"TestNifFile_Optimize_LE_to_SE.nif", "TestNifFile_Skinned_OB.nif"}) {
		NifFile nif;
		if (nif.Load(dir + "/" + name) != 0) { printf("cannot load %s\n", name); return 2; }
		for (auto shape : nif.GetShapes()) {
			if (!shape->IsSkinned()) continue;
			std::vector<Triangle> tris;
			shape->GetTriangles(tris);
			nif.SetDefaultPartition(shape);
			std::stringstream ss;
			NifSaveOptions opt; opt.optimize = false; opt.sortBlocks = false;
			if (nif.Save(ss, opt) != 0) { printf("save failed\n"); return 2; }
			NifFile re;
			ss.seekg(0);
			if (re.Load(ss) != 0) { printf("reload failed\n"); return 2; }
			auto rshape = re.FindBlockByName<NiShape>(shape->name.get());
			auto skinInst = re.GetHeader().GetBlock<NiSkinInstance>(rshape->SkinInstanceRef());
			auto part = skinInst ? re.GetHeader().GetBlock(skinInst->skinPartitionRef) : nullptr;
			if (!part) continue;
			size_t stored = 0, announced = 0;
			for (auto& p : part->partitions) { stored += p.triangles.size(); announced += p.numTriangles; }
			checked++;
			if (stored != tris.size()) {
				printf("VIOLATION: %s shape '%s': %zu triangles, default partition announces %zu but the reloaded file stores %zu (hasFaces=%d)\n",
					   name, shape->name.get().c_str(), tris.size(), announced, stored, (int) part->partitions[0].hasFaces);
				bad = 1;
			}
		}
	}
	if (!bad) printf("ok: %d default partitions reload with all their triangles\n", checked);
	return bad;
}
