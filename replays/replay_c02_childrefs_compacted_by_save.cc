// Known finding (C02 R2.2): writing a node erases the empty slots of its childRefs array in the live model (CleanInvalidRefs in write
// mode), after the sort of the same save judged "nodes with children" by childRefs.GetSize(): the second save of an Oblivion model orders
// and numbers blocks differently from the first (written by a bug-hunting sub-agent; paths adapted).
// C02 demo 1: second Save of an Oblivion model renumbers blocks and reorders the root's children.
//
// Scenario (edited model, public NifFile API only):
//   load the Oblivion test file, add a node "Helper" under the root, add a node "Tmp" under "Helper",
//   delete "Tmp" again.  "Helper" now has a child array with one empty slot.
//   Save the same NifFile object three times with default options and compare the outputs.
//
// Oblivion files (20.0.0.5) store strings inline, there is no header string table, so the outputs of
// consecutive saves of an unchanged model must be byte-identical.
//
// exit 0 = all three saves identical, 1 = violation, 2 = set-up problem

#include "NifFile.hpp"

#include <iostream>
#include <sstream>
#include <string>
#include <vector>

using namespace nifly;

static std::vector<std::string> BlockListing(const std::string& bytes) {
	std::vector<std::string> out;
	std::stringstream ss(bytes);
	NifFile n;
	if (n.Load(ss) != 0)
		return out;

	auto& h = n.GetHeader();
	for (uint32_t i = 0; i < h.GetNumBlocks(); i++) {
		auto b = h.GetBlock<NiObject>(i);
		std::string s = b->GetBlockName();
		if (auto net = dynamic_cast<NiObjectNET*>(b))
			s += " '" + net->name.get() + "'";
		out.push_back(s);
	}
	return out;
}

static std::vector<std::string> RootChildren(NifFile& nif) {
	std::vector<std::string> out;
	auto root = nif.GetRootNode();
	if (!root)
		return out;
	for (auto& r : root->childRefs) {
		auto c = nif.GetHeader().GetBlock<NiObjectNET>(r.index);
		out.push_back(c ? c->name.get() : std::string("<empty>"));
	}
	return out;
}

int main() {
	NifFile nif;
	if (nif.Load("/repo/tests/input/TestNifFile_Skinned_OB.nif") != 0) {
		std::cout << "cannot load input\n";
		return 2;
	}
	if (!nif.GetHeader().GetVersion().IsOB()) {
		std::cout << "input is not an Oblivion file\n";
		return 2;
	}

	NiNode* helper = nif.AddNode("Helper", MatTransform());
	if (!helper)
		return 2;
	if (!nif.AddNode("Tmp", MatTransform(), helper))
		return 2;
	nif.DeleteNode("Tmp");

	std::string out[3];
	std::vector<std::string> kids[3];
	for (int k = 0; k < 3; k++) {
		std::stringstream ss;
		if (nif.Save(ss) != 0) // default options: optimize + sortBlocks
			return 2;
		out[k] = ss.str();
		kids[k] = RootChildren(nif);
	}

	bool same12 = out[0] == out[1];
	bool same23 = out[1] == out[2];
	std::cout << "save sizes: " << out[0].size() << " " << out[1].size() << " " << out[2].size() << "\n";
	std::cout << "save1 == save2: " << same12 << ", save2 == save3: " << same23 << "\n";

	if (same12 && same23) {
		std::cout << "OK: consecutive saves are identical\n";
		return 0;
	}

	auto l1 = BlockListing(out[0]);
	auto l2 = BlockListing(out[1]);
	std::cout << "block order in save #1 vs save #2 (first 14 blocks):\n";
	for (size_t i = 0; i < l1.size() && i < l2.size() && i < 14; i++)
		std::cout << "  " << i << ": " << l1[i] << (l1[i] == l2[i] ? "   ==   " : "   !=   ") << l2[i] << "\n";

	for (int k = 0; k < 2; k++) {
		std::cout << "root children after save #" << (k + 1) << ":";
		for (auto& s : kids[k])
			std::cout << " [" << s << "]";
		std::cout << "\n";
	}

	std::cout << "VIOLATION: the second save of the unchanged model differs from the first (blocks renumbered)\n";
	return 1;
}
