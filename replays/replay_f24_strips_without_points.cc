// F24 (C09): NiTriStripsData::notifyVerticesDelete loops over stripLengths but indexes stripsInfo.points, which is empty when the block
// was stored with hasPoints == false (the library reads and writes such blocks): deleting vertices reads past the empty array
// (written by a bug-hunting sub-agent that saw only the property text; paths adapted).
// C09 demo 3: NiTriStripsData::notifyVerticesDelete walks stripsInfo.points[i][j] for every
// stripLengths[i] without looking at stripsInfo.hasPoints.  A NiTriStripsData whose strip lengths
// are present but whose points are omitted (hasPoints == false; the library reads, keeps and writes
// such blocks unchanged) has an EMPTY points vector, so deleting a vertex indexes an empty
// std::vector -> out-of-bounds read (crash) instead of "leaving exactly the other vertices".
//
// The deletion runs in a child process so that the crash can be reported.
// exit 0 = property holds, non-zero = violated.
#include "NifFile.hpp"
#include "NifUtil.hpp"

#include <iostream>
#include <sstream>

#include <sys/wait.h>
#include <unistd.h>

using namespace nifly;

int main() {
	// 3x2 grid of vertices, strips described only by their lengths (points omitted)
	std::vector<Vector3> v;
	std::vector<Vector2> uv;
	std::vector<Vector3> n;
	for (int y = 0; y < 2; y++)
		for (int x = 0; x < 3; x++) {
			v.emplace_back(float(x), float(y), 0.0f);
			uv.emplace_back(x / 2.0f, float(y));
			n.emplace_back(0.0f, 0.0f, 1.0f);
		}

	std::stringstream file;
	{
		NifFile nif;
		nif.Create(NiVersion::getFO3());

		auto [dataS, data] = nifly::make_unique<NiTriStripsData>();
		data->Create(nif.GetHeader().GetVersion(), &v, nullptr, &uv, &n);
		uint16_t len = 6;
		data->stripsInfo.stripLengths.push_back(len);
		data->stripsInfo.hasPoints = false; // points live elsewhere (e.g. in the skin partition)
		uint32_t dataId = nif.GetHeader().AddBlock(std::move(dataS));

		auto [shapeS, shape] = nifly::make_unique<NiTriStrips>();
		shape->name.get() = "strips";
		shape->DataRef()->index = dataId;
		shape->SetGeomData(data);
		uint32_t shapeId = nif.GetHeader().AddBlock(std::move(shapeS));
		nif.GetRootNode()->childRefs.AddBlockRef(shapeId);

		if (nif.Save(file) != 0) {
			std::cout << "setup: save failed\n";
			return 99;
		}
	}

	// Work on the file as the library itself loads it.
	NifFile nif;
	if (nif.Load(file) != 0) {
		std::cout << "setup: load failed\n";
		return 98;
	}
	auto shape = nif.FindBlockByName<NiShape>("strips");
	auto data = shape ? dynamic_cast<NiTriStripsData*>(shape->GetGeomData()) : nullptr;
	if (!data) {
		std::cout << "setup: shape missing\n";
		return 97;
	}
	std::cout << "loaded NiTriStrips: " << shape->GetNumVertices() << " vertices, hasPoints=" << data->stripsInfo.hasPoints
			  << ", stripLengths.size()=" << data->stripsInfo.stripLengths.size() << ", points.size()=" << data->stripsInfo.points.size()
			  << "\n";

	std::cout.flush();
	pid_t pid = fork();
	if (pid == 0) {
		std::vector<uint16_t> del = {1};
		nif.DeleteVertsForShape(shape, del);

		std::vector<Vector3> after;
		nif.GetVertsForShape(shape, after);
		bool ok = after.size() == 5 && after[0].x == 0.0f && after[1].x == 2.0f && data->stripsInfo.points.empty()
				  && shape->GetNumVertices() == 5;
		_exit(ok ? 0 : 3);
	}

	int status = 0;
	waitpid(pid, &status, 0);
	if (WIFSIGNALED(status)) {
		std::cout << "VIOLATION: DeleteVertsForShape on a NiTriStrips shape without strip points was killed by signal " << WTERMSIG(status)
				  << " (out-of-bounds access to stripsInfo.points)\n";
		return 1;
	}
	if (WEXITSTATUS(status) != 0) {
		std::cout << "VIOLATION: wrong vertices after deletion (child exit " << WEXITSTATUS(status) << ")\n";
		return 1;
	}

	std::cout << "OK\n";
	return 0;
}
