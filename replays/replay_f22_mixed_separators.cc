// F22 (C19): the separator normalisation in NifFile::TrimTexturePaths replaces "a run of '/'" OR "a run of '\'" by one backslash
// (regex  /+|\\+ ), so a run that mixes the two separators ("textures/\x.dds") becomes two backslashes: the cleaned path is not
// canonical (doubled backslash) and cleaning it again changes it (not idempotent).
// build: g++ -std=c++17 -I/repo/include -I/repo/external replay_f22_mixed_separators.cc <libnifly.a> -o replay && ./replay <tests/input dir>
#include "NifFile.hpp"
#include <cstdio>
using namespace nifly;
int main(int argc, char** argv) {
	std::string dir = argc > 1 ? argv[1] : "/repo/tests/input";
	NifFile nif;
	if (nif.Load(dir + "/TestNifFile_Static_SE.nif") != 0) { printf("cannot load\n"); return 2; }
	auto shapes = nif.GetShapes();
	if (shapes.empty()) return 2;
	int bad = 0;
	for (std::string in : {std::string("textures/\\armor\\x.dds"), std::string("armor\\/steel//\\x.dds"), std::string("textures\\a/b.dds")}) {
		nif.SetTextureSlot(shapes[0], in, 0);
		nif.TrimTexturePaths();
		std::string once;
		nif.GetTextureSlot(shapes[0], once, 0);
		nif.TrimTexturePaths();
		std::string twice;
		nif.GetTextureSlot(shapes[0], twice, 0);
		bool dbl = once.find("\\\\") != std::string::npos;
		if (dbl || once != twice) {
			printf("VIOLATION: '%s' -> '%s' after one clean-up%s; -> '%s' after the second%s\n", in.c_str(), once.c_str(),
				   dbl ? " (doubled backslash)" : "", twice.c_str(), once != twice ? " (not idempotent)" : "");
			bad = 1;
		}
	}
	if (!bad) printf("ok: mixed separator runs collapse to one backslash\n");
	return bad;
}
