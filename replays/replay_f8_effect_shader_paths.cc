#include "NifFile.hpp"
#include "Shaders.hpp"
#include <iostream>
#include <sstream>
using namespace nifly;
int main(){
  NifFile n; n.Create(NiVersion::getSSE());
  std::vector<Vector3> v{{0,0,0},{1,0,0},{0,1,0}}; std::vector<Triangle> t{Triangle(0,1,2)}; std::vector<Vector2> uv{{0,0},{1,0},{0,1}};
  auto s=n.CreateShapeFromData("S",&v,&t,&uv);
  // replace lighting shader by effect shader
  auto eff=std::make_unique<BSEffectShaderProperty>(); eff->sourceTexture.get()="  Data/Textures//Foo.dds  ";
  uint32_t id=n.GetHeader().AddBlock(std::move(eff)); s->ShaderPropertyRef()->index=id;
  auto e=dynamic_cast<BSEffectShaderProperty*>(n.GetShader(s));
  std::cout<<"shader is effect: "<<(e!=nullptr)<<"\n";
  n.TrimTexturePaths();
  std::cout<<"effect source after TrimTexturePaths: ["<<e->sourceTexture.get()<<"]\n";
  // compare: texture-set path with same dirty string on a lighting shader shape
  auto s2=n.CreateShapeFromData("S2",&v,&t,&uv); std::string dirty="  Data/Textures//Foo.dds  "; n.SetTextureSlot(s2,dirty,0); n.TrimTexturePaths(); std::string out; n.GetTextureSlot(s2,out,0); std::cout<<"texture-set slot after trim: ["<<out<<"]\n";
  // and after save+load (PrepareData auto-trim)
  std::ostringstream os; NifSaveOptions o; o.optimize=false;o.sortBlocks=false; n.Save(os,o); std::istringstream is(os.str()); NifFile m; m.Load(is);
  for(auto sh:m.GetShapes()) if(auto ee=dynamic_cast<BSEffectShaderProperty*>(m.GetShader(sh))) std::cout<<"after reload effect source: ["<<ee->sourceTexture.get()<<"]\n";
}
