// Replay of F19 (C15): the skin-partition reference of a BSDynamicTriShape's skin instance redirected to another shape's
// partition with more vertices.  PrepareData (run by Load) takes the vertex count from the partition and then indexes the
// shape's own dynamicData with it.  Build with -fsanitize=address to see the out-of-bounds read.
#include "NifFile.hpp"
#include <sstream>
#include <iostream>
#include <cstring>
using namespace nifly;
int main(int argc, char** argv) {
	const char* in = argc > 1 ? argv[1] : "/repo/tests/input/TestNifFile_Skinned_Dynamic_SE.nif";
	NifFile nif;
	if (nif.Load(in) != 0) { std::cout << "cannot load\n"; return 2; }
	auto shapes = nif.GetShapes();
	if (shapes.size() < 2) return 2;
	// make the second shape smaller, so that the two partitions differ in size
	std::vector<uint16_t> del;
	for (uint16_t i = 0; i < 100; i++) del.push_back(i);
	nif.DeleteVertsForShape(shapes[1], del);
	NifSaveOptions raw; raw.optimize = false; raw.sortBlocks = false;
	std::stringstream s1; nif.Save(s1, raw);
	std::string bytes = s1.str();
	// locate the second skin instance block in the saved bytes and redirect its partition reference to the first partition
	NifFile probe; std::stringstream p1(bytes); probe.Load(p1);
	auto& hdr = probe.GetHeader();
	auto ps = probe.GetShapes();
	uint32_t inst2 = ps[1]->SkinInstanceRef()->index;
	uint32_t part1 = hdr.GetBlock<NiSkinInstance>(ps[0]->SkinInstanceRef())->skinPartitionRef.index;
	uint32_t part2 = hdr.GetBlock<NiSkinInstance>(ps[1]->SkinInstanceRef())->skinPartitionRef.index;
	// block offsets: the file ends with an 8-byte footer preceded by the blocks in order
	size_t total = 8; for (uint32_t i = 0; i < hdr.GetNumBlocks(); i++) total += hdr.GetBlockSize(i);
	size_t off = bytes.size() - total; for (uint32_t i = 0; i < inst2; i++) off += hdr.GetBlockSize(i);
	uint32_t cur; std::memcpy(&cur, &bytes[off + 4], 4);   // NiSkinInstance: dataRef, skinPartitionRef, ...
	if (cur != part2) { std::cout << "layout assumption failed (" << cur << " vs " << part2 << ")\n"; return 2; }
	std::memcpy(&bytes[off + 4], &part1, 4);
	std::cout << "redirected skin partition ref of block " << inst2 << " from " << part2 << " to " << part1 << "\n";
	NifFile victim; std::stringstream p2(bytes);
	int rc = victim.Load(p2);
	std::cout << "load of the corrupted file returned " << rc << "\n";
	return 0;
}
