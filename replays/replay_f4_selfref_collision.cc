#include "NifFile.hpp"
#include "bhk.hpp"
#include <sstream>
#include <iostream>
using namespace nifly;
int main(){
  NifFile n; int rc=n.Load(std::filesystem::path("/repo/tests/input/TestNifFile_Furniture_Col_SE.nif")); std::cout<<"rc="<<rc<<"\n";
  auto& h=n.GetHeader(); int done=0;
  for(uint32_t i=0;i<h.GetNumBlocks()&&!done;i++){
    if(auto ls=h.GetBlock<bhkListShape>(i)){ ls->subShapeRefs.AddBlockRef(i); std::cout<<"self-ref in bhkListShape "<<i<<"\n"; done=1; }
    else if(auto mo=h.GetBlock<bhkMoppBvTreeShape>(i)){ mo->shapeRef.index=i; std::cout<<"self-ref in bhkMoppBvTreeShape "<<i<<"\n"; done=1; }
    else if(auto ts=h.GetBlock<bhkTransformShape>(i)){ ts->shapeRef.index=i; std::cout<<"self-ref in bhkTransformShape "<<i<<"\n"; done=1; }
  }
  if(!done){ for(uint32_t i=0;i<h.GetNumBlocks();i++) std::cout<<i<<" "<<h.GetBlockTypeStringById(i)<<"\n"; return 0; }
  std::ostringstream os; std::cout<<"saving...\n"<<std::flush; n.Save(os); std::cout<<"saved "<<os.str().size()<<"\n";
}
