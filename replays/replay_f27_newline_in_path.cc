// F27 (C19): the pattern that strips everything before the textures folder spans with `.*?`; in ECMAScript `.` never matches CR / LF,
// and trim_whitespace only removes them at the ends: a path with a line break inside keeps its directory prefix (written by a
// bug-hunting sub-agent that saw only the property text; paths adapted).
// C19 demo 1: a line terminator inside the path hides everything in front of it from the
// "strip what precedes \textures\" step ('.' in ECMAScript regex does not match \n / \r).
#include "NifFile.hpp"
#include <iostream>
#include <sstream>
using namespace nifly;
static std::string esc(const std::string& s){ std::string o; char b[8]; for(unsigned char c: s){ if(c<32||c>126){ snprintf(b,8,"\\x%02x",c); o+=b;} else o+=c;} return o; }
static std::string lower(std::string s){ for(auto& c: s) c=(char)tolower((unsigned char)c); return s; }
static int failures = 0;
static void fail(const std::string& msg){ std::cout << "VIOLATION: " << msg << "\n"; failures++; }
// Set slot 0 of the first shape, save to memory, load again (load cleans automatically), return slot 0.
static bool roundtrip(const char* file, bool terrain, const std::string& path, std::string& afterLoad, std::string& afterClean, std::string& afterClean2){
  NifFile a; NifLoadOptions lo; lo.isTerrain = terrain;
  if (a.Load(file, lo) != 0) { std::cout << "cannot load " << file << "\n"; return false; }
  auto shapes = a.GetShapes(); if (shapes.empty()) return false;
  std::string p = path; a.SetTextureSlot(shapes[0], p, 0);
  std::stringstream ss(std::ios::in | std::ios::out | std::ios::binary);
  if (a.Save(ss) != 0) { std::cout << "cannot save\n"; return false; }
  ss.seekg(0);
  NifFile b; if (b.Load(ss, lo) != 0) { std::cout << "cannot reload\n"; return false; }
  auto sb = b.GetShapes(); if (sb.empty()) return false;
  b.GetTextureSlot(sb[0], afterLoad, 0);
  b.TrimTexturePaths(); b.GetTextureSlot(sb[0], afterClean, 0);
  b.TrimTexturePaths(); b.GetTextureSlot(sb[0], afterClean2, 0);
  return true;
}
int main(){
  const char* se = "/repo/tests/input/TestNifFile_Static_SE.nif";
  const char* ob = "/repo/tests/input/TestNifFile_Skinned_OB.nif";
  struct { const char* file; const char* in; const char* want; } cases[] = {
    { se, "C:\\My\nMods\\Data\\Textures\\white.dds", "textures\\white.dds" },
    { se, "mods\r\\textures\\white.dds",             "textures\\white.dds" },
    { ob, "C:\\My\nMods\\Data\\Textures\\white.dds", "white.dds" },
  };
  // control: same paths without the line terminator
  { std::string l,c1,c2; if(!roundtrip(se,false,"C:\\My Mods\\Data\\Textures\\white.dds",l,c1,c2)) return 2;
    std::cout << "control  [C:\\My Mods\\Data\\Textures\\white.dds] -> [" << esc(l) << "]\n"; }
  for (auto& c : cases) {
    std::string l,c1,c2; if(!roundtrip(c.file,false,c.in,l,c1,c2)) return 2;
    std::cout << "input    [" << esc(c.in) << "] -> after load [" << esc(l) << "] -> after explicit clean-up [" << esc(c1) << "]\n";
    // "nothing before the textures folder": no "\textures\" may remain after position 0
    if (lower(l).find("\\textures\\") != std::string::npos)
      fail("after load, [" + esc(l) + "] still has a directory prefix in front of a textures folder (expected [" + c.want + "])");
  }
  return failures ? 1 : 0;
}
