// Known finding (C01 R1.10): BSTriShape::CalcDataSizes reserves 4 bytes and an offset for the second UV set when HasSecondUVs(), but neither
// BSTriShape::Sync nor NiSkinPartition::Sync streams it: a FO4 file with the flag never reaches a fixed point (written by a bug-hunting
// sub-agent that saw only the property text; paths adapted).
// demo_1: BSTriShape / BSSubIndexTriShape with the second-UV vertex flag (VF_UV_2) never reaches a
// byte-level fixed point, neither under the raw (no sort, no optimize) save nor under the default save.
//
// Scenario (public API only): create an FO4 file, add a 4-vertex quad with CreateShapeFromData(),
// enable the second UV channel with BSTriShape::SetSecondUVs(true), save it. The result F0 is a file the
// library accepts (Load returns 0). Then repeat load -> raw save: F1 = save(load(F0)), F2 = save(load(F1)), ...
// C01 says F1 must load and F2 must be byte-identical to F1; with the default (optimize + sort) save the
// sequence D1, D2, D3, ... must be constant from D2 on.
//
// Exit code 0 = property holds, 1 = violated.

#include "NifFile.hpp"

#include <cstdio>
#include <sstream>

using namespace nifly;

static int LoadSave(const std::string& in, std::string& out, const char* tag, bool raw) {
	NifFile nif;
	std::istringstream is(in, std::ios::binary);
	int rc = nif.Load(is);
	if (rc != 0) {
		std::printf("  %s: Load failed rc=%d\n", tag, rc);
		return rc;
	}

	NifSaveOptions opts; // default: optimize + sort
	if (raw) {
		opts.optimize = false;
		opts.sortBlocks = false;
	}

	std::ostringstream os(std::ios::binary);
	rc = nif.Save(os, opts);
	out = os.str();

	for (auto s : nif.GetShapes()) {
		auto b = dynamic_cast<BSTriShape*>(s);
		if (b)
			std::printf("  %s: shape '%s' verts=%u tris=%u vertexSize=%u dataSize=%u extraFloatsPerVertex=%zu -> file %zu bytes\n",
						tag,
						b->name.get().c_str(),
						b->GetNumVertices(),
						b->GetNumTriangles(),
						b->vertexSize,
						b->dataSize,
						b->vertData.empty() ? size_t(0) : b->vertData[0].extra.size(),
						out.size());
	}
	return rc;
}

static int RunFor(const NiVersion& version, const char* verName) {
	std::printf("== %s (stream %u)\n", verName, version.Stream());

	NifFile nif;
	nif.Create(version);

	std::vector<Vector3> verts = {{0, 0, 0}, {1, 0, 0}, {0, 1, 0}, {1, 1, 0}};
	std::vector<Triangle> tris = {{0, 1, 2}, {1, 3, 2}};
	std::vector<Vector2> uvs = {{0, 0}, {1, 0}, {0, 1}, {1, 1}};
	std::vector<Vector3> norms = {{0, 0, 1}, {0, 0, 1}, {0, 0, 1}, {0, 0, 1}};

	auto shape = dynamic_cast<BSTriShape*>(nif.CreateShapeFromData("quad", &verts, &tris, &uvs, &norms));
	if (!shape) {
		std::printf("  could not create BSTriShape\n");
		return 2;
	}

	shape->SetSecondUVs(true); // public API, sets VF_UV_2 in the vertex description

	NifSaveOptions opts;
	opts.optimize = false;
	opts.sortBlocks = false;

	std::ostringstream os(std::ios::binary);
	nif.Save(os, opts);
	std::string f0 = os.str();
	std::printf("  F0 written from API: %zu bytes (in memory: vertexSize=%u dataSize=%u)\n", f0.size(), shape->vertexSize, shape->dataSize);

	int bad = 0;

	// raw save: F1 must be a fixed point (F2 == F1)
	std::string prev = f0;
	std::string files[5];
	for (int round = 1; round <= 4; round++) {
		char tag[16];
		std::snprintf(tag, sizeof tag, "raw F%d", round);
		if (LoadSave(prev, files[round], tag, true) != 0)
			return 1;
		if (round >= 2) {
			bool same = files[round] == files[round - 1];
			std::printf("  raw F%d == F%d ? %s\n", round, round - 1, same ? "yes" : "NO");
			if (!same)
				bad = 1;
		}
		prev = files[round];
	}

	// default save (optimize + sort): must converge within two rounds (D3 == D2)
	prev = f0;
	for (int round = 1; round <= 4; round++) {
		char tag[16];
		std::snprintf(tag, sizeof tag, "def D%d", round);
		if (LoadSave(prev, files[round], tag, false) != 0)
			return 1;
		if (round >= 3) {
			bool same = files[round] == files[round - 1];
			std::printf("  default D%d == D%d ? %s\n", round, round - 1, same ? "yes" : "NO");
			if (!same)
				bad = 1;
		}
		prev = files[round];
	}
	return bad;
}

int main() {
	int rc = 0;
	rc |= RunFor(NiVersion::getFO4(), "FO4");
	rc |= RunFor(NiVersion::getFO76(), "FO76");
	rc |= RunFor(NiVersion::getSSE(), "SSE");

	if (rc)
		std::printf("VIOLATION: neither the raw nor the default save of an accepted file reaches a fixed point (second UV flag)\n");
	else
		std::printf("OK: fixed point reached\n");
	return rc ? 1 : 0;
}
