#include "NifFile.hpp"
#include "Animation.hpp"
#include "Shaders.hpp"
#include <sstream>
#include <fstream>
#include <iostream>
using namespace nifly;
static std::string save(NifFile& n, bool raw){ std::ostringstream os; NifSaveOptions o; if(raw){o.optimize=false;o.sortBlocks=false;} n.Save(os,o); return os.str(); }
int main(int argc,char**argv){
  std::string which=argv[1];
  if(which=="F3"){
    NifFile n; n.Create(NiVersion::getSK());
    auto& h=n.GetHeader();
    // node with controller manager-less chain: attach blend interp via a controller on root
    auto ctrl=std::make_unique<NiTransformController>();
    auto blend=std::make_unique<NiBlendTransformInterpolator>();
    blend->flags=INTERP_BLEND_NONE; blend->arraySize=1; blend->interpItems.resize(1);
    auto ti=std::make_unique<NiTransformInterpolator>();
    // loose block first so pruning shifts indices
    uint32_t looseId=h.AddBlock(std::make_unique<NiNode>());
    uint32_t tiId=h.AddBlock(std::move(ti));
    blend->interpItems[0].interpolatorRef.index=tiId;
    uint32_t blendId=h.AddBlock(std::move(blend));
    ctrl->interpolatorRef.index=blendId; ctrl->targetRef.index=0;
    uint32_t cId=h.AddBlock(std::move(ctrl));
    n.GetRootNode()->controllerRef.index=cId;
    std::cout<<"before: blend item ref="<<tiId<<" type="<<h.GetBlockTypeStringById(tiId)<<" loose="<<looseId<<"\n";
    std::string out=save(n,false);
    std::istringstream is(out); NifFile m; int rc=m.Load(is);
    std::cout<<"reload rc="<<rc<<" blocks="<<m.GetHeader().GetNumBlocks()<<"\n";
    for(uint32_t i=0;i<m.GetHeader().GetNumBlocks();i++){
      std::cout<<"  "<<i<<" "<<m.GetHeader().GetBlockTypeStringById(i)<<"\n";
      if(auto b=m.GetHeader().GetBlock<NiBlendTransformInterpolator>(i)){
        uint32_t r=b->interpItems.empty()?NIF_NPOS:b->interpItems[0].interpolatorRef.index;
        std::cout<<"     item ref -> "<<r<<" ("<<m.GetHeader().GetBlockTypeStringById(r)<<")\n";
      }
    }
  }
  if(which=="F1"){
    NifFile n; n.Create(NiVersion::getFO76());
    auto sh=std::make_unique<BSLightingShaderProperty>(n.GetHeader().GetVersion());
    sh->SetShaderType(BSLSP_SKINTINT); sh->skinTintColor=Vector3(0.25f,0.5f,0.75f);
    uint32_t id=n.GetHeader().AddBlock(std::move(sh));
    n.GetRootNode()->extraDataRefs.AddBlockRef(id); // keep referenced
    auto get=[&](NifFile& f){ for(uint32_t i=0;i<f.GetHeader().GetNumBlocks();i++) if(auto b=f.GetHeader().GetBlock<BSLightingShaderProperty>(i)) return b; return (BSLightingShaderProperty*)nullptr; };
    std::cout<<"type before save: "<<get(n)->GetShaderType()<<"\n";
    std::string s1=save(n,true); std::cout<<"type after save1: "<<get(n)->GetShaderType()<<" bytes="<<s1.size()<<"\n";
    std::string s2=save(n,true); std::cout<<"type after save2: "<<get(n)->GetShaderType()<<" bytes="<<s2.size()<<" same="<<(s1==s2)<<"\n";
    std::istringstream is(s1); NifFile m; int rc=m.Load(is); std::cout<<"reload rc="<<rc; if(get(m)) std::cout<<" type="<<get(m)->GetShaderType()<<" tint="<<get(m)->skinTintColor.x; std::cout<<"\n";
    std::string s3=save(m,true); std::cout<<"resave identical="<<(s3==s1)<<"\n";
  }
  if(which=="F2"){
    NifFile n; int rc=n.Load(std::filesystem::path(argv[2])); std::cout<<"rc="<<rc<<" blocks="<<n.GetHeader().GetNumBlocks()<<"\n";
    for(auto s:n.GetShapes()) std::cout<<" shape "<<s->name.get()<<" hasTangents="<<s->HasTangents()<<"\n";
    std::string s1=save(n,true); std::cout<<"after save1 blocks="<<n.GetHeader().GetNumBlocks(); for(auto s:n.GetShapes()) std::cout<<" hasTangents="<<s->HasTangents(); std::cout<<"\n";
    std::string s2=save(n,true); std::cout<<"after save2 blocks="<<n.GetHeader().GetNumBlocks()<<" same="<<(s1==s2)<<" sizes "<<s1.size()<<" "<<s2.size()<<"\n";
  }
  if(which=="F5"){
    std::ifstream f(argv[2],std::ios::binary); std::string all((std::istreambuf_iterator<char>(f)),{});
    size_t cut=std::stoul(argv[3]); std::istringstream is(all.substr(0,cut)); NifFile n; int rc=n.Load(is); std::cout<<"cut "<<cut<<" rc="<<rc<<"\n";
  }
  if(which=="F6"){
    NifFile n; n.Create(NiVersion::getSK());
    auto a=n.AddNode("A",MatTransform()); auto b=n.AddNode("B",MatTransform(),a);
    // corrupt: make A a child of B as well (ancestor cycle), and detach A from root
    b->childRefs.AddBlockRef(n.GetBlockID(a)); n.GetRootNode()->childRefs.Clear();
    MatTransform t; std::cout<<"calling GetNodeTransformToGlobal...\n"<<std::flush; bool ok=n.GetNodeTransformToGlobal("A",t); std::cout<<"returned "<<ok<<"\n";
  }
  if(which=="F8"){
    NifFile n; int rc=n.Load(std::filesystem::path(argv[2])); std::cout<<"rc="<<rc<<"\n";
    for(auto s:n.GetShapes()) if(auto e=dynamic_cast<BSEffectShaderProperty*>(n.GetShader(s))){ e->sourceTexture.get()="  Data/Textures//Foo.dds  "; n.TrimTexturePaths(); std::cout<<"effect tex after trim: ["<<e->sourceTexture.get()<<"]\n"; return 0; }
    std::cout<<"no effect shader\n";
  }
}
