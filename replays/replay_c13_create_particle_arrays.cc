// Known finding (C13 R13.5): BSTriShape::Create re-derives numVertices but leaves the particle arrays (particleVerts, particleNorms;
// sized to the vertex count by BSTriShape::Sync when particleDataSize > 0) at their old length: re-creating a particle shape with
// another vertex count through NifFile::SetVertsForShape leaves per-vertex arrays that do not keep the vertex count.
// build: g++ -std=c++17 -I/repo/include -I/repo/external <this> <libnifly.a>
#include "NifFile.hpp"
#include <cstdio>
using namespace nifly;
int main() {
	NifFile nif;
	nif.Create(NiVersion::getSSE());
	std::vector<Vector3> v = {{0, 0, 0}, {1, 0, 0}, {0, 1, 0}, {1, 1, 0}};
	std::vector<Triangle> t = {Triangle(0, 1, 2), Triangle(1, 3, 2)};
	std::vector<Vector2> uv(4);
	auto shape = nif.CreateShapeFromData("particles", &v, &t, &uv);
	auto bs = dynamic_cast<BSTriShape*>(shape);
	if (!bs) return 2;
	// what a loaded SSE particle shape looks like: a copy of positions / normals per vertex
	bs->particleDataSize = 4 * 12 + 2 * 6;
	bs->particleVerts.assign(v.begin(), v.end());
	bs->particleNorms.resize(4);
	bs->particleTris = t;
	std::vector<Vector3> v6 = {{0, 0, 0}, {1, 0, 0}, {0, 1, 0}, {1, 1, 0}, {2, 0, 0}, {2, 1, 0}};
	nif.SetVertsForShape(shape, v6);
	printf("vertices=%u particleVerts=%zu particleNorms=%zu\n", (unsigned) bs->GetNumVertices(), bs->particleVerts.size(), bs->particleNorms.size());
	if (bs->particleVerts.size() != bs->GetNumVertices() || bs->particleNorms.size() != bs->GetNumVertices()) {
		printf("VIOLATION: the particle arrays did not keep the vertex count\n");
		return 1;
	}
	printf("ok\n");
	return 0;
}
