#include "NifFile.hpp"
#include <sstream>
#include <fstream>
#include <iostream>
#include <iterator>
using namespace nifly;
int main(int argc, char** argv) {
	const char* in = argc > 1 ? argv[1] : "/repo/tests/input/TestNifFile_Static_SE.nif";
	size_t cut = argc > 2 ? std::stoul(argv[2]) : 20;
	std::ifstream f(in, std::ios::binary);
	std::string bytes((std::istreambuf_iterator<char>(f)), std::istreambuf_iterator<char>());
	std::stringstream ss(bytes.substr(0, cut));
	NifFile nif;
	int rc = nif.Load(ss);
	std::cout << "Load of " << cut << "-byte prefix: rc=" << rc << " valid=" << nif.IsValid() << std::endl;
	std::stringstream out;
	int sc = nif.Save(out);
	std::cout << "Save rc=" << sc << " bytes=" << out.str().size() << std::endl;
	return 0;
}
