// Replay of F13/F14 (C05 R5.1): entity pointers nested in ConstraintData are serialised but not enumerated by
// bhkMalleableConstraint / bhkRagdollTemplateData, so deleting an earlier block leaves a stale index.
// Build: g++ -std=c++17 -I<tree>/include -I<tree>/external replay_f13_f14.cc <libnifly.a> -o r && ./r
#include "NifFile.hpp"
#include "bhk.hpp"
#include <iostream>
using namespace nifly;

int main() {
	int bad = 0;
	{
		NifFile nif;
		nif.Create(NiVersion::getSSE());
		auto& hdr = nif.GetHeader();
		auto extra = std::make_unique<NiStringExtraData>(); // block 1, will be deleted
		hdr.AddBlock(std::move(extra));
		auto body = std::make_unique<bhkRigidBody>(); // block 2
		uint32_t bodyId = hdr.AddBlock(std::move(body));
		auto mc = std::make_unique<bhkMalleableConstraint>();
		mc->subConstraint.entityRefs.AddBlockRef(bodyId);
		mc->subConstraint.entityRefs.AddBlockRef(bodyId);
		auto mcp = mc.get();
		hdr.AddBlock(std::move(mc)); // block 3
		hdr.DeleteBlock(1u);
		uint32_t now = mcp->subConstraint.entityRefs.GetBlockRef(0);
		auto target = hdr.GetBlock<bhkRigidBody>(now);
		std::cout << "F13 bhkMalleableConstraint entity ref after deleting block 1: " << now
				  << (target ? " (still the rigid body)" : " (STALE: not the rigid body)") << "\n";
		if (!target)
			bad++;
	}
	{
		NifFile nif;
		nif.Create(NiVersion::getSSE());
		auto& hdr = nif.GetHeader();
		hdr.AddBlock(std::make_unique<NiStringExtraData>()); // block 1
		uint32_t bodyId = hdr.AddBlock(std::make_unique<bhkRigidBody>()); // block 2
		auto rt = std::make_unique<bhkRagdollTemplateData>();
		ConstraintData cd;
		cd.entityRefs.AddBlockRef(bodyId);
		cd.entityRefs.AddBlockRef(bodyId);
		rt->constraints.push_back(cd);
		auto rtp = rt.get();
		hdr.AddBlock(std::move(rt)); // block 3
		hdr.DeleteBlock(1u);
		uint32_t now = rtp->constraints[0].entityRefs.GetBlockRef(0);
		auto target = hdr.GetBlock<bhkRigidBody>(now);
		std::cout << "F14 bhkRagdollTemplateData entity ref after deleting block 1: " << now
				  << (target ? " (still the rigid body)" : " (STALE: not the rigid body)") << "\n";
		if (!target)
			bad++;
	}
	return bad ? 1 : 0;
}
