// Replay of F15 (C15 R15.5): NifFile::GetShapeBoneBounds indexes BSSkinBoneData::boneXforms with the caller's bone
// index without the range test its siblings (GetShapeTransformSkinToBone, the NiSkinData branch) have.
// Scenario inside C15's quantifier: the skin instance's data reference is redirected to a bone-data block with fewer
// bones (here: none) and a read-only query asks for bone 0.
#include "NifFile.hpp"
#include <iostream>
#include <sys/wait.h>
#include <unistd.h>
using namespace nifly;
int main(int argc, char** argv) {
	NifFile nif;
	if (nif.Load(std::filesystem::path(argv[1])) != 0) { std::cout << "load failed\n"; return 2; }
	auto& hdr = nif.GetHeader();
	int bad = 0;
	for (auto shape : nif.GetShapes()) {
		auto inst = hdr.GetBlock<BSSkinInstance>(shape->SkinInstanceRef());
		if (!inst) continue;
		uint32_t emptyId = hdr.AddBlock(std::make_unique<BSSkinBoneData>());
		inst->dataRef.index = emptyId; // corrupted reference: right type, wrong block (0 bones)
		pid_t p = fork();
		if (p == 0) {
			BoundingSphere b;
			bool r = nif.GetShapeBoneBounds(shape, 0, b);
			std::cout << "GetShapeBoneBounds returned " << r << " radius " << b.radius << "\n";
			_exit(r ? 1 : 0);
		}
		int st; waitpid(p, &st, 0);
		if (WIFSIGNALED(st)) { std::cout << shape->name.get() << ": query died with signal " << WTERMSIG(st) << "\n"; bad++; }
		else if (WEXITSTATUS(st) != 0) { std::cout << shape->name.get() << ": query returned true for a bone the data block does not have (read past the array)\n"; bad++; }
		else std::cout << shape->name.get() << ": query returned false (ok)\n";
	}
	return bad ? 1 : 0;
}
