// F23 (C14): NifFile::CloneNamedNode clears collisionRef, controllerRef, childRefs and effectRefs of a bone node it copies into the
// destination, but not extraDataRefs and propertyRefs: those keep the source model's block numbers (written by a bug-hunting sub-agent
// that saw only the property text; paths adapted).  build: g++ -std=c++17 -I/repo/include -I/repo/external <this> <libnifly.a>
// C14 demo 2: bone nodes copied into the destination keep the SOURCE model's extra-data block indices.
// Part A uses a test file as is; part B attaches a string extra data to a bone through the public API.
#include <NifFile.hpp>
#include <iostream>
#include <sstream>
using namespace nifly;

static std::string describe(NifFile& n, uint32_t idx) {
	auto b = n.GetHeader().GetBlock<NiObject>(idx);
	if (!b) return "block " + std::to_string((int) idx) + " <does not exist, file has " + std::to_string(n.GetHeader().GetNumBlocks()) + " blocks>";
	return "block " + std::to_string(idx) + " " + b->GetBlockName();
}

// Every extra-data ref of every node in `n` must resolve to an NiExtraData block. Returns the number of refs that do not.
static int checkNodeExtraData(NifFile& n, const char* what) {
	int bad = 0;
	for (auto node : n.GetNodes()) {
		std::vector<uint32_t> idx;
		node->extraDataRefs.GetIndices(idx);
		for (auto i : idx) {
			if (i == NIF_NPOS) continue;
			if (!n.GetHeader().GetBlock<NiExtraData>(i)) {
				std::cout << what << ": node '" << node->name.get() << "' extra data ref -> " << describe(n, i) << "\n";
				bad++;
			}
		}
	}
	return bad;
}

int main() {
	int bad = 0;

	// ---- Part A: unmodified test file into a fresh model of the same version
	{
		NifFile src;
		if (src.Load("/repo/tests/input/TestNifFile_Animated_LE.nif") != 0) { std::cout << "cannot load A\n"; return 2; }
		if (checkNodeExtraData(src, "A source") != 0) { std::cout << "unexpected source\n"; return 2; }
		NifFile dst;
		dst.Create(src.GetHeader().GetVersion());
		auto shape = src.GetShapes()[0];
		if (!dst.CloneShape(shape, shape->name.get(), &src)) { std::cout << "clone failed\n"; return 2; }
		bad += checkNodeExtraData(dst, "A destination after CloneShape");
		std::stringstream ss;
		dst.Save(ss);
		NifFile re;
		if (re.Load(ss) != 0) { std::cout << "A: reload failed\n"; bad++; }
		else bad += checkNodeExtraData(re, "A destination after save+reload");
	}

	// ---- Part B: the node is a bone of the cloned shape
	{
		NifFile built;
		if (built.Load("/repo/tests/input/TestNifFile_Skinned_SE.nif") != 0) { std::cout << "cannot load B\n"; return 2; }
		auto boneA = built.FindBlockByName<NiNode>("BoneA");
		if (!boneA) { std::cout << "BoneA missing\n"; return 2; }
		auto ed = std::make_unique<NiStringExtraData>();
		ed->name.get() = "UPB";
		ed->stringData.get() = "bone marker";
		built.AssignExtraData(boneA, std::move(ed));
		std::stringstream s0;
		built.Save(s0);
		NifFile src;
		if (src.Load(s0) != 0) { std::cout << "cannot reload B\n"; return 2; }
		if (checkNodeExtraData(src, "B source") != 0) { std::cout << "unexpected source\n"; return 2; }

		NifFile dst;
		dst.Create(src.GetHeader().GetVersion());
		auto shape = src.FindBlockByName<NiShape>("cylinder_1");
		auto clone = dst.CloneShape(shape, "cylinder_1", &src);
		if (!clone) { std::cout << "clone failed\n"; return 2; }

		std::vector<std::string> bones;
		dst.GetShapeBoneList(clone, bones);
		std::cout << "B: clone bones:";
		for (auto& b : bones) std::cout << " " << b;
		std::cout << "\n";

		auto dBoneA = dst.FindBlockByName<NiNode>("BoneA");
		if (!dBoneA) { std::cout << "B: BoneA missing in destination\n"; bad++; }
		else {
			std::vector<uint32_t> idx;
			dBoneA->extraDataRefs.GetIndices(idx);
			for (auto i : idx) {
				auto sed = dst.GetHeader().GetBlock<NiStringExtraData>(i);
				if (!sed || sed->stringData.get() != "bone marker") {
					std::cout << "B destination: bone 'BoneA' extra data ref -> " << describe(dst, i) << " (source: NiStringExtraData 'bone marker')\n";
					bad++;
				}
			}
		}
		std::stringstream ss;
		dst.Save(ss);
		NifFile re;
		if (re.Load(ss) != 0) { std::cout << "B: reload failed\n"; bad++; }
		else bad += checkNodeExtraData(re, "B destination after save+reload");
	}

	if (bad) { std::cout << "VIOLATION: " << bad << " stale reference(s) in nodes that CloneShape copied into the destination\n"; return 1; }
	std::cout << "ok\n";
	return 0;
}
