#include "NifFile.hpp"
#include <sstream>
#include <fstream>
#include <iostream>
#include <sys/wait.h>
#include <unistd.h>
using namespace nifly;
int main(int argc,char**argv){
  std::ifstream f(argv[1],std::ios::binary); std::string all((std::istreambuf_iterator<char>(f)),{});
  int bad=0;
  for(size_t cut=0;cut<all.size();cut++){
    pid_t p=fork();
    if(p==0){ std::istringstream is(all.substr(0,cut)); NifFile n; n.Load(is); _exit(0); }
    int st; waitpid(p,&st,0);
    if(WIFSIGNALED(st)){ if(bad<10) std::cout<<"cut="<<cut<<" signal="<<WTERMSIG(st)<<"\n"; bad++; }
  }
  std::cout<<"total cuts="<<all.size()<<" crashing="<<bad<<"\n";
}
