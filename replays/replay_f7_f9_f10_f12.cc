#include "NifFile.hpp"
#include "Skin.hpp"
#include <sstream>
#include <iostream>
using namespace nifly;
static std::string save(NifFile& n, bool raw){ std::ostringstream os; NifSaveOptions o; if(raw){o.optimize=false;o.sortBlocks=false;} n.Save(os,o); return os.str(); }
int main(int argc,char**argv){
  std::string which=argv[1];
  std::vector<Vector3> v{{0,0,0},{1,0,0},{0,1,0},{1,1,0}}; std::vector<Triangle> t{Triangle(0,1,2),Triangle(1,3,2)}; std::vector<Vector2> uv{{0,0},{1,0},{0,1},{1,1}};
  if(which=="F7"){
    NifFile n; n.Create(NiVersion::getSK()); auto s=n.CreateShapeFromData("S",&v,&t,&uv);
    auto d=n.GetHeader().GetBlock<NiTriShapeData>(s->DataRef()); MatchGroup mg; mg.count=2; mg.matches={0,1}; d->SetMatchGroups({mg});
    std::string s1=save(n,true), s2=save(n,true); std::cout<<"save1="<<s1.size()<<" save2="<<s2.size()<<" same="<<(s1==s2)<<" groups now="<<d->GetMatchGroups().size()<<"\n";
  }
  if(which=="F12"){
    NifFile n; n.Create(NiVersion::getSK()); auto s=n.CreateShapeFromData("S",&v,&t,&uv); n.CreateSkinning(s);
    NiSkinData* sd=nullptr; for(uint32_t i=0;i<n.GetHeader().GetNumBlocks();i++) if(auto x=n.GetHeader().GetBlock<NiSkinData>(i)) sd=x;
    sd->hasVertWeights=2; std::string s1=save(n,true), s2=save(n,true); std::cout<<"same="<<(s1==s2)<<" hasVertWeights now="<<int(sd->hasVertWeights)<<"\n";
  }
  if(which=="F9"){
    NifFile n; n.Create(NiVersion::getSSE()); auto s=dynamic_cast<BSTriShape*>(n.CreateShapeFromData("S",&v,&t,&uv));
    s->particleDataSize=4*6+2*3; s->particleVerts={{10,0,0},{11,0,0},{12,0,0},{13,0,0}}; s->particleNorms.assign(4,Vector3(0,0,1)); s->particleTris=t;
    n.DeleteVertsForShape(s,{0});
    std::cout<<"verts="<<s->GetNumVertices()<<" particleVerts="<<s->particleVerts.size()<<" first particle x="<<s->particleVerts[0].x<<" (vertex 0 was deleted; expected first remaining = 11)\n";
    std::string o=save(n,true); std::istringstream is(o); NifFile m; m.Load(is); auto s2=dynamic_cast<BSTriShape*>(m.GetShapes()[0]);
    std::cout<<"reloaded particleVerts="<<s2->particleVerts.size(); for(auto&p:s2->particleVerts) std::cout<<" "<<p.x; std::cout<<"  particleTris="<<s2->particleTris.size()<<" tris="<<s2->GetNumTriangles()<<"\n";
  }
  if(which=="F10"){
    NifFile n; n.Create(NiVersion::getSK()); n.CreateShapeFromData("A",&v,&t,&uv); n.CreateShapeFromData("A",&v,&t,&uv);
    auto kids=[&]{ std::vector<uint32_t> k; n.GetRootNode()->childRefs.GetIndices(k); for(auto i:k) std::cout<<" "<<i<<"("<<n.GetHeader().GetBlockTypeStringById(i)<<")"; std::cout<<"\n"; };
    std::cout<<"children before:"; kids(); n.SetShapeOrder({"A","A"}); std::cout<<"children after SetShapeOrder({A,A}):"; kids();
  }
}
