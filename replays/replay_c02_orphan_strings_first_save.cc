// Known finding (C02 R2.8): NifFile::Save rebuilds the header string table (FinalizeData -> UpdateHeaderStrings) before Optimize() deletes the
// unreferenced blocks: save #1 still carries the strings of blocks it deletes, save #2 does not (written by a bug-hunting sub-agent; paths adapted).
// C02 demo 3: the first Save writes header strings that belong to blocks it deletes in the same call;
// the second Save of the unchanged model no longer writes them.  The two outputs therefore carry different
// string tables (different set and count, not just a renumbering) and the header's string queries answer
// differently after save #1 and after save #2.
//
// Scenario (edited model): load the FO4 static test file and give shape "cylinder_1" a new lighting shader
// (a new BSLightingShaderProperty block whose name is the material path).  The old shader
// 'Materials\Default.bgsm' and its texture set are no longer referenced; Save's default "optimize" option
// removes such blocks.  Save the same NifFile three times with default options.
//
// exit 0 = the saves carry the same strings, 1 = violation, 2 = set-up problem

#include "NifFile.hpp"

#include <algorithm>
#include <iostream>
#include <memory>
#include <set>
#include <sstream>
#include <string>
#include <vector>

using namespace nifly;

struct Parsed {
	bool ok = false;
	uint32_t numBlocks = 0;
	std::vector<std::string> headerStrings; // as stored in the file
	std::set<std::string> usedStrings;		// strings actually referenced by a block of the file
};

static Parsed Parse(const std::string& bytes) {
	Parsed p;
	std::stringstream ss(bytes);
	NifFile n;
	if (n.Load(ss) != 0)
		return p;

	auto& h = n.GetHeader();
	p.numBlocks = h.GetNumBlocks();
	for (uint32_t i = 0; i < h.GetStringCount(); i++)
		p.headerStrings.push_back(h.GetStringById(i));

	for (uint32_t i = 0; i < h.GetNumBlocks(); i++) {
		std::vector<NiStringRef*> refs;
		h.GetBlock<NiObject>(i)->GetStringRefs(refs);
		for (auto r : refs)
			if (r->GetIndex() != NIF_NPOS)
				p.usedStrings.insert(r->get());
	}

	p.ok = true;
	return p;
}

int main() {
	NifFile nif;
	if (nif.Load("/repo/tests/input/TestNifFile_Static_FO4.nif") != 0) {
		std::cout << "cannot load input\n";
		return 2;
	}

	NiShape* shape = nif.FindBlockByName<NiShape>("cylinder_1");
	if (!shape || !shape->HasShaderProperty())
		return 2;

	// The edit: point the shape at a new shader block.
	auto newShader = std::make_unique<BSLightingShaderProperty>(nif.GetHeader().GetVersion());
	newShader->name.get() = "Materials\\Replacement.bgsm";
	uint32_t newId = nif.GetHeader().AddBlock(std::move(newShader));
	shape = nif.FindBlockByName<NiShape>("cylinder_1");
	shape->ShaderPropertyRef()->index = newId;

	std::string out[3];
	uint32_t liveStringCount[3];
	for (int k = 0; k < 3; k++) {
		std::stringstream ss;
		if (nif.Save(ss) != 0) // default options: optimize + sortBlocks
			return 2;
		out[k] = ss.str();
		liveStringCount[k] = nif.GetHeader().GetStringCount(); // read-only query on the live model
	}

	Parsed p[3];
	for (int k = 0; k < 3; k++) {
		p[k] = Parse(out[k]);
		if (!p[k].ok) {
			std::cout << "save #" << (k + 1) << " does not load\n";
			return 2;
		}
	}

	for (int k = 0; k < 3; k++) {
		std::cout << "save #" << (k + 1) << ": " << out[k].size() << " bytes, " << p[k].numBlocks << " blocks, "
				  << p[k].headerStrings.size() << " header strings (live GetStringCount() after the save: "
				  << liveStringCount[k] << ")\n";
	}

	auto sorted = [](std::vector<std::string> v) {
		std::sort(v.begin(), v.end());
		return v;
	};

	// Compare the string tables as sets, i.e. modulo any renumbering.
	bool same12 = sorted(p[0].headerStrings) == sorted(p[1].headerStrings);
	bool same23 = sorted(p[1].headerStrings) == sorted(p[2].headerStrings);
	bool blocksSame = p[0].numBlocks == p[1].numBlocks && p[1].numBlocks == p[2].numBlocks;

	if (same12 && same23 && blocksSame && liveStringCount[0] == liveStringCount[1]) {
		std::cout << "OK: all saves carry the same strings\n";
		return 0;
	}

	std::cout << "strings in the header of save #1 that no block of save #1 uses:\n";
	for (auto& s : p[0].headerStrings)
		if (!p[0].usedStrings.count(s))
			std::cout << "   '" << s << "'\n";

	std::cout << "strings in save #1 but not in save #2:\n";
	for (auto& s : p[0].headerStrings)
		if (std::find(p[1].headerStrings.begin(), p[1].headerStrings.end(), s) == p[1].headerStrings.end())
			std::cout << "   '" << s << "'\n";

	std::cout << "VIOLATION: the second save of the unchanged model drops strings the first save wrote "
				 "(same blocks, different string table)\n";
	return 1;
}
