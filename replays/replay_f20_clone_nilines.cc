// F20 (C14): NifFile::CloneShape re-points the clone's cached geometry-data pointer only when the destination data block is a
// NiTriBasedGeomData.  NiLinesData derives from NiGeometryData directly, so the clone of a NiLines shape keeps the pointer
// NiLines::Clone() copied from the source: the clone's geometry accessors read and write the SOURCE's block (and dangle once
// the source model is destroyed).
// build: g++ -std=c++17 -I/repo/include -I/repo/external replay_f20_clone_nilines.cc <libnifly.a> -o replay && ./replay
#include "NifFile.hpp"
#include <cstdio>
using namespace nifly;
int main() {
	NifFile src;
	src.Create(NiVersion::getSK());
	auto& hdr = src.GetHeader();
	auto data = std::make_unique<NiLinesData>();
	data->SetVertices(true);
	data->vertices = {Vector3(0, 0, 0), Vector3(1, 0, 0), Vector3(0, 1, 0)};
	data->SetVertices(true);
	data->lineFlags.resize(3, 1);
	auto* srcDataPtr = data.get();
	uint32_t dataId = hdr.AddBlock(std::move(data));
	auto lines = std::make_unique<NiLines>();
	lines->name.get() = "lines";
	lines->DataRef()->index = dataId;
	lines->SetGeomData(srcDataPtr);
	auto* linesPtr = lines.get();
	uint32_t shapeId = hdr.AddBlock(std::move(lines));
	src.GetRootNode()->childRefs.AddBlockRef(shapeId);

	NifFile dst;
	dst.Create(NiVersion::getSK());
	NiShape* clone = dst.CloneShape(linesPtr, "lines_clone", &src);
	if (!clone) { printf("clone failed\n"); return 2; }
	auto* destBlock = dst.GetHeader().GetBlock<NiGeometryData>(clone->DataRef());
	int bad = 0;
	if (!destBlock) { printf("clone's data ref does not resolve in the destination\n"); return 2; }
	if (clone->GetGeomData() != destBlock) {
		printf("VIOLATION: the clone's geometry accessor returns %s block, not the destination block its data ref names\n",
			   clone->GetGeomData() == srcDataPtr ? "the SOURCE model's" : "another");
		bad = 1;
	}
	// editing the clone must not change the source
	std::vector<Vector3> moved = {Vector3(5, 5, 5), Vector3(6, 6, 6), Vector3(7, 7, 7)};
	clone->GetGeomData()->vertices = moved;
	if (srcDataPtr->vertices[0].x != 0) { printf("VIOLATION: editing the clone changed the source's vertices\n"); bad = 1; }
	if (!bad) printf("ok: clone of NiLines is self-contained\n");
	return bad;
}
