#!/bin/bash
# usage: tools/try_patch.sh [-R] <patch-file> <check-id>...   applies the patch to /repo, runs the checks, always reverts
set -u
REV=""
if [ "$1" = "-R" ]; then REV="-R"; shift; fi
P="$1"; shift
cd /repo || exit 2
if [ -n "$(git status --porcelain --untracked-files=no)" ]; then echo "/repo has local modifications, refusing"; exit 2; fi
git apply $REV "$P" || { echo "patch does not apply"; exit 2; }
cd /verif
for c in "$@"; do
  ./check "$c" 2>&1 | grep -v "^WARNING" | grep -E "^VIOLATION|^KNOWN|^ANALYSIS|^  rule|exit [0-9]$" | cut -c1-220
done
git -C /repo checkout -- . 
