#!/bin/bash
# runs every registered check (quick by default) on the current /repo tree and validates MANIFEST + evidence files
TIER=${1:-quick}
cd /verif
if [ -n "$(git -C /repo status --porcelain --untracked-files=no)" ]; then echo "WARNING: /repo has local modifications"; fi
rc=0
for id in $(/usr/bin/python3 -c "import json; print(' '.join(c['property_id'] for c in json.load(open('MANIFEST.json'))['checks']))"); do
  out=$(./check $id --tier $TIER 2>&1 | grep -v "^WARNING" | tail -1)
  echo "$out"
  echo "$out" | grep -q "exit 0" || rc=1
done
python3-vt - <<'PY' || rc=1
import json, jsonschema
m=json.load(open('/verif/MANIFEST.json'))
jsonschema.validate(m, json.load(open('/root/.vp/MANIFEST.schema.json')))
es=json.load(open('/root/.vp/EVIDENCE.schema.json'))
bad=0
for c in m['checks']:
    e=json.load(open(c['evidence_file']))
    jsonschema.validate(e, es)
    cov=e['coverage']
    if e['level']=='proof' and cov.get('obligations')!=cov.get('discharged'):
        print('evidence', c['property_id'], 'discharged != obligations'); bad=1
    if e.get('violations'):
        print('evidence', c['property_id'], 'records violations'); bad=1
print('manifest + %d evidence files valid' % len(m['checks']) if not bad else 'EVIDENCE PROBLEM')
raise SystemExit(bad)
PY
exit $rc
