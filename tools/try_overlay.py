#!/usr/bin/python3
"""usage: tools/try_overlay.py <patch> [ids…]  — analyse /repo's current sources with <patch> applied as clang virtual-file
overlays (nothing written to /repo) and print the violation keys every named rule module (default: all registered) reports."""
import importlib, json, os, shutil, sys
V = "/verif"
sys.path[:0] = [V + "/lib", V + "/rules"]
sys.setrecursionlimit(20000)
import facts, report, selftest, flow, versions

patch = os.path.abspath(sys.argv[1])
ids = sys.argv[2:] or [c["property_id"] for c in json.load(open(V + "/MANIFEST.json"))["checks"]]
r = selftest._patched_files(patch)
if r is None:
    print("patch does not apply"); sys.exit(2)
overlays, d = r
try:
    Fm = facts.Facts.load("/repo", overlays=overlays)
    known = {k["key"] for k in json.load(open(V + "/known_findings.json"))["findings"] if k.get("status") == "known"}
    for pid in ids:
        flow.KEYNODE.clear(); versions.VERSION_LOCALS.clear()
        sub = report.Check(pid, "quick", "other")
        try:
            importlib.import_module(pid.lower()).run(Fm, sub)
        except Exception as e:
            sub.broken.append(repr(e))
        vs = [v for v in sub.viol if v["key"] not in known]
        print(pid, "->", "BROKEN %s" % sub.broken if sub.broken else "", len(vs), "violations")
        for v in vs[:8]:
            print("    ", v["key"], "|", v.get("where"), "|", (v.get("msg") or v.get("message") or "")[:int(__import__("os").environ.get("MSGLEN","220"))])
finally:
    shutil.rmtree(d, ignore_errors=True)
