// nifly-ast: libTooling fact extractor for the nifly verification rules.
//
// Usage: nifly-ast --root=/repo --out=unit.json [--overlay=orig=replacement]... file.cpp -- <flags>
//
// Dumps, for every declaration whose definition lies in a file under --root:
//   records   (bases as written, fields with sugared+canonical types, layout, method summary)
//   enums     (enumerators with values)
//   functions (statement/expression trees with resolved callees and member identities)
//   globals   (namespace-scope / static-member / function-local static variables)
// Everything is resolved through clang's type-checked AST; no text matching.

#include "clang/AST/ASTConsumer.h"
#include "clang/AST/ASTContext.h"
#include "clang/AST/CXXInheritance.h"
#include "clang/Lex/Lexer.h"
#include "clang/AST/DeclCXX.h"
#include "clang/AST/DeclTemplate.h"
#include "clang/AST/ExprCXX.h"
#include "clang/AST/RecordLayout.h"
#include "clang/AST/RecursiveASTVisitor.h"
#include "clang/AST/StmtCXX.h"
#include "clang/Frontend/CompilerInstance.h"
#include "clang/Frontend/FrontendAction.h"
#include "clang/Tooling/CommonOptionsParser.h"
#include "clang/Tooling/Tooling.h"
#include "llvm/Support/CommandLine.h"
#include "llvm/Support/JSON.h"
#include "llvm/Support/MemoryBuffer.h"
#include "llvm/Support/raw_ostream.h"

#include <map>
#include <set>
#include <string>
#include <vector>

using namespace clang;
using namespace clang::tooling;
namespace json = llvm::json;

static llvm::cl::OptionCategory Cat("nifly-ast options");
static llvm::cl::opt<std::string> OptRoot("root", llvm::cl::desc("source root; only decls defined below it are dumped"),
										  llvm::cl::init("/repo"), llvm::cl::cat(Cat));
static llvm::cl::opt<std::string> OptOut("out", llvm::cl::desc("output json file"), llvm::cl::Required, llvm::cl::cat(Cat));
static llvm::cl::list<std::string> OptOverlay("overlay", llvm::cl::desc("orig=replacement virtual file mapping"),
											  llvm::cl::cat(Cat));

namespace {

class Dumper {
public:
	ASTContext& Ctx;
	SourceManager& SM;
	PrintingPolicy PP;
	std::string Root;

	json::Array Records, Enums, Functions, Globals;
	std::set<const FunctionDecl*> SeenFns;
	std::set<const CXXRecordDecl*> SeenRecs;
	std::vector<std::pair<const FunctionDecl*, std::string>> LambdaQueue;
	std::map<const Decl*, int> DeclIds;
	std::string CurFn;

	Dumper(ASTContext& C)
		: Ctx(C)
		, SM(C.getSourceManager())
		, PP(C.getLangOpts()) {
		PP.SuppressTagKeyword = true;
		PP.Bool = true;
		PP.SuppressUnwrittenScope = false;
		PP.FullyQualifiedName = true;
		PP.PrintCanonicalTypes = false;
		Root = OptRoot;
		if (!Root.empty() && Root.back() != '/')
			Root += '/';
	}

	int declId(const Decl* D) {
		D = D->getCanonicalDecl();
		auto it = DeclIds.find(D);
		if (it != DeclIds.end())
			return it->second;
		int id = (int) DeclIds.size() + 1;
		DeclIds[D] = id;
		return id;
	}

	std::string fileOf(SourceLocation L) {
		L = SM.getExpansionLoc(L);
		if (L.isInvalid())
			return "";
		return SM.getFilename(L).str();
	}

	bool inRoot(SourceLocation L) {
		std::string f = fileOf(L);
		if (f.empty() || f.compare(0, Root.size(), Root) != 0)
			return false;
		// third-party headers vendored under external/ are not nifly code
		return f.compare(Root.size(), 9, "external/") != 0;
	}

	std::string relFile(SourceLocation L) {
		std::string f = fileOf(L);
		if (f.compare(0, Root.size(), Root) == 0)
			return f.substr(Root.size());
		return f;
	}

	std::string locStr(SourceLocation L) {
		L = SM.getExpansionLoc(L);
		if (L.isInvalid())
			return "";
		return std::to_string(SM.getSpellingLineNumber(L)) + ":" + std::to_string(SM.getSpellingColumnNumber(L));
	}

	json::Array rangeOf(SourceRange R) {
		json::Array a;
		SourceLocation B = SM.getExpansionLoc(R.getBegin());
		SourceLocation E = SM.getExpansionLoc(R.getEnd());
		if (B.isInvalid() || E.isInvalid())
			return a;
		E = Lexer::getLocForEndOfToken(E, 0, SM, Ctx.getLangOpts());
		a.push_back((int64_t) SM.getFileOffset(B));
		a.push_back((int64_t) SM.getFileOffset(E));
		return a;
	}

	std::string typeStr(QualType T) {
		if (T.isNull())
			return "";
		return T.getAsString(PP);
	}
	std::string canonStr(QualType T) {
		if (T.isNull())
			return "";
		return T.getCanonicalType().getAsString(PP);
	}

	std::string qualName(const NamedDecl* D) {
		std::string s;
		llvm::raw_string_ostream os(s);
		D->getNameForDiagnostic(os, PP, true);
		os.flush();
		return s;
	}

	// stable cross-unit function key
	std::string fnKey(const FunctionDecl* F) {
		std::string s = qualName(F);
		if (const auto* M = dyn_cast<CXXMethodDecl>(F)) {
			if (M->getParent()->isLambda()) {
				s = "lambda@" + relFile(M->getParent()->getLocation()) + ":" + locStr(M->getParent()->getLocation());
				// distinguish instantiations of the enclosing function
				if (const auto* DC = dyn_cast_or_null<FunctionDecl>(M->getParent()->getParentFunctionOrMethod()))
					s += "@" + fnKey(DC);
				// instantiations of a generic lambda's call operator are functions of their own
				if (const TemplateArgumentList* TA = F->getTemplateSpecializationArgs()) {
					s += "<";
					bool firstA = true;
					for (const TemplateArgument& A : TA->asArray()) {
						if (!firstA)
							s += ", ";
						firstA = false;
						if (A.getKind() == TemplateArgument::Type)
							s += canonStr(A.getAsType());
						else {
							llvm::raw_string_ostream os(s);
							A.print(PP, os, true);
							os.flush();
						}
					}
					s += ">";
				}
				return s;
			}
		}
		s += "(";
		bool first = true;
		for (const ParmVarDecl* P : F->parameters()) {
			if (!first)
				s += ", ";
			first = false;
			s += canonStr(P->getType());
		}
		s += ")";
		if (const auto* M = dyn_cast<CXXMethodDecl>(F))
			if (M->isConst())
				s += " const";
		return s;
	}

	// ------------------------------------------------------------------ expressions

	static const Expr* strip(const Expr* E) {
		while (E) {
			if (const auto* P = dyn_cast<ParenExpr>(E))
				E = P->getSubExpr();
			else if (const auto* I = dyn_cast<ImplicitCastExpr>(E))
				E = I->getSubExpr();
			else if (const auto* M = dyn_cast<MaterializeTemporaryExpr>(E))
				E = M->getSubExpr();
			else if (const auto* C = dyn_cast<ExprWithCleanups>(E))
				E = C->getSubExpr();
			else if (const auto* B = dyn_cast<CXXBindTemporaryExpr>(E))
				E = B->getSubExpr();
			else if (const auto* F = dyn_cast<FullExpr>(E))
				E = F->getSubExpr();
			else if (const auto* D = dyn_cast<CXXDefaultArgExpr>(E))
				E = D->getExpr();
			else if (const auto* D2 = dyn_cast<CXXDefaultInitExpr>(E))
				E = D2->getExpr();
			else if (const auto* S = dyn_cast<SubstNonTypeTemplateParmExpr>(E))
				E = S->getReplacement();
			else
				break;
		}
		return E;
	}

	void addCommon(json::Object& o, const Expr* E) {
		o["t"] = typeStr(E->getType());
		std::string c = canonStr(E->getType());
		if (c != o["t"].getAsString().getValue())
			o["ct"] = c;
		o["loc"] = locStr(E->getExprLoc());
	}

	void tryFold(json::Object& o, const Expr* E) {
		if (E->isValueDependent() || E->isTypeDependent())
			return;
		QualType T = E->getType();
		if (T.isNull() || !(T->isIntegralOrEnumerationType()))
			return;
		// a call is assumed to have side effects; a call of a constexpr function (std::numeric_limits<T>::max()) is left to
		// the evaluator, which rejects side effects itself
		bool constexprCall = false;
		if (const auto* CE = dyn_cast<CallExpr>(E->IgnoreParenImpCasts()))
			if (const FunctionDecl* FD = CE->getDirectCallee())
				constexprCall = FD->isConstexpr();
		if (!constexprCall && E->HasSideEffects(Ctx))
			return;
		Expr::EvalResult R;
		if (E->EvaluateAsInt(R, Ctx, Expr::SE_NoSideEffects) && R.Val.isInt()) {
			o["val"] = (int64_t) R.Val.getInt().getExtValue();
		}
	}

	json::Value exprOrNull(const Expr* E) {
		if (!E)
			return nullptr;
		return expr(E);
	}

	json::Array exprList(llvm::ArrayRef<const Expr*> Es) {
		json::Array a;
		for (const Expr* e : Es)
			a.push_back(exprOrNull(e));
		return a;
	}

	json::Value calleeInfo(json::Object& o, const FunctionDecl* FD) {
		if (!FD)
			return nullptr;
		o["fn"] = qualName(FD);
		o["fid"] = fnKey(FD);
		o["short"] = FD->getDeclName().getAsString();
		if (const auto* M = dyn_cast<CXXMethodDecl>(FD)) {
			if (M->getParent()->isLambda() && FD->getTemplateSpecializationArgs() && FD->hasBody())
				LambdaQueue.push_back({FD, CurFn}); // instantiated call operator of a generic lambda: emit its body too
			o["cls"] = qualName(M->getParent());
			if (M->isVirtual())
				o["vmeth"] = true;
			if (M->isConst())
				o["cmeth"] = true;
			if (M->isStatic())
				o["smeth"] = true;
		}
		if (FD->getPrimaryTemplate() || FD->getTemplateSpecializationArgs()) {
			if (const TemplateArgumentList* TA = FD->getTemplateSpecializationArgs()) {
				json::Array ta;
				for (const TemplateArgument& A : TA->asArray()) {
					if (A.getKind() == TemplateArgument::Type)
						ta.push_back(typeStr(A.getAsType()));
					else {
						std::string s;
						llvm::raw_string_ostream os(s);
						A.print(PP, os, true);
						os.flush();
						ta.push_back(s);
					}
				}
				o["targs"] = std::move(ta);
			}
		}
		if (!inRoot(FD->getLocation()))
			o["ext"] = true;
		return nullptr;
	}

	// indices of arguments bound to non-const lvalue-reference (or non-const pointer) parameters
	void refArgs(json::Object& o, const FunctionDecl* FD, unsigned numArgs, unsigned offset) {
		if (!FD)
			return;
		json::Array ra;
		for (unsigned i = 0; i + offset < numArgs && i < FD->getNumParams(); i++) {
			QualType PT = FD->getParamDecl(i)->getType();
			if (PT->isLValueReferenceType() && !PT->getPointeeType().isConstQualified())
				ra.push_back((int64_t) (i + offset));
			else if (PT->isPointerType() && !PT->getPointeeType().isConstQualified())
				ra.push_back((int64_t) (i + offset));
		}
		if (!ra.empty())
			o["refargs"] = std::move(ra);
	}

	json::Value expr(const Expr* E0) {
		const Expr* E = strip(E0);
		json::Object o;
		if (!E) {
			return nullptr;
		}
		addCommon(o, E);

		if (const auto* IL = dyn_cast<IntegerLiteral>(E)) {
			o["k"] = "Lit";
			o["lk"] = "int";
			o["val"] = (int64_t) IL->getValue().getLimitedValue();
		}
		else if (const auto* BL = dyn_cast<CXXBoolLiteralExpr>(E)) {
			o["k"] = "Lit";
			o["lk"] = "bool";
			o["val"] = (int64_t) (BL->getValue() ? 1 : 0);
		}
		else if (const auto* FL = dyn_cast<FloatingLiteral>(E)) {
			o["k"] = "Lit";
			o["lk"] = "float";
			o["fval"] = FL->getValueAsApproximateDouble();
		}
		else if (const auto* SL = dyn_cast<StringLiteral>(E)) {
			o["k"] = "Lit";
			o["lk"] = "str";
			if (SL->getCharByteWidth() == 1)
				o["sval"] = SL->getBytes().str();
		}
		else if (const auto* CL = dyn_cast<CharacterLiteral>(E)) {
			o["k"] = "Lit";
			o["lk"] = "char";
			o["val"] = (int64_t) CL->getValue();
		}
		else if (isa<CXXNullPtrLiteralExpr>(E) || isa<GNUNullExpr>(E)) {
			o["k"] = "Lit";
			o["lk"] = "null";
		}
		else if (isa<CXXThisExpr>(E)) {
			o["k"] = "This";
		}
		else if (const auto* DR = dyn_cast<DeclRefExpr>(E)) {
			o["k"] = "Ref";
			const ValueDecl* D = DR->getDecl();
			o["name"] = D->getDeclName().getAsString();
			o["id"] = declId(D);
			if (isa<ParmVarDecl>(D))
				o["rk"] = "param";
			else if (const auto* V = dyn_cast<VarDecl>(D)) {
				if (V->isLocalVarDecl() && !V->isStaticLocal())
					o["rk"] = "local";
				else {
					o["rk"] = V->isStaticLocal() ? "staticlocal" : "global";
					o["qn"] = qualName(V);
				}
			}
			else if (isa<EnumConstantDecl>(D)) {
				o["rk"] = "enumconst";
				o["qn"] = qualName(D);
			}
			else if (const auto* FD = dyn_cast<FunctionDecl>(D)) {
				o["rk"] = "func";
				calleeInfo(o, FD);
			}
			else if (isa<BindingDecl>(D))
				o["rk"] = "local";
			else if (isa<NonTypeTemplateParmDecl>(D))
				o["rk"] = "tparam";
			else
				o["rk"] = "other";
			tryFold(o, E);
		}
		else if (const auto* ME = dyn_cast<MemberExpr>(E)) {
			o["k"] = "Member";
			o["base"] = exprOrNull(ME->getBase());
			const ValueDecl* D = ME->getMemberDecl();
			o["name"] = D->getDeclName().getAsString();
			if (ME->isArrow())
				o["arrow"] = true;
			if (const auto* FD = dyn_cast<FieldDecl>(D)) {
				o["owner"] = qualName(FD->getParent());
				o["mk"] = "field";
			}
			else if (const auto* MD = dyn_cast<CXXMethodDecl>(D)) {
				o["mk"] = "method";
				calleeInfo(o, MD);
			}
			else if (const auto* VD = dyn_cast<VarDecl>(D)) {
				o["mk"] = "static";
				o["qn"] = qualName(VD);
			}
			else
				o["mk"] = "other";
			tryFold(o, E);
		}
		else if (const auto* OC = dyn_cast<CXXOperatorCallExpr>(E)) {
			OverloadedOperatorKind K = OC->getOperator();
			const FunctionDecl* FD = OC->getDirectCallee();
			std::string sp = getOperatorSpelling(K);
			bool isMember = FD && isa<CXXMethodDecl>(FD);
			if (K == OO_Subscript && OC->getNumArgs() == 2) {
				o["k"] = "Subscript";
				o["base"] = exprOrNull(OC->getArg(0));
				o["idx"] = exprOrNull(OC->getArg(1));
				if (FD) {
					json::Object ci;
					calleeInfo(ci, FD);
					o["ovl"] = std::move(ci);
				}
			}
			else {
				o["k"] = "OpCall";
				o["op"] = sp;
				if (FD)
					calleeInfo(o, FD);
				json::Array args;
				for (unsigned i = 0; i < OC->getNumArgs(); i++)
					args.push_back(exprOrNull(OC->getArg(i)));
				o["args"] = std::move(args);
				if (isMember)
					o["memberop"] = true;
				refArgs(o, FD, OC->getNumArgs(), isMember ? 1 : 0);
			}
		}
		else if (const auto* MC = dyn_cast<CXXMemberCallExpr>(E)) {
			o["k"] = "Call";
			const CXXMethodDecl* MD = MC->getMethodDecl();
			const Expr* calleeE = strip(MC->getCallee());
			if (MD)
				calleeInfo(o, MD);
			if (const auto* ME = dyn_cast_or_null<MemberExpr>(calleeE)) {
				o["recv"] = exprOrNull(ME->getBase());
				if (ME->isArrow())
					o["arrow"] = true;
				if (ME->hasQualifier())
					o["qualified"] = true; // Base::f() — non-virtual dispatch
			}
			else {
				o["recv"] = exprOrNull(MC->getImplicitObjectArgument());
			}
			if (MD && MD->isVirtual() && !o.get("qualified"))
				o["virt"] = true;
			json::Array args;
			for (const Expr* a : MC->arguments())
				args.push_back(exprOrNull(a));
			o["args"] = std::move(args);
			refArgs(o, MD, MC->getNumArgs(), 0);
			tryFold(o, E);
		}
		else if (const auto* CE = dyn_cast<CallExpr>(E)) {
			o["k"] = "Call";
			if (const FunctionDecl* FD = CE->getDirectCallee())
				calleeInfo(o, FD);
			else {
				o["callee"] = exprOrNull(CE->getCallee());
			}
			json::Array args;
			for (const Expr* a : CE->arguments())
				args.push_back(exprOrNull(a));
			o["args"] = std::move(args);
			refArgs(o, CE->getDirectCallee(), CE->getNumArgs(), 0);
			tryFold(o, E);
		}
		else if (const auto* UO = dyn_cast<UnaryOperator>(E)) {
			o["k"] = "Unary";
			o["op"] = UnaryOperator::getOpcodeStr(UO->getOpcode()).str();
			if (UO->isPostfix())
				o["post"] = true;
			o["e"] = exprOrNull(UO->getSubExpr());
			tryFold(o, E);
		}
		else if (const auto* BO = dyn_cast<BinaryOperator>(E)) {
			o["k"] = BO->isAssignmentOp() ? "Assign" : "Binary";
			o["op"] = BO->getOpcodeStr().str();
			o["l"] = exprOrNull(BO->getLHS());
			o["r"] = exprOrNull(BO->getRHS());
			if (!BO->isAssignmentOp())
				tryFold(o, E);
		}
		else if (const auto* CO = dyn_cast<ConditionalOperator>(E)) {
			o["k"] = "Cond";
			o["c"] = exprOrNull(CO->getCond());
			o["a"] = exprOrNull(CO->getTrueExpr());
			o["b"] = exprOrNull(CO->getFalseExpr());
			tryFold(o, E);
		}
		else if (const auto* AS = dyn_cast<ArraySubscriptExpr>(E)) {
			o["k"] = "Subscript";
			o["base"] = exprOrNull(AS->getBase());
			o["idx"] = exprOrNull(AS->getIdx());
		}
		else if (const auto* EC = dyn_cast<ExplicitCastExpr>(E)) {
			o["k"] = "Cast";
			if (isa<CXXStaticCastExpr>(EC))
				o["ck"] = "static";
			else if (isa<CXXDynamicCastExpr>(EC))
				o["ck"] = "dynamic";
			else if (isa<CXXReinterpretCastExpr>(EC))
				o["ck"] = "reinterpret";
			else if (isa<CXXConstCastExpr>(EC))
				o["ck"] = "const";
			else if (isa<CStyleCastExpr>(EC))
				o["ck"] = "cstyle";
			else if (isa<CXXFunctionalCastExpr>(EC))
				o["ck"] = "functional";
			else
				o["ck"] = "other";
			o["cast"] = EC->getCastKindName();
			o["e"] = exprOrNull(EC->getSubExpr());
			tryFold(o, E);
		}
		else if (const auto* UE = dyn_cast<UnaryExprOrTypeTraitExpr>(E)) {
			o["k"] = "Sizeof";
			o["trait"] = (int64_t) UE->getKind();
			if (UE->isArgumentType())
				o["arg"] = typeStr(UE->getArgumentType());
			else {
				o["arg"] = typeStr(UE->getArgumentExpr()->getType());
				o["e"] = exprOrNull(UE->getArgumentExpr());
			}
			tryFold(o, E);
		}
		else if (const auto* CC = dyn_cast<CXXConstructExpr>(E)) {
			// elidable copy/move: transparent
			if (CC->getNumArgs() == 1 && CC->getConstructor()->isCopyOrMoveConstructor() && CC->isElidable())
				return expr(CC->getArg(0));
			o["k"] = "Construct";
			o["ctor"] = fnKey(CC->getConstructor());
			if (CC->getConstructor()->isCopyOrMoveConstructor())
				o["copy"] = true;
			json::Array args;
			for (const Expr* a : CC->arguments())
				args.push_back(exprOrNull(a));
			o["args"] = std::move(args);
			refArgs(o, CC->getConstructor(), CC->getNumArgs(), 0);
		}
		else if (const auto* NE = dyn_cast<CXXNewExpr>(E)) {
			o["k"] = "New";
			o["alloc"] = typeStr(NE->getAllocatedType());
			if (NE->getInitializer())
				o["init"] = exprOrNull(NE->getInitializer());
		}
		else if (const auto* DE = dyn_cast<CXXDeleteExpr>(E)) {
			o["k"] = "Delete";
			o["e"] = exprOrNull(DE->getArgument());
		}
		else if (const auto* LE = dyn_cast<LambdaExpr>(E)) {
			o["k"] = "Lambda";
			const CXXMethodDecl* Op = LE->getCallOperator();
			if (Op) {
				o["fid"] = fnKey(Op);
				LambdaQueue.push_back({Op, CurFn});
			}
			json::Array caps;
			for (const LambdaCapture& C : LE->captures()) {
				json::Object c;
				if (C.capturesThis())
					c["this"] = true;
				else if (C.capturesVariable()) {
					c["name"] = C.getCapturedVar()->getNameAsString();
					c["id"] = declId(C.getCapturedVar());
					c["byref"] = C.getCaptureKind() == LCK_ByRef;
				}
				caps.push_back(std::move(c));
			}
			o["caps"] = std::move(caps);
		}
		else if (const auto* IL2 = dyn_cast<InitListExpr>(E)) {
			o["k"] = "InitList";
			json::Array a;
			for (const Expr* i : IL2->inits())
				a.push_back(exprOrNull(i));
			o["inits"] = std::move(a);
		}
		else if (const auto* DM = dyn_cast<CXXDependentScopeMemberExpr>(E)) {
			o["k"] = "DepMember";
			o["name"] = DM->getMember().getAsString();
			if (!DM->isImplicitAccess())
				o["base"] = exprOrNull(DM->getBase());
			if (DM->isArrow())
				o["arrow"] = true;
		}
		else if (const auto* UM = dyn_cast<UnresolvedMemberExpr>(E)) {
			o["k"] = "DepMember";
			o["name"] = UM->getMemberName().getAsString();
			if (!UM->isImplicitAccess())
				o["base"] = exprOrNull(UM->getBase());
		}
		else if (const auto* UL = dyn_cast<UnresolvedLookupExpr>(E)) {
			o["k"] = "Unresolved";
			o["name"] = UL->getName().getAsString();
		}
		else if (const auto* DS = dyn_cast<DependentScopeDeclRefExpr>(E)) {
			o["k"] = "Unresolved";
			o["name"] = DS->getDeclName().getAsString();
		}
		else if (const auto* TE = dyn_cast<CXXThrowExpr>(E)) {
			o["k"] = "Throw";
			o["e"] = exprOrNull(TE->getSubExpr());
		}
		else if (const auto* SV = dyn_cast<CXXScalarValueInitExpr>(E)) {
			(void) SV;
			o["k"] = "Lit";
			o["lk"] = "zero";
			o["val"] = (int64_t) 0;
		}
		else if (const auto* SI = dyn_cast<CXXStdInitializerListExpr>(E)) {
			return expr(SI->getSubExpr());
		}
		else if (const auto* IV = dyn_cast<ImplicitValueInitExpr>(E)) {
			(void) IV;
			o["k"] = "Lit";
			o["lk"] = "zero";
			o["val"] = (int64_t) 0;
		}
		else {
			o["k"] = "Other";
			o["cls"] = E->getStmtClassName();
			json::Array kids;
			for (const Stmt* c : E->children())
				if (const auto* ce = dyn_cast_or_null<Expr>(c))
					kids.push_back(expr(ce));
			o["kids"] = std::move(kids);
			tryFold(o, E);
		}
		return json::Value(std::move(o));
	}

	// ------------------------------------------------------------------ statements

	json::Value varDecl(const VarDecl* V) {
		json::Object v;
		v["name"] = V->getNameAsString();
		v["id"] = declId(V);
		v["t"] = typeStr(V->getType());
		std::string c = canonStr(V->getType());
		if (c != v["t"].getAsString().getValue())
			v["ct"] = c;
		v["loc"] = locStr(V->getLocation());
		if (V->isStaticLocal())
			v["static"] = true;
		if (V->getType().isConstQualified())
			v["const"] = true;
		if (V->hasInit())
			v["init"] = exprOrNull(V->getInit());
		return json::Value(std::move(v));
	}

	json::Value stmtOrNull(const Stmt* S) {
		if (!S)
			return nullptr;
		return stmt(S);
	}

	json::Value stmt(const Stmt* S) {
		if (const auto* E = dyn_cast<Expr>(S)) {
			json::Value v = expr(E);
			if (auto* o = v.getAsObject())
				(*o)["rg"] = rangeOf(S->getSourceRange());
			return v;
		}
		json::Object o;
		o["loc"] = locStr(S->getBeginLoc());
		o["rg"] = rangeOf(S->getSourceRange());
		if (const auto* CS = dyn_cast<CompoundStmt>(S)) {
			o["k"] = "Compound";
			json::Array b;
			for (const Stmt* c : CS->body())
				b.push_back(stmt(c));
			o["body"] = std::move(b);
		}
		else if (const auto* IS = dyn_cast<IfStmt>(S)) {
			o["k"] = "If";
			if (IS->getInit())
				o["init"] = stmt(IS->getInit());
			if (IS->getConditionVariable())
				o["var"] = varDecl(IS->getConditionVariable());
			o["cond"] = exprOrNull(IS->getCond());
			o["then"] = stmtOrNull(IS->getThen());
			o["else"] = stmtOrNull(IS->getElse());
			if (IS->isConstexpr())
				o["constexpr"] = true;
		}
		else if (const auto* FS = dyn_cast<ForStmt>(S)) {
			o["k"] = "For";
			o["init"] = stmtOrNull(FS->getInit());
			o["cond"] = exprOrNull(FS->getCond());
			o["inc"] = exprOrNull(FS->getInc());
			o["body"] = stmtOrNull(FS->getBody());
		}
		else if (const auto* RF = dyn_cast<CXXForRangeStmt>(S)) {
			o["k"] = "RangeFor";
			o["var"] = varDecl(RF->getLoopVariable());
			// loop variable init is *__begin; drop it, keep the range expression
			if (auto* vo = o["var"].getAsObject())
				vo->erase("init");
			o["range"] = exprOrNull(RF->getRangeInit());
			o["body"] = stmtOrNull(RF->getBody());
		}
		else if (const auto* WS = dyn_cast<WhileStmt>(S)) {
			o["k"] = "While";
			if (WS->getConditionVariable())
				o["var"] = varDecl(WS->getConditionVariable());
			o["cond"] = exprOrNull(WS->getCond());
			o["body"] = stmtOrNull(WS->getBody());
		}
		else if (const auto* DS = dyn_cast<DoStmt>(S)) {
			o["k"] = "Do";
			o["cond"] = exprOrNull(DS->getCond());
			o["body"] = stmtOrNull(DS->getBody());
		}
		else if (const auto* SS = dyn_cast<SwitchStmt>(S)) {
			o["k"] = "Switch";
			o["cond"] = exprOrNull(SS->getCond());
			o["body"] = stmtOrNull(SS->getBody());
		}
		else if (const auto* CaS = dyn_cast<CaseStmt>(S)) {
			o["k"] = "Case";
			o["val"] = exprOrNull(CaS->getLHS());
			o["sub"] = stmtOrNull(CaS->getSubStmt());
		}
		else if (const auto* DfS = dyn_cast<DefaultStmt>(S)) {
			o["k"] = "Default";
			o["sub"] = stmtOrNull(DfS->getSubStmt());
		}
		else if (const auto* RS = dyn_cast<ReturnStmt>(S)) {
			o["k"] = "Return";
			o["e"] = exprOrNull(RS->getRetValue());
		}
		else if (isa<BreakStmt>(S)) {
			o["k"] = "Break";
		}
		else if (isa<ContinueStmt>(S)) {
			o["k"] = "Continue";
		}
		else if (const auto* DcS = dyn_cast<DeclStmt>(S)) {
			o["k"] = "Decl";
			json::Array vars;
			for (const Decl* D : DcS->decls()) {
				if (const auto* V = dyn_cast<VarDecl>(D))
					vars.push_back(varDecl(V));
				else if (const auto* DD = dyn_cast<DecompositionDecl>(D))
					vars.push_back(varDecl(DD));
			}
			o["vars"] = std::move(vars);
		}
		else if (const auto* TS = dyn_cast<CXXTryStmt>(S)) {
			o["k"] = "Try";
			o["body"] = stmtOrNull(TS->getTryBlock());
			json::Array hs;
			for (unsigned i = 0; i < TS->getNumHandlers(); i++)
				hs.push_back(stmtOrNull(TS->getHandler(i)->getHandlerBlock()));
			o["handlers"] = std::move(hs);
		}
		else if (isa<NullStmt>(S)) {
			o["k"] = "Null";
		}
		else if (const auto* AS = dyn_cast<AttributedStmt>(S)) {
			return stmt(AS->getSubStmt());
		}
		else {
			o["k"] = "OtherStmt";
			o["cls"] = S->getStmtClassName();
			json::Array kids;
			for (const Stmt* c : S->children())
				if (c)
					kids.push_back(stmt(c));
			o["kids"] = std::move(kids);
		}
		return json::Value(std::move(o));
	}

	// ------------------------------------------------------------------ declarations

	json::Array templateArgs(const TemplateArgumentList* TA) {
		json::Array ta;
		if (!TA)
			return ta;
		for (const TemplateArgument& A : TA->asArray()) {
			json::Object a;
			if (A.getKind() == TemplateArgument::Type) {
				QualType T = A.getAsType();
				a["t"] = typeStr(T);
				a["ct"] = canonStr(T);
				if (!T->isDependentType() && !T->isIncompleteType() && !T->isVoidType() && !T->isFunctionType()) {
					a["size"] = (int64_t) Ctx.getTypeSizeInChars(T).getQuantity();
					a["trivial"] = T.isTriviallyCopyableType(Ctx);
				}
			}
			else {
				std::string s;
				llvm::raw_string_ostream os(s);
				A.print(PP, os, true);
				os.flush();
				a["v"] = s;
			}
			ta.push_back(std::move(a));
		}
		return ta;
	}

	void emitFunction(const FunctionDecl* F, const std::string& lambdaParent = "") {
		if (!F->doesThisDeclarationHaveABody())
			return;
		if (!inRoot(F->getLocation()))
			return;
		if (F->isImplicit() && lambdaParent.empty())
			return;
		if (!SeenFns.insert(F).second)
			return;

		json::Object o;
		std::string key = fnKey(F);
		std::string saved = CurFn;
		CurFn = key;
		o["id"] = key;
		o["name"] = qualName(F);
		o["short"] = F->getDeclName().getAsString();
		o["file"] = relFile(F->getLocation());
		o["loc"] = locStr(F->getLocation());
		o["rg"] = rangeOf(F->getSourceRange());
		o["ret"] = typeStr(F->getReturnType());
		if (!lambdaParent.empty())
			o["lambda_parent"] = lambdaParent;
		if (F->isTemplated())
			o["tmpl"] = "pattern";
		else if (F->isTemplateInstantiation() || (isa<CXXMethodDecl>(F) && isa<ClassTemplateSpecializationDecl>(cast<CXXMethodDecl>(F)->getParent())))
			o["tmpl"] = "inst";
		if (F->getTemplateSpecializationArgs())
			o["targs"] = templateArgs(F->getTemplateSpecializationArgs());
		if (F->isDefaulted())
			o["defaulted"] = true;
		json::Array ps;
		for (const ParmVarDecl* P : F->parameters()) {
			json::Object p;
			p["name"] = P->getNameAsString();
			p["id"] = declId(P);
			p["t"] = typeStr(P->getType());
			std::string c = canonStr(P->getType());
			if (c != p["t"].getAsString().getValue())
				p["ct"] = c;
			ps.push_back(std::move(p));
		}
		o["params"] = std::move(ps);
		if (const auto* M = dyn_cast<CXXMethodDecl>(F)) {
			o["cls"] = qualName(M->getParent());
			if (M->isConst())
				o["const"] = true;
			if (M->isVirtual())
				o["virtual"] = true;
			if (M->isStatic())
				o["static"] = true;
			switch (M->getAccess()) {
				case AS_public: o["access"] = "public"; break;
				case AS_protected: o["access"] = "protected"; break;
				case AS_private: o["access"] = "private"; break;
				default: break;
			}
			json::Array ov;
			for (const CXXMethodDecl* B : M->overridden_methods())
				ov.push_back(fnKey(B));
			if (!ov.empty())
				o["overrides"] = std::move(ov);
			if (const auto* C = dyn_cast<CXXConstructorDecl>(M)) {
				o["ctor"] = true;
				json::Array inits;
				for (const CXXCtorInitializer* I : C->inits()) {
					json::Object io;
					if (I->isAnyMemberInitializer())
						io["field"] = I->getAnyMember()->getNameAsString();
					else if (I->isBaseInitializer())
						io["base"] = typeStr(QualType(I->getBaseClass(), 0));
					if (!I->isWritten())
						io["implicit"] = true;
					io["e"] = exprOrNull(I->getInit());
					inits.push_back(std::move(io));
				}
				o["inits"] = std::move(inits);
			}
			if (isa<CXXDestructorDecl>(M))
				o["dtor"] = true;
		}
		o["body"] = stmt(F->getBody());
		CurFn = saved;
		Functions.push_back(std::move(o));
	}

	void drainLambdas() {
		while (!LambdaQueue.empty()) {
			auto p = LambdaQueue.back();
			LambdaQueue.pop_back();
			emitFunction(p.first, p.second);
		}
	}

	void emitRecord(const CXXRecordDecl* R) {
		if (!R->isThisDeclarationADefinition() || !R->isCompleteDefinition())
			return;
		if (!inRoot(R->getLocation()))
			return;
		if (R->isLambda() || R->isInjectedClassName())
			return;
		if (!SeenRecs.insert(R).second)
			return;
		json::Object o;
		o["name"] = qualName(R);
		o["short"] = R->getNameAsString();
		o["file"] = relFile(R->getLocation());
		o["loc"] = locStr(R->getLocation());
		o["rg"] = rangeOf(R->getSourceRange());
		o["kind"] = R->getKindName().str();
		bool dependent = R->isDependentType();
		if (dependent)
			o["tmpl"] = "pattern";
		else if (const auto* CTS = dyn_cast<ClassTemplateSpecializationDecl>(R)) {
			o["tmpl"] = "inst";
			o["targs"] = templateArgs(&CTS->getTemplateArgs());
			o["template"] = qualName(CTS->getSpecializedTemplate());
		}
		json::Array bases;
		for (const CXXBaseSpecifier& B : R->bases()) {
			json::Object b;
			b["t"] = typeStr(B.getType());
			b["ct"] = canonStr(B.getType());
			if (const CXXRecordDecl* BD = B.getType()->getAsCXXRecordDecl()) {
				b["name"] = qualName(BD);
				if (const auto* CTS = dyn_cast<ClassTemplateSpecializationDecl>(BD)) {
					b["template"] = qualName(CTS->getSpecializedTemplate());
					b["targs"] = templateArgs(&CTS->getTemplateArgs());
				}
			}
			else if (const auto* TST = B.getType()->getAs<TemplateSpecializationType>()) {
				if (TemplateDecl* TD = TST->getTemplateName().getAsTemplateDecl())
					b["template"] = qualName(TD);
			}
			if (B.isVirtual())
				b["virtual"] = true;
			bases.push_back(std::move(b));
		}
		o["bases"] = std::move(bases);

		const ASTRecordLayout* Layout = nullptr;
		if (!dependent && !R->isInvalidDecl())
			Layout = &Ctx.getASTRecordLayout(R);
		if (Layout) {
			o["size"] = (int64_t) Layout->getSize().getQuantity();
			o["align"] = (int64_t) Layout->getAlignment().getQuantity();
		}
		if (!dependent) {
			o["abstract"] = R->isAbstract();
			o["trivial"] = R->isTriviallyCopyable();
			o["polymorphic"] = R->isPolymorphic();
		}
		json::Array fields;
		unsigned idx = 0;
		for (const FieldDecl* FD : R->fields()) {
			json::Object f;
			f["name"] = FD->getNameAsString();
			f["t"] = typeStr(FD->getType());
			f["ct"] = canonStr(FD->getType());
			f["loc"] = locStr(FD->getLocation());
			switch (FD->getAccess()) {
				case AS_public: f["access"] = "public"; break;
				case AS_protected: f["access"] = "protected"; break;
				case AS_private: f["access"] = "private"; break;
				default: break;
			}
			if (FD->isMutable())
				f["mutable"] = true;
			if (FD->isBitField())
				f["bitfield"] = true;
			if (Layout) {
				f["offset"] = (int64_t) (Layout->getFieldOffset(idx) / 8);
				QualType FT = FD->getType();
				if (!FT->isIncompleteType() && !FT->isDependentType() && !FT->isReferenceType())
					f["size"] = (int64_t) Ctx.getTypeSizeInChars(FT).getQuantity();
			}
			if (FD->hasInClassInitializer() && FD->getInClassInitializer())
				f["init"] = exprOrNull(FD->getInClassInitializer());
			fields.push_back(std::move(f));
			idx++;
		}
		o["fields"] = std::move(fields);

		json::Array methods;
		for (const Decl* D : R->decls()) {
			const CXXMethodDecl* M = dyn_cast<CXXMethodDecl>(D);
			if (!M) {
				if (const auto* FT = dyn_cast<FunctionTemplateDecl>(D))
					M = dyn_cast<CXXMethodDecl>(FT->getTemplatedDecl());
				if (!M)
					continue;
			}
			if (M->isImplicit())
				continue;
			json::Object m;
			m["id"] = fnKey(M);
			m["short"] = M->getDeclName().getAsString();
			m["loc"] = locStr(M->getLocation());
			m["sig"] = typeStr(M->getType());
			if (M->isConst())
				m["const"] = true;
			if (M->isVirtual())
				m["virtual"] = true;
			if (M->isPure())
				m["pure"] = true;
			if (M->isStatic())
				m["static"] = true;
			if (M->isDefaulted())
				m["defaulted"] = true;
			if (M->isDeleted())
				m["deleted"] = true;
			if (M->isUserProvided())
				m["user"] = true;
			switch (M->getAccess()) {
				case AS_public: m["access"] = "public"; break;
				case AS_protected: m["access"] = "protected"; break;
				case AS_private: m["access"] = "private"; break;
				default: break;
			}
			if (const auto* C = dyn_cast<CXXConstructorDecl>(M)) {
				m["ctor"] = true;
				if (C->isCopyConstructor())
					m["copyctor"] = true;
				if (C->isMoveConstructor())
					m["movector"] = true;
			}
			if (isa<CXXDestructorDecl>(M))
				m["dtor"] = true;
			if (M->isCopyAssignmentOperator())
				m["copyassign"] = true;
			if (M->isMoveAssignmentOperator())
				m["moveassign"] = true;
			json::Array ov;
			for (const CXXMethodDecl* B : M->overridden_methods())
				ov.push_back(fnKey(B));
			if (!ov.empty())
				m["overrides"] = std::move(ov);
			methods.push_back(std::move(m));
		}
		o["methods"] = std::move(methods);

		// static data members
		for (const Decl* D : R->decls())
			if (const auto* V = dyn_cast<VarDecl>(D))
				emitGlobal(V, "static-member");

		Records.push_back(std::move(o));
	}

	void emitEnum(const EnumDecl* E) {
		if (!E->isThisDeclarationADefinition() || !inRoot(E->getLocation()))
			return;
		json::Object o;
		o["name"] = qualName(E);
		o["file"] = relFile(E->getLocation());
		o["loc"] = locStr(E->getLocation());
		o["underlying"] = typeStr(E->getIntegerType());
		if (!E->getIntegerType().isNull() && !E->getIntegerType()->isDependentType())
			o["size"] = (int64_t) Ctx.getTypeSizeInChars(E->getIntegerType()).getQuantity();
		o["scoped"] = E->isScoped();
		json::Array es;
		for (const EnumConstantDecl* C : E->enumerators()) {
			json::Object c;
			c["name"] = C->getNameAsString();
			c["val"] = (int64_t) C->getInitVal().getExtValue();
			es.push_back(std::move(c));
		}
		o["enumerators"] = std::move(es);
		Enums.push_back(std::move(o));
	}

	std::set<const VarDecl*> SeenVars;
	void emitGlobal(const VarDecl* V, const char* storage) {
		if (!inRoot(V->getLocation()))
			return;
		V = V->getCanonicalDecl();
		if (!SeenVars.insert(V).second)
			return;
		json::Object o;
		o["name"] = qualName(V);
		o["t"] = typeStr(V->getType());
		o["ct"] = canonStr(V->getType());
		o["file"] = relFile(V->getLocation());
		o["loc"] = locStr(V->getLocation());
		o["storage"] = storage;
		o["const"] = V->getType().isConstQualified();
		o["constexpr"] = V->isConstexpr();
		if (!CurFn.empty())
			o["fn"] = CurFn;
		const VarDecl* Def = V->getDefinition();
		if (!Def)
			Def = V->getAnyInitializer() ? V : nullptr;
		if (Def && Def->getAnyInitializer()) {
			const Expr* I = strip(Def->getAnyInitializer());
			if (const auto* SL = dyn_cast_or_null<StringLiteral>(I))
				if (SL->getCharByteWidth() == 1)
					o["sval"] = SL->getBytes().str();
		}
		if (Def && Def->hasInit() && !Def->getInit()->isValueDependent()) {
			json::Object tmp;
			tryFold(tmp, Def->getInit());
			if (tmp.get("val"))
				o["val"] = std::move(*tmp.get("val"));
		}
		Globals.push_back(std::move(o));
	}
};

class Visitor : public RecursiveASTVisitor<Visitor> {
public:
	Dumper& D;
	explicit Visitor(Dumper& d)
		: D(d) {}
	bool shouldVisitTemplateInstantiations() const { return true; }
	bool shouldVisitImplicitCode() const { return false; }

	bool VisitFunctionDecl(FunctionDecl* F) {
		if (F->isThisDeclarationADefinition()) {
			if (const auto* M = dyn_cast<CXXMethodDecl>(F))
				if (M->getParent()->isLambda())
					return true; // emitted from its enclosing function
			D.emitFunction(F);
			D.drainLambdas();
		}
		return true;
	}
	bool VisitCXXRecordDecl(CXXRecordDecl* R) {
		D.emitRecord(R);
		D.drainLambdas();
		return true;
	}
	bool VisitEnumDecl(EnumDecl* E) {
		D.emitEnum(E);
		return true;
	}
	bool VisitVarDecl(VarDecl* V) {
		if (isa<ParmVarDecl>(V))
			return true;
		if (V->isStaticLocal())
			D.emitGlobal(V, "function-static");
		else if (V->isFileVarDecl() && !V->isStaticDataMember())
			D.emitGlobal(V, "namespace");
		else if (V->isStaticDataMember())
			D.emitGlobal(V, "static-member");
		return true;
	}
};

class Consumer : public ASTConsumer {
public:
	void HandleTranslationUnit(ASTContext& Ctx) override {
		if (Ctx.getDiagnostics().hasErrorOccurred()) {
			llvm::errs() << "nifly-ast: parse errors, refusing to dump\n";
			return;
		}
		Dumper D(Ctx);
		Visitor V(D);
		V.TraverseDecl(Ctx.getTranslationUnitDecl());
		D.drainLambdas();
		json::Object top;
		const SourceManager& SM = Ctx.getSourceManager();
		if (const FileEntry* FE = SM.getFileEntryForID(SM.getMainFileID()))
			top["unit"] = FE->getName().str();
		top["root"] = D.Root;
		top["records"] = std::move(D.Records);
		top["enums"] = std::move(D.Enums);
		top["functions"] = std::move(D.Functions);
		top["globals"] = std::move(D.Globals);
		std::error_code EC;
		llvm::raw_fd_ostream os(OptOut, EC);
		if (EC) {
			llvm::errs() << "nifly-ast: cannot write " << OptOut << ": " << EC.message() << "\n";
			return;
		}
		os << json::Value(std::move(top));
		os.close();
	}
};

class Action : public ASTFrontendAction {
public:
	std::unique_ptr<ASTConsumer> CreateASTConsumer(CompilerInstance&, StringRef) override {
		return std::make_unique<Consumer>();
	}
};

} // namespace

int main(int argc, const char** argv) {
	auto Expected = CommonOptionsParser::create(argc, argv, Cat);
	if (!Expected) {
		llvm::errs() << llvm::toString(Expected.takeError());
		return 2;
	}
	CommonOptionsParser& OP = Expected.get();
	ClangTool Tool(OP.getCompilations(), OP.getSourcePathList());
	std::vector<std::unique_ptr<llvm::MemoryBuffer>> keep;
	std::vector<std::unique_ptr<std::string>> keepNames; // mapVirtualFile stores StringRefs: keep the paths alive
	for (const std::string& ov : OptOverlay) {
		size_t eq = ov.find('=');
		if (eq == std::string::npos)
			continue;
		std::string orig = ov.substr(0, eq), repl = ov.substr(eq + 1);
		auto buf = llvm::MemoryBuffer::getFile(repl);
		if (!buf) {
			llvm::errs() << "nifly-ast: cannot read overlay " << repl << "\n";
			return 2;
		}
		keep.push_back(std::move(*buf));
		keepNames.push_back(std::make_unique<std::string>(orig));
		Tool.mapVirtualFile(*keepNames.back(), keep.back()->getBuffer());
	}
	int rc = Tool.run(newFrontendActionFactory<Action>().get());
	return rc == 0 ? 0 : 2;
}
