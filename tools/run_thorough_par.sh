#!/bin/bash
# runs the thorough tier of every registered check, 4 at a time, then validates manifest + evidence like run_all.sh
cd /verif
python3 - <<'PY' | xargs -P4 -I{} sh -c '{}' 
import json
for c in json.load(open("/verif/MANIFEST.json"))["checks"]:
    print(c["thorough_cmd"] + " 2>&1 | grep -v WARNING | tail -1")
PY
