#!/usr/bin/python3
"""For every seeded change under /verif/seeded: analyse /repo's current sources with the change applied and record which
checks flag it in seeded/<id>/meta.json and seeded/MATRIX.md.

Default: the patch is applied as clang virtual-file overlays (scratch copies under /verif/.work, /repo untouched) and
every rule module runs in-process.  With --apply the patch is applied to /repo itself with `git apply`, the registered
quick commands are run, and the tree is restored with `git checkout -- .` (the literal procedure; slower)."""
import importlib, json, os, re, shutil, subprocess, sys
V = "/verif"
sys.path[:0] = [V + "/lib", V + "/rules"]
sys.setrecursionlimit(20000)
import facts, report, selftest

man = json.load(open(V + "/MANIFEST.json"))
ids = [c["property_id"] for c in man["checks"]]
apply_mode = "--apply" in sys.argv
only = [a for a in sys.argv[1:] if not a.startswith("--")]
rows = []
for sid in sorted(os.listdir(V + "/seeded")):
    d = os.path.join(V, "seeded", sid)
    patch = os.path.join(d, "patch.diff")
    if not os.path.isfile(patch):
        continue
    meta_p = os.path.join(d, "meta.json")
    meta = json.load(open(meta_p)) if os.path.exists(meta_p) else {}
    if only and sid not in only:
        rows.append((sid, meta))
        continue
    det = {}
    if apply_mode:
        if subprocess.run(["git", "-C", "/repo", "status", "--porcelain", "--untracked-files=no"], capture_output=True, text=True).stdout.strip():
            print("/repo dirty, abort"); sys.exit(2)
        if subprocess.run(["git", "-C", "/repo", "apply", patch]).returncode != 0:
            print(sid, "patch does not apply"); continue
        try:
            for pid in ids:
                out = subprocess.run(["./check", pid], cwd=V, capture_output=True, text=True).stdout
                keys = re.findall(r"rule (\S+)\s+key (\S.*)", out)
                m = re.findall(r"exit (\d)$", out.strip().split("\n")[-1])
                code = int(m[0]) if m else -1
                if code == 1:
                    det[pid] = sorted(set(k for _, k in keys))
                elif code == 2:
                    det[pid] = ["ANALYSIS-BROKEN"]
        finally:
            subprocess.run(["git", "-C", "/repo", "checkout", "--", "."])
        how = "git -C /repo apply patch.diff; ./check <id> for every registered check; git -C /repo checkout -- ."
    else:
        r = selftest._patched_files(patch)
        if r is None:
            print(sid, "patch does not apply to the current tree"); continue
        overlays, tmpd = r
        try:
            Fm = facts.Facts.load("/repo", overlays=overlays)
            for pid in ids:
                import flow, versions
                flow.KEYNODE.clear()
                versions.VERSION_LOCALS.clear()
                sub = report.Check(pid, "quick", "other")
                try:
                    importlib.import_module(pid.lower()).run(Fm, sub)
                except Exception as e:
                    sub.broken.append(repr(e))
                known = {k["key"] for k in json.load(open(V + "/known_findings.json"))["findings"] if k.get("status") == "known"}
                keys = sorted(set(v["key"] for v in sub.viol) - known)
                if keys:
                    det[pid] = keys
                elif sub.broken:
                    det[pid] = ["ANALYSIS-BROKEN"]
        finally:
            shutil.rmtree(tmpd, ignore_errors=True)
        how = "patch applied as clang virtual-file overlays on /repo's current sources (tools/seed_matrix.py), every rule module run on the overlaid facts"
    meta.setdefault("property", sid.split("-")[-1])
    meta["detected_by"] = det
    meta["ran"] = how
    json.dump(meta, open(meta_p, "w"), indent=1)
    rows.append((sid, meta))
    print(sid, "->", {k: len(v) for k, v in det.items()} or "NOT DETECTED")
with open(V + "/seeded/MATRIX.md", "w") as fh:
    fh.write("| seed | breaks | needs | detected by (rule keys) |\n|---|---|---|---|\n")
    for sid, m in rows:
        dets = []
        for k, v in (m.get("detected_by") or {}).items():
            rules = sorted(set(x.split(":")[0] for x in v))
            dets.append("%s [%s]" % (k, ", ".join(rules)))
        fh.write("| %s | %s | %s | %s |\n" % (sid, m.get("property"), (m.get("needs") or "").replace("|", "/")[:200],
                                              "; ".join(dets) or (("— " + m["status"][:160]) if m.get("status") else "— not detected (value-level, DESIGN §12.5)")))
