#!/usr/bin/python3
"""For every seeded change under /verif/seeded: apply it to /repo, run every registered quick check, revert, and
record which checks flag it (exit 1 with a VIOLATION) in seeded/<id>/meta.json and seeded/MATRIX.md."""
import json, os, subprocess, sys, re
V = "/verif"
man = json.load(open(V + "/MANIFEST.json"))
ids = [c["property_id"] for c in man["checks"]]
only = sys.argv[1:] or None
rows = []
for sid in sorted(os.listdir(V + "/seeded")):
    d = os.path.join(V, "seeded", sid)
    patch = os.path.join(d, "patch.diff")
    if not os.path.isfile(patch):
        continue
    meta_p = os.path.join(d, "meta.json")
    meta = json.load(open(meta_p)) if os.path.exists(meta_p) else {}
    if only and sid not in only and meta.get("detected_by") is not None:
        rows.append((sid, meta)); continue
    if subprocess.run(["git", "-C", "/repo", "status", "--porcelain", "--untracked-files=no"], capture_output=True, text=True).stdout.strip():
        print("/repo dirty, abort"); sys.exit(2)
    r = subprocess.run(["git", "-C", "/repo", "apply", patch])
    if r.returncode != 0:
        print(sid, "patch does not apply"); continue
    det = {}
    try:
        for pid in ids:
            out = subprocess.run(["./check", pid], cwd=V, capture_output=True, text=True).stdout
            keys = re.findall(r"rule (\S+)\s+key (\S.*)", out)
            code = int(re.findall(r"exit (\d)$", out.strip().split("\n")[-1])[0]) if re.findall(r"exit (\d)$", out.strip().split("\n")[-1]) else -1
            if code == 1:
                det[pid] = sorted(set(k for _, k in keys))
            elif code == 2:
                det[pid] = ["ANALYSIS-BROKEN"]
    finally:
        subprocess.run(["git", "-C", "/repo", "checkout", "--", "."])
    meta.setdefault("property", sid.split("-")[-1])
    meta["detected_by"] = det
    json.dump(meta, open(meta_p, "w"), indent=1)
    rows.append((sid, meta))
    print(sid, "->", {k: len(v) for k, v in det.items()} or "NOT DETECTED")
with open(V + "/seeded/MATRIX.md", "w") as fh:
    fh.write("| seed | breaks | needs | detected by |\n|---|---|---|---|\n")
    for sid, m in rows:
        fh.write("| %s | %s | %s | %s |\n" % (sid, m.get("property"), (m.get("needs") or "").replace("|", "/")[:160],
                                              ", ".join("%s (%s)" % (k, "; ".join(x.split(":",1)[0] + ":" + x.split(":")[1] if ":" in x else x for x in v[:2])) for k, v in m.get("detected_by", {}).items()) or "— (value-level, see DESIGN Appendix B)"))
# re-run clean so evidence files are from the unchanged tree
subprocess.run([V + "/tools/run_all.sh"], cwd=V, stdout=subprocess.DEVNULL)
