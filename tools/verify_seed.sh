#!/bin/bash
# usage: tools/verify_seed.sh <seed-id> <worktree-dir> <property-id>
# Confirms a seeded change independently: with the change the suite passes and the demo fails; without it the demo passes.
# On success stores /verif/seeded/<seed-id>/{patch.diff,demo.cc,README.md,verify.log}
set -u
ID="$1"; W="$2"; PID="$3"
OUT=/verif/seeded/$ID
LOG=/var/tmp/verify_$ID.log
: > $LOG
cd "$W" || exit 2
git checkout -q -- src include 2>>$LOG
git apply seed_out/patch.diff >>$LOG 2>&1 || { echo "$ID: patch does not apply" | tee -a $LOG; exit 1; }
cmake -G Ninja -S "$W" -B "$W/_build" >>$LOG 2>&1
cmake --build "$W/_build" >>$LOG 2>&1 || { echo "$ID: build with change FAILED" | tee -a $LOG; exit 1; }
T=$(ctest --test-dir "$W/_build" -j8 2>&1 | grep "tests passed" ); echo "with change: $T" | tee -a $LOG
g++ -std=c++17 -I"$W/include" -I"$W/external" seed_out/demo.cc "$W/_build/src/libnifly.a" -o /var/tmp/demo_$ID >>$LOG 2>&1 || { echo "$ID: demo does not compile" | tee -a $LOG; exit 1; }
( cd "$W/seed_out" && timeout 120 /var/tmp/demo_$ID >>$LOG 2>&1 ); RC1=$?
echo "demo with change: exit $RC1" | tee -a $LOG
git apply -R seed_out/patch.diff >>$LOG 2>&1
cmake --build "$W/_build" >>$LOG 2>&1 || { echo "$ID: build without change FAILED" | tee -a $LOG; exit 1; }
g++ -std=c++17 -I"$W/include" -I"$W/external" seed_out/demo.cc "$W/_build/src/libnifly.a" -o /var/tmp/demo_$ID >>$LOG 2>&1
( cd "$W/seed_out" && timeout 120 /var/tmp/demo_$ID >>$LOG 2>&1 ); RC0=$?
echo "demo without change: exit $RC0" | tee -a $LOG
rm -f /var/tmp/demo_$ID
if [ "$RC1" != "0" ] && [ "$RC0" = "0" ] && echo "$T" | grep -q "100% tests passed"; then
  mkdir -p $OUT && cp seed_out/patch.diff seed_out/demo.cc seed_out/README.md $OUT/ && cp $LOG $OUT/verify.log
  echo "$ID: CONFIRMED (property $PID)" | tee -a $LOG
else
  echo "$ID: NOT confirmed" | tee -a $LOG
fi
