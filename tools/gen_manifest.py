#!/usr/bin/python3
"""Regenerates /verif/MANIFEST.json from the table below (keeps the file valid at all times)."""
import json
import os
import subprocess

VERIF = os.path.dirname(os.path.dirname(os.path.abspath(__file__)))

CLAIMED = {
    "C04": dict(
        cat="other", ref="DESIGN.md §5 C04",
        technique="static analysis: typestate/dataflow of the sorter's index assignment (visited-set history facts), permutation-application census in SetBlockOrder, prune-guard dominance, restart and stale-index discipline, effect containment",
        text="Decides that the sorter's new-index map is injective (every store is a fresh newIndex++ under a not-visited test and "
             "followed by marking) and total (completion loop dominates SetBlockOrder), that SetBlockOrder applies it to all parallel "
             "tables and both reference kinds, that pruning deletes only unreferenced non-root blocks, restarts after each deletion "
             "and never reads a stale root index, and that the sort/prune call tree writes nothing but sort state, child arrays, "
             "reference indices, header tables and bounds. The position counter of a sort is only ever incremented (found and fixed this way: SetShapeOrder started it at the root's block number).",
        note="SortGraph's value-level child filters (duplicate shape names, F10), root-first placement and idempotence of sorting are "
             "not decided; depends on C05"),
    "C05": dict(
        cat="proof", ref="DESIGN.md §5 C05",
        technique="static analysis: interprocedural member-path summaries over the clang AST (serialised refs vs enumerated refs, set inclusion per class)",
        text="Structural proof over the resolved program: for every concrete block class the set of NiRef/NiStringRef member paths "
             "whose index reaches a stream primitive along the real Get/Put call chain is computed by summary composition and "
             "shown to be a subset of the paths the class's own GetChildRefs/GetPtrs/GetStringRefs hand to the collector; plus the "
             "base-call chain, no side-door serialisation, consumer and sibling (GetChildRefs vs GetChildIndices) obligations. "
             "Exhaustive over all 364 classes and all version gates, which is what the property quantifies over and tests cannot reach.",
        note="trusted: clang front end, tools/nifly-ast extractor, lib/paths.py canonicaliser (no aliasing between distinct canonical "
             "paths), std container value semantics. The consequence 'no stale index after edits' additionally needs the value-level "
             "index arithmetic of C06, which is not decided."),
    "C01": dict(
        cat="other", ref="DESIGN.md §5 C01",
        technique="static analysis: reader-vs-writer wire-schema comparison per version region; shared enumerator-completeness rules of C05; (summary composition + version partial evaluation), CRTP wiring census, count/array coherence dataflow, registry census, kind/width agreement of the hand-written Read/Write pairs per constant width argument",
        text="Decides read/write symmetry of the code, the structural necessary condition of an exact round trip: for every registered "
             "class, the header and the hand-written pairs, in every version region, the ordered member fields (path, width, loops, "
             "data gates) transferred by Get equal those transferred by Put; mode-specific sections must be in a triaged table; each "
             "class is wired to the CRTP base for itself; counted arrays are resized to the count before being indexed/transferred; "
             "every registered type writes its own unique block name; the default-save pruner restarts after each deletion "
             "(one-save fixpoint). Covers all 304 types x all version gates. Byte equality itself is not decided.",
        note="value-level encode/decode asymmetries inside one shared expression, PrepareData<->FinalizeData inverse-ness and the "
             "two-round bound are not decided; NDS headers are outside the supported version space (alias table)"),
    "C02": dict(
        cat="other", ref="DESIGN.md §5 C02",
        technique="static analysis: write-path effect analysis (ordered transfer/mutation events of every class's Put in write mode by summary composition), triaged mutation census, effect containment of the pre-write pipeline, path-based effect summaries of the const queries against the written member paths",
        text="Decides the structural clauses: in write mode no member is changed after it was written (else save #2 differs from "
             "save #1), every other write-mode mutation is a counted-array resize or an entry of a triaged one-symbol-wide table, and "
             "FinalizeData's call tree assigns only derived data. Found and fixed this way: FO76 shader type drift, OB tangent flag "
             "cleared by saving; recorded as known findings: match groups cleared after writing, hasVertWeights clamp. R2.5: no public const query of NifFile "
             "changes a member that a Put writes (known finding: GetShapePartitions converts strip partitions / drops unmapped triangles in place). "
             "Known findings also: writing compacts boneRefs / childRefs in the live model (positional / consulted slot counts), and Save "
             "rebuilds the string table before it prunes blocks (R2.8).",
        note="value changes hidden inside an accepted derivation (a wrong dataSize formula) and idempotence of FinalizeData on "
             "values are not decided; canonical member paths are assumed not to alias"),
    "C03": dict(
        cat="other", ref="DESIGN.md §5 C03",
        technique="static analysis: interprocedural guard dominance (must-pass-through of the hasUnknown guard over the CHA call graph with per-call-site dataflow facts), who-may-write census",
        text="Decides the structural clauses the behaviour depends on: on every call path from Load/Save (and from every public entry "
             "point) to a NiHeader primitive that deletes, reorders or replaces blocks or clears the string table, some frame is "
             "guarded by hasUnknown==false or by a version guard that is false in every version region where unknown blocks can "
             "exist; hasUnknown is written only next to a NiUnknown construction, in CopyFrom and in Clear; NiUnknown transfers "
             "exactly its buffer; the string table is append-only under hasUnknown. Primitives and paths are discovered from the "
             "code, so a new unguarded path is found without listing it. Byte equality of the payload itself is not decided.",
        note="assumes calls between a guard and a primitive do not change hasUnknown (backed by the who-may-write rule); CHA "
             "over-approximates virtual dispatch; value-level corruption of payload bytes in place is out of reach"),
    "C06": dict(
        cat="other", ref="DESIGN.md §5 C06",
        technique="static analysis: parallel-table pairing rules over every NiHeader mutator, delete=>notify obligation dataflow, stale-block-index typestate over every deleting function",
        text="Decides header consistency structurally: every function that changes the block list applies the same operation (same "
             "position) to blockTypeIndices, gated blockSizes and numBlocks; type-table changes are paired with their count and the "
             "index shift; DeleteBlock notifies every remaining block about the index it erased; fix-up consumers use both "
             "enumerators; type names come from the stored object; and no plain integer block index is read after a deleting call "
             "without being re-derived or adjusted.",
        note="the index arithmetic inside BlockDeleted (== clears, > decrements) and the type-table refcount threshold are value-level "
             "and not decided; depends on C05"),
    "C07": dict(
        cat="other", ref="DESIGN.md §5 C07",
        technique="static analysis: byte-accounting pairing in NiOStream (symbolic sum comparison), single-writer census, save-protocol typestate over NifFile::Save, string-table pairing, interval analysis of length-prefix locals in writers (no wrap reaches a stream call)",
        text="Sizes are re-measured on every save, so the size-table clause reduces to structure: every NiOStream method counts "
             "exactly the bytes it hands to the stream; nothing on the save path writes to the ostream except through NiOStream; Save "
             "resets the counter after the header and every block, captures each block's size into its own slot, writes the footer "
             "and back-patches exactly GetNumBlocks() 4-byte sizes at the recorded position; string count/array stay paired, strings "
             "are found before appended and the maximum length is refreshed; a length prefix adjusted arithmetically in a fixed-width "
             "local before it is written cannot wrap (found and fixed this way: the one-byte prefix of a 255-character header string "
             "with null terminator); the size-table position recorded while the header is written never survives the save that "
             "recorded it.",
        note="uint32 overflow of sizes is not decided; header Get/Put layout agreement is decided under C01"),
    "C08": dict(
        cat="translation_validation", ref="DESIGN.md §5 C08",
        technique="static analysis: translation validation of the wire schema against vendored reference sources (same extractor, summary composition, version-region partial evaluation), ABI layout comparison",
        text="For every registered class, the header and NiUnknown, in every version region and both directions, the wire schema "
             "(fields by member path, order, width, loops, data gates, early exits) of /repo's current sources is compared with that "
             "of the vendored reference sources; plus size/offsets of every trivially copyable value type, enum sizes/values, the "
             "(class, block name) registry and Load's version acceptance. Any added/removed/swapped/re-typed/re-gated field in any "
             "of the 304 types in any version is reported with class, region and both sub-sequences; pure member renames are tolerated.",
        note="reference = pinned sources vendored under /verif/reference; a data gate rewritten into an algebraically equal but "
             "differently shaped expression would be reported (stated residual); primitive semantics (SyncHalf) only via layouts"),
    "C09": dict(
        cat="other", ref="DESIGN.md §5 C09",
        technique="static analysis: per-vertex-array coverage (arrays sized to the vertex count in Sync vs arrays erased by notifyVerticesDelete, by summary composition), override-chain and counter-refresh obligation dataflow, orchestrator dispatch coverage",
        text="Decides the structural clauses of vertex deletion: every member array that a class's Sync sizes to the vertex count is "
             "erased by its notifyVerticesDelete (or a base implementation it calls); every override calls its non-empty base exactly "
             "once on every path; DeleteVertsForShape reaches every class in scope through a dispatching receiver type; each counter "
             "is re-derived from an erased array after the erase. Known finding: BSTriShape particle arrays are not erased. An array the reader sizes only under a data flag is indexed by the deletion code only under that flag or its own size (found and fixed this way: strip points of a NiTriStrips stored without points).",
        note="order preservation inside EraseVectorIndices, triangle re-indexing, segment bookkeeping order contracts and partition "
             "re-fitting are value-level and not decided"),
    "C10": dict(
        cat="other", ref="DESIGN.md §5 C10",
        technique="static analysis: sibling agreement of partition-list edits (pairing rule with type-test guard dominance), gate/fill pairing of the partition triangle lists over canonical member paths",
        text="Thin partial: two structural clauses are decided — (1) 'the dismember partition list stays aligned with the partitions': "
             "every NifFile function that changes the length of NiSkinPartition::partitions makes the corresponding edit of "
             "BSDismemberSkinInstance::partitions under a dismember type test; (2) a necessary condition of 'every triangle lies in a "
             "partition ... in the reloaded file': a function that fills a partition's triangle lists from anything but the "
             "partition's own sibling list switches that partition's hasFaces flag on (the file stores triangles only under it; found "
             "and fixed this way: SetDefaultPartition). Exact triangle cover, the bone limit and weight sums quantify over runtime "
             "values and are NOT decided by this check.",
        note="everything numeric in C10 is outside static reach; this check decides one necessary structural clause only"),
    "C11": dict(
        cat="proof", ref="DESIGN.md §5 C11",
        technique="static analysis: ownership census over record layouts/types (no pointer-like members outside the re-linked caches), re-link dominance dataflow in CopyFrom, clone-wiring and mutable-static census",
        text="Independence of a copied model is proved structurally: every field of every record reachable from a block class, "
             "NifFile or NiHeader is scanned (obligations = fields); a field may be pointer-like only if it is one of the caches "
             "assigned in SetGeomData overrides / SetBlockReference, and CopyFrom re-links exactly those on every path after "
             "cloning; CopyFrom assigns every NifFile member; no block class has user-written copy operations; Clone_impl of every "
             "registered class is the CRTP instantiation for that class; no mutable statics. Given C++ value semantics this "
             "implies the copy shares no state with its source, for all 304 block types. Byte-equality of the copy's save is "
             "inherited from clone wiring + C01 and not separately decided. Nothing CopyFrom reaches after cloning writes a block member other than the re-linked caches, and no header method that goes through the block-vector pointer runs while the copied header still points at the source.",
        note="trusted: clang front end and record layouts, extractor, value semantics of std containers (vector/string/array/set/"
             "map deep-copy their elements)"),
    "C12": dict(
        cat="other", ref="DESIGN.md §5 C12",
        technique="static analysis: sibling agreement of the two conversion branches of OptimizeFor (attribute-transfer sets vs enumerated references), must-call obligation dataflow",
        text="Thin partial: both conversion directions copy the same set of shape attributes and that set covers every reference "
             "enumerated by the shape's base classes plus the shape's own reference accessors; duplicate names are resolved before "
             "conversion on non-terrain paths; UpdateSkinPartitions follows every shape replacement; each conversion loop is followed "
             "by pruning. Geometry/weight/colour preservation and there-and-back equivalence are numeric and NOT decided.",
        note="partition index conventions (bMappedIndices), vertex data arithmetic and validity of the written file are not decided"),
    "C13": dict(
        cat="other", ref="DESIGN.md §12.6 (C13 thin partial)",
        technique="static analysis: sibling agreement of Set<X>ForShape / Get<X>ForShape pairs on per-vertex storage fields (read/write events by summary composition through the helper functions); interval analysis of Create(version, ...) under version partial evaluation against the wire width of the counters",
        text="Thin partial, added during the build: for each of the seven setter/getter pairs of NifFile, every per-vertex storage "
             "field the getter reads (NiGeometryData arrays, packed BSVertexData fields, through the raw-array refresh helpers) is a "
             "field the setter writes, for both storage kinds. It is a necessary condition of 'what is written is what is read "
             "back' and nothing more: bit-exactness, half-float tolerance, triangle order, count preservation and save/reload "
             "equality quantify over runtime arrays and are NOT decided by this check. R13.2: in every version region the clamp that "
             "Create applies to a counter equals the capacity of the integer Sync writes it through (Create drops nothing the format holds). R13.4/R13.5: sibling Create calls of one function forward the same inputs, and a Create that re-derives the vertex count touches every array its reader sizes to it (found and fixed this way: vertexColors; known finding: BSTriShape particle arrays).",
        note="only the storage-field agreement and clamp/capacity clauses are decided; every numeric clause of C13 is outside static reach"),
    "C14": dict(
        cat="other", ref="DESIGN.md §5 C14",
        technique="static analysis: taint/effect analysis of the clone functions (source-derived values vs transitive receiver mod-sets), clone=>re-link pairing, enumerator coverage of CloneChildren",
        text="Decides: nothing reached from the source model (srcNif, srcShape and values derived from them through locals, range "
             "variables and lambda captures) is assigned or has a modifying method called on it in CloneShape/CloneChildren/"
             "CloneNamedNode; a cloned shape is re-linked to geometry data looked up in the destination header; CloneChildren "
             "consults GetChildRefs, GetStringRefs and GetPtrs of the clone, rewrites references to ids returned by the destination "
             "header's AddBlock and re-registers strings with the destination header; every SetGeomData re-link passes a pointer "
             "type that each override it can be dispatched to can accept (found and fixed this way: a cloned NiLines kept the "
             "source's geometry pointer).",
        note="no aliasing between distinct objects is assumed; which ancestor ids the recursion carries for pointer rebinding and the "
             "bone list content are value-level and not decided"),
    "C15": dict(
        cat="other", ref="DESIGN.md §5 C15",
        technique="static analysis: forward nullness dataflow with interprocedural deref summaries, SCC-based recursion-gate analysis with visited-set facts, bounded graph-walk loops, range-guard dominance",
        text="Necessary conditions for crash-freedom under corrupted references, checked at every site in scope (everything reachable "
             "from Load, Save, CopyFrom and the const public queries): every dereference of a block-lookup result is dominated by a "
             "non-null test (also through callees that dereference a parameter unchecked); every unsafe downcast is type-tested; "
             "every recursive call edge passes a visited-set gate, a not-visited argument guard or a block-list-shrinking step; "
             "pointer-chasing loops are bounded; header-table subscripts by reference-derived indices are range-guarded.",
        note="heap safety of arbitrary index arithmetic elsewhere and absence of UB in general are not decided; payload-class "
             "accessors (HasX()/XRef() pairs) are trusted to follow their own invariants"),
    "C16": dict(
        cat="other", ref="DESIGN.md §5 C16",
        technique="static analysis: divisor-guard dominance dataflow over every integer division/modulo in the library",
        text="Decides the clause 'no code divides by a field a truncated file leaves at zero': every integer / and % whose divisor is "
             "not a non-zero constant must be dominated by a non-zero test of that divisor (all functions, all template "
             "instantiations). This is the site class where truncation crashes were actually found (SIGFPE in NiSkinPartition, "
             "fixed). Allocation sizes and value-level PrepareData logic are not decided. One-sided size checks of parallel vector parameters on the load/save path are reported (R16.7).",
        note="guards are recognised as dataflow facts (if/early return/&&/?:); arithmetic reasoning about non-zero-ness beyond a "
             "direct test is not attempted"),
    "C19": dict(
        cat="other", ref="DESIGN.md §5 C19",
        technique="static analysis: sibling agreement of the texture-slot walkers (slot coverage and guard-set inclusion after expanding locals to their defining lookups), must-call dataflow on the load path, alternation analysis of run-collapsing regex literals",
        text="Thin partial: every texture string slot GetTexturePathRefs can reach is cleaned by TrimTexturePaths under a guard set that "
             "is a subset of the accessor's, and the clean-up runs on every completing path of PrepareData, which Load's success path "
             "reaches. Found and fixed this way: effect-shader texture paths were never cleaned. One clause of the string pipeline is "
             "decided language-theoretically from the pattern literal: a run-collapsing regex_replace with a one-character "
             "replacement leaves no doubled separator iff its pattern is a single class containing that character (found and fixed "
             "this way: mixed '/\\' runs). The rest of the canonical form, idempotence and termination of the regex pipeline are "
             "string semantics and NOT decided.",
        note="what TrimTexturePaths computes for a given string is outside static reach"),
}

NOT_APPLICABLE = {
    "C17": "static analysis cannot decide it: segment/partition renumbering, stable sort and contiguous range tables are value-level "
           "algorithm correctness over runtime arrays",
    "C18": "static analysis cannot decide it: functional equivalence of index-remapping/strip templates with their mathematical "
           "definition over all inputs; goto-analyzer cannot parse the C++ templates, and a C re-model would not inspect /repo's source",
    "C20": "static analysis cannot decide it: floating-point transform identities and bounding-sphere containment within tolerance; "
           "nothing in the shape of the code decides them",
}

PENDING_REASON = "check not built yet in this session (static rule designed in DESIGN.md §5, not yet armed); not claimed until it runs"

ALL = ["C%02d" % i for i in range(1, 21)]


def main():
    checks = []
    for pid in ALL:
        if pid not in CLAIMED:
            continue
        c = CLAIMED[pid]
        checks.append({
            "property_id": pid,
            "quick_cmd": "./check %s --tier quick" % pid,
            "thorough_cmd": "./check %s --tier thorough" % pid,
            "evidence_file": "/verif/evidence/%s.json" % pid,
            "replay_cmd_template": "./check %s --replay {path}" % pid,
            "engine": "nifly-static",
            "level_claimed": {"category": c["cat"], "text": c["text"], "design_ref": c["ref"]},
            "level_note": c["note"],
            "technique": c["technique"],
        })
    na = []
    for pid in ALL:
        if pid in CLAIMED:
            continue
        na.append({"property_id": pid, "reason": NOT_APPLICABLE.get(pid, PENDING_REASON)})
    try:
        commits = subprocess.run(["git", "-C", "/repo", "log", "--format=%H %s", "32497ec..HEAD"], capture_output=True,
                                 text=True).stdout.strip().split("\n")
    except Exception:
        commits = []
    hook_commits = [c.split()[0] for c in commits if c and not c.split(" ", 1)[1].startswith("fix:")]
    m = {
        "version": 1,
        "setup_cmd": "make -C /verif/tools",
        "hooks": {
            "guard": "OUSNIUS_NIFLY_VERIF",
            "enable": "no hooks are needed: the checks parse /repo's sources with clang (-DOUSNIUS_NIFLY_VERIF is passed to the "
                      "extractor but no source line depends on it)",
            "baseline_off_cmd": "cmake -G Ninja -S /repo -B /repo/_build && cmake --build /repo/_build && ctest --test-dir /repo/_build -j8 --timeout 900",
            "source_commits": hook_commits,
            "add_only": True,
        },
        "engines": [{
            "name": "nifly-static",
            "path": "/verif/check",
            "serves_properties": sorted(CLAIMED),
            "kind_free_text": "custom static analysis: libTooling extractor (tools/nifly-ast) dumps the type-checked AST of every "
                              "translation unit of /repo's current working tree; Python rule modules (rules/cNN.py) decide each "
                              "property's structural clauses with a structured dataflow engine (lib/flow.py), interprocedural "
                              "member-path summaries (lib/paths.py) and a version-region partial evaluator (lib/versions.py)",
        }],
        "checks": checks,
        "not_applicable": na,
        "notes": "Technique family: static analysis only. exit 0 = rules hold (KNOWN-FINDING lines for listed defects), exit 1 = VIOLATION, "
                 "exit 2 = analysis broken. Genuine defects repaired in /repo as 'fix:' commits are listed in known_findings.json as fixed.",
    }
    with open(os.path.join(VERIF, "MANIFEST.json"), "w") as fh:
        json.dump(m, fh, indent=1)
    print("MANIFEST.json: %d checks, %d not applicable" % (len(checks), len(na)))


if __name__ == "__main__":
    main()
