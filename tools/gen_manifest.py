#!/usr/bin/python3
"""Regenerates /verif/MANIFEST.json from the table below (keeps the file valid at all times)."""
import json
import os
import subprocess

VERIF = os.path.dirname(os.path.dirname(os.path.abspath(__file__)))

CLAIMED = {
    "C05": dict(
        cat="proof", ref="DESIGN.md §5 C05",
        technique="static analysis: interprocedural member-path summaries over the clang AST (serialised refs vs enumerated refs, set inclusion per class)",
        text="Structural proof over the resolved program: for every concrete block class the set of NiRef/NiStringRef member paths "
             "whose index reaches a stream primitive along the real Get/Put call chain is computed by summary composition and "
             "shown to be a subset of the paths the class's own GetChildRefs/GetPtrs/GetStringRefs hand to the collector; plus the "
             "base-call chain, no side-door serialisation, consumer and sibling (GetChildRefs vs GetChildIndices) obligations. "
             "Exhaustive over all 364 classes and all version gates, which is what the property quantifies over and tests cannot reach.",
        note="trusted: clang front end, tools/nifly-ast extractor, lib/paths.py canonicaliser (no aliasing between distinct canonical "
             "paths), std container value semantics. The consequence 'no stale index after edits' additionally needs the value-level "
             "index arithmetic of C06, which is not decided."),
}

NOT_APPLICABLE = {
}

PENDING_REASON = "check not built yet in this session (static rule designed in DESIGN.md §5, not yet armed); not claimed until it runs"

ALL = ["C%02d" % i for i in range(1, 21)]


def main():
    checks = []
    for pid in ALL:
        if pid not in CLAIMED:
            continue
        c = CLAIMED[pid]
        checks.append({
            "property_id": pid,
            "quick_cmd": "./check %s --tier quick" % pid,
            "thorough_cmd": "./check %s --tier thorough" % pid,
            "evidence_file": "/verif/evidence/%s.json" % pid,
            "replay_cmd_template": "./check %s --replay {path}" % pid,
            "engine": "nifly-static",
            "level_claimed": {"category": c["cat"], "text": c["text"], "design_ref": c["ref"]},
            "level_note": c["note"],
            "technique": c["technique"],
        })
    na = []
    for pid in ALL:
        if pid in CLAIMED:
            continue
        na.append({"property_id": pid, "reason": NOT_APPLICABLE.get(pid, PENDING_REASON)})
    try:
        commits = subprocess.run(["git", "-C", "/repo", "log", "--format=%H %s", "32497ec..HEAD"], capture_output=True,
                                 text=True).stdout.strip().split("\n")
    except Exception:
        commits = []
    hook_commits = [c.split()[0] for c in commits if c and not c.split(" ", 1)[1].startswith("fix:")]
    m = {
        "version": 1,
        "setup_cmd": "make -C /verif/tools",
        "hooks": {
            "guard": "OUSNIUS_NIFLY_VERIF",
            "enable": "no hooks are needed: the checks parse /repo's sources with clang (-DOUSNIUS_NIFLY_VERIF is passed to the "
                      "extractor but no source line depends on it)",
            "baseline_off_cmd": "cmake -G Ninja -S /repo -B /repo/_build && cmake --build /repo/_build && ctest --test-dir /repo/_build -j8 --timeout 900",
            "source_commits": hook_commits,
            "add_only": True,
        },
        "engines": [{
            "name": "nifly-static",
            "path": "/verif/check",
            "serves_properties": sorted(CLAIMED),
            "kind_free_text": "custom static analysis: libTooling extractor (tools/nifly-ast) dumps the type-checked AST of every "
                              "translation unit of /repo's current working tree; Python rule modules (rules/cNN.py) decide each "
                              "property's structural clauses with a structured dataflow engine (lib/flow.py), interprocedural "
                              "member-path summaries (lib/paths.py) and a version-region partial evaluator (lib/versions.py)",
        }],
        "checks": checks,
        "not_applicable": na,
        "notes": "Technique family: static analysis only. exit 0 = rules hold (KNOWN-FINDING lines for listed defects), exit 1 = VIOLATION, "
                 "exit 2 = analysis broken. Genuine defects repaired in /repo as 'fix:' commits are listed in known_findings.json as fixed.",
    }
    with open(os.path.join(VERIF, "MANIFEST.json"), "w") as fh:
        json.dump(m, fh, indent=1)
    print("MANIFEST.json: %d checks, %d not applicable" % (len(checks), len(na)))


if __name__ == "__main__":
    main()
