"""C03 — blocks of unknown type survive load and save untouched (DESIGN §5 C03)."""
from facts import is_node, walk, where, show, AnalysisBroken
import flow
import re
import versions

NIF = "nifly::NifFile"
HDR = "nifly::NiHeader"
SHRINKERS = {"erase", "clear", "pop_back", "swap", "resize", "assign", "remove"}
# NiHeader methods that disturb the tables but are part of (re)initialisation, each with the reason they are not in P
NOT_P = {
    "nifly::NiHeader::Clear": "reset of the whole header; reached from Load only before any block is read (hasUnknown is false then)",
    "nifly::NiHeader::Get": "the reader itself: fills the tables from the file",
}
TABLES = {"blocks", "blockTypeIndices", "blockSizes", "strings"}


def _member_root(e):
    """name of the NiHeader table member an lvalue expression is rooted at (through *blocks, blocks->, [i])"""
    while is_node(e):
        k = e["k"]
        if k == "Member" and e.get("mk") == "field":
            b = e.get("base")
            if (b is None or b["k"] == "This") and e.get("owner") == HDR:
                return e["name"]
            e = b
        elif k == "Subscript":
            e = e["base"]
        elif k == "Unary" and e["op"] == "*":
            e = e["e"]
        elif k == "OpCall" and e.get("op") in ("*", "->") and e.get("args"):
            e = e["args"][0]
        elif k == "Cast":
            e = e["e"]
        elif k == "Call" and e.get("short") in ("at", "front", "back", "get") and e.get("recv") is not None:
            e = e["recv"]
        else:
            return None
    return None


def _through_subscript(e):
    while is_node(e):
        k = e["k"]
        if k == "Subscript" or (k == "Call" and e.get("short") == "at"):
            return True
        if k == "Member":
            e = e.get("base")
        elif k == "Call" and e.get("recv") is not None:
            e = e["recv"]
        elif k in ("Cast",):
            e = e["e"]
        elif k == "Unary":
            e = e["e"]
        else:
            return False
    return False


def discover_P(F):
    """NiHeader methods that directly delete / permute / replace entries of the block tables or clear the strings"""
    P = {}
    for fn in F.fns.values():
        if fn.get("cls") != HDR or fn.get("tmpl") == "pattern" or fn.get("ctor") or fn.get("dtor"):
            continue
        why = None
        for n in walk(fn.get("body") or {}):
            if n["k"] == "Call" and n.get("ext") and n.get("short") in SHRINKERS and is_node(n.get("recv")):
                m = _member_root(n["recv"])
                if m in TABLES:
                    why = "%s.%s()" % (m, n["short"])
                    break
            if n["k"] in ("Assign",) or (n["k"] == "OpCall" and n.get("op") == "="):
                tgt = n["l"] if n["k"] == "Assign" else (n.get("args") or [None])[0]
                m = _member_root(tgt)
                if m == "strings" and is_node(tgt) and _through_subscript(tgt):
                    # overwriting an existing string in place changes what its index denotes
                    why = "strings[i] = …"
                    break
                if m in ("blocks", "blockTypeIndices", "blockSizes", "strings") and is_node(tgt) and tgt["k"] != "Subscript":
                    # whole-table assignment (not element store; element stores keep positions)
                    if not (tgt["k"] == "Member" and m == "blocks" and (tgt.get("ct") or tgt.get("t") or "").rstrip().endswith("*")):
                        why = "%s = …" % m
                        break
        if why:
            P[fn["id"]] = why
    return P


class Unguarded:
    """U(f): f can reach a primitive in P along a path on which no frame holds hasUnknown==false (or a version guard
    that is false wherever unknown blocks can exist).  Computed bottom-up with per-call-site guard facts."""

    def __init__(self, F, P, VE, unknown_regions):
        self.F, self.P, self.VE, self.regs = F, P, VE, unknown_regions
        # renderings of calls (on this) to accessors that return exactly the flag
        self.flag_getters = set()
        for g in F.fns.values():
            if g.get("cls") == NIF and not g.get("params"):
                b = g.get("body")
                if is_node(b) and b["k"] == "Compound" and len(b["body"]) == 1 and b["body"][0]["k"] == "Return":
                    r = b["body"][0].get("e")
                    while is_node(r) and r["k"] == "Cast":
                        r = r["e"]
                    if is_node(r) and r["k"] == "Member" and r.get("name") == "hasUnknown" and r.get("owner") == NIF:
                        self.flag_getters.add(g["short"] + "()")
        self.memo = {}
        self.active = set()

    def guarded_state(self, st, fn):
        """None if nothing in the state guards the site; a string reason if it is guarded; ('param', i, pol) if the only
        guard is a bool parameter of fn having value pol (to be bound at fn's call sites)"""
        if st is None:
            return "unreachable"
        bool_params = {p["name"]: i for i, p in enumerate(fn.get("params", []))
                       if (p.get("ct") or p.get("t")) in ("bool", "const bool")}
        param_guard = None
        for f in st:
            if f[0] != "G":
                continue
            node = flow.KEYNODE.get(f[1])
            if f[1] == "hasUnknown" and ("m", "hasUnknown") in f[3] and fn.get("cls") == NIF:
                if f[2] is False:
                    return "hasUnknown==false"
                continue
            if f[1] in self.flag_getters and fn.get("cls") == NIF:
                # `if (HasUnknown()) return;` — a trivial accessor of the flag, called on this
                if f[2] is False:
                    return "hasUnknown==false (through %s)" % f[1]
                continue
            if f[1] in bool_params and ("n", f[1]) in f[3]:
                param_guard = ("param", bool_params[f[1]], f[2])
                continue
            if node is None:
                continue
            # version guard infeasible wherever unknown blocks can exist
            if isinstance(node, tuple):
                e, p = node[1], node[2]
                if not self.VE.is_version_expr(e):
                    continue
                vals = [self.VE.ev(e, r) for r in self.regs]
                if all(v is not None and (bool(v) == p) != f[2] for v in vals):
                    return "version guard `%s`=%s is false in every region that can hold unknown blocks" % (f[1], f[2])
            elif is_node(node) and self.VE.is_version_expr(node):
                vals = [self.VE.ev(node, r) for r in self.regs]
                if all(v is not None and bool(v) != f[2] for v in vals):
                    return "version guard `%s`=%s is false in every region that can hold unknown blocks" % (f[1], f[2])
        return param_guard

    def chain(self, fid):
        """None if every path from fid to P is guarded inside fid's subtree; else a list of (fn, call node) frames.
        A path guarded only by a bool parameter of a frame is re-examined at that frame's call sites: the argument
        must be the model's hasUnknown flag (with the polarity that makes the guard hold)."""
        r = self._chain(fid)
        return r[0]

    def _chain(self, fid):
        """-> (unguarded chain or None, conditional: list of (param index, polarity, chain) or [])"""
        if fid in self.memo:
            return self.memo[fid]
        if fid in self.P:
            return ([], [])
        fn = self.F.fns.get(fid)
        if fn is None or fid in self.active:
            return (None, [])
        self.active.add(fid)
        result, conds = None, []
        try:
            calls = [(n, ts) for n, ts in self.F.calls_in(fn) if n["k"] in ("Call", "OpCall", "Construct", "Lambda")]
            ids = {id(n): ts for n, ts in calls}
            if ids:
                col = flow.Collect(self.F, fn, lambda n: id(n) in ids)
                col.run()
                for n, sts in col.by_node():
                    gs = [self.guarded_state(st, fn) for st in sts]
                    if all(isinstance(g, str) for g in gs):
                        continue
                    pguard = None
                    if all(g is not None for g in gs):
                        pguard = [g for g in gs if isinstance(g, tuple)][0]
                    for t in ids[id(n)]:
                        sub, subconds = self._chain(t)
                        # conditional guards of the callee: bind its bool parameter at this site
                        for (pi, pol, cchain) in subconds:
                            a = n.get("args", [])[pi] if pi < len(n.get("args", [])) else None
                            bound_ok = False
                            if is_node(a) and a["k"] == "Member" and a.get("name") == "hasUnknown" and a.get("owner") == NIF:
                                bound_ok = (pol is True)  # guard holds when param == hasUnknown is true
                            if is_node(a) and a["k"] == "Unary" and a["op"] == "!" and is_node(a["e"]) and \
                                    a["e"]["k"] == "Member" and a["e"].get("name") == "hasUnknown":
                                bound_ok = (pol is False)
                            if not bound_ok and sub is None:
                                sub = cchain
                        if sub is None:
                            continue
                        if pguard is not None:
                            # guarded by fn's own bool parameter: defer to fn's callers.  The guard holds when the
                            # parameter has the value seen here; it protects unknown blocks iff that value is what
                            # hasUnknown==true produces, i.e. the site is *skipped* when the flag is set.
                            conds.append((pguard[1], pguard[2] is False, [(fn, n)] + sub))
                            continue
                        result = [(fn, n)] + sub
                        break
                    if result is not None:
                        break
        finally:
            self.active.discard(fid)
        self.memo[fid] = (result, conds)
        return self.memo[fid]

    def _param_guard_discharges(self, callee_id, call, sub):
        return False


def _unknown_ctor_sizes(F, fn, sp, depth=0):
    """(data resized to the size argument, blockSize set from it) for a NiUnknown constructor, following a delegating
    constructor call `: NiUnknown(size)` whose argument is the size parameter"""
    body = fn.get("body") or {}
    resized = any(n["k"] == "Call" and n.get("short") == "resize" and show(n.get("recv")) == "data" and
                  n.get("args") and show(n["args"][0]) == sp for n in walk(body))
    sized = any(n["k"] == "Assign" and show(n["l"]) == "blockSize" and show(n["r"]) == sp for n in walk(body))
    sized = sized or any(i.get("field") == "blockSize" and is_node(i.get("e")) and show(i["e"]) == sp for i in fn.get("inits", []))
    for i in fn.get("inits", []):
        e = i.get("e")
        if i.get("field") or i.get("base") or not is_node(e) or e["k"] != "Construct" or depth > 2:
            continue
        tgt = F.fns.get(e.get("ctor"))
        if tgt is None or tgt.get("cls") != fn.get("cls"):
            continue
        for ai, a in enumerate(e.get("args", [])):
            if show(a) == sp and ai < len(tgt.get("params", [])):
                r2, s2 = _unknown_ctor_sizes(F, tgt, tgt["params"][ai]["name"], depth + 1)
                resized, sized = resized or r2, sized or s2
    return resized, sized


def run(F, chk):
    R1 = chk.rule("R3.1", "on every call path from NifFile::Load / NifFile::Save to a NiHeader primitive that deletes, reorders or "
                          "replaces blocks or clears the string table, some frame is guarded by hasUnknown==false (or by a "
                          "version guard that is false wherever unknown blocks can exist)")
    R2 = chk.rule("R3.2", "every public NifFile method from which a block reorder or bulk prune is reachable is guarded the same way")
    R3 = chk.rule("R3.3", "hasUnknown is set true exactly where a NiUnknown block is created, copied in CopyFrom, reset only in Clear")
    R4 = chk.rule("R3.4", "NiUnknown::Sync transfers exactly its data buffer with the length it was constructed with")
    R5 = chk.rule("R3.5", "with hasUnknown the save path only appends to the string table")

    VE = versions.VersionEval(F)
    regs_all = list(VE.named_versions().values()) if chk.tier == "quick" else VE.regions()

    # where can unknown blocks exist: version guards at the `hasUnknown = true` site in Load
    load = [f for f in F.fn_named("nifly::NifFile::Load") if "istream" in f["id"]]
    chk.require(len(load) == 1, "NifFile::Load(std::istream&) not found")
    load = load[0]
    sets = []
    col = flow.Collect(F, load, lambda n: n["k"] == "Assign" and show(n["l"]) == "hasUnknown")
    col.run()
    unknown_regs = []
    sites = col.by_node()
    chk.require(len(sites) >= 1, "Load no longer assigns hasUnknown")
    for n, sts in sites:
        for r in regs_all:
            ok = True
            for st in sts:
                for f in (st or ()):
                    if f[0] != "G":
                        continue
                    node = flow.KEYNODE.get(f[1])
                    if isinstance(node, tuple):
                        v = VE.ev(node[1], r)
                        if v is not None and ((bool(v) == node[2]) != f[2]):
                            ok = False
                    elif is_node(node):
                        v = VE.ev(node, r)
                        if v is not None and bool(v) != f[2]:
                            ok = False
            if ok and r not in unknown_regs:
                unknown_regs.append(r)
    chk.extra["regions_total"] = len(regs_all)
    chk.extra["regions_where_unknown_blocks_can_exist"] = len(unknown_regs)
    chk.require(0 < len(unknown_regs) < len(regs_all),
                "version regions that can hold unknown blocks: %d of %d (expected a proper subset)" % (len(unknown_regs), len(regs_all)))

    P = discover_P(F)
    for fid in list(P):
        if F.fns[fid]["name"] in NOT_P:
            chk.note("not a primitive: %s — %s" % (F.fns[fid]["name"], NOT_P[F.fns[fid]["name"]]))
            del P[fid]
    chk.extra["primitives"] = {F.fns[f]["name"]: w for f, w in P.items()}
    chk.require(len(P) >= 4, "fewer than 4 block-table primitives discovered: %s" % sorted(F.fns[f]["name"] for f in P))

    class U(Unguarded):
        def _param_guard_discharges(self, callee_id, call, sub):
            # UpdateHeaderStrings(hasUnknown): inside the callee the path is guarded by its bool parameter being
            # false … the callee's own analysis sees G(param, False) only if param is *named* hasUnknown; handled by
            # guarded_state through the name.  Here: the argument bound to that parameter must be the member.
            return False

    U1 = U(F, P, VE, unknown_regs)
    save = [f for f in F.fn_named("nifly::NifFile::Save") if "ostream" in f["id"]]
    chk.require(len(save) == 1, "NifFile::Save(std::ostream&) not found")
    for root in [load] + save:
        ch = U1.chain(root["id"])
        chk.instance(R1, ok=ch is None, sample={"root": root["name"], "guarded": ch is None})
        if ch is not None:
            path = " > ".join("%s@%s" % (f["name"].split("::")[-1], (n.get("loc") or "").split(":")[0]) for f, n in ch)
            last_fn, last_call = ch[-1]
            chk.violation("R3.1", "C03/R3.1:%s:%s" % (root["short"], "->".join(f["name"].split("::")[-1] for f, _ in ch) +
                                                       "->" + (last_call.get("short") or "?")),
                          where(last_fn, last_call),
                          "from %s a block-table primitive (%s) is reachable with no hasUnknown guard on the path: %s" % (
                              root["name"], last_call.get("short"), path))
    # per-call-site accounting for evidence: every call site of a primitive reachable from Load/Save
    reach = F.reachable([load["id"]] + [s["id"] for s in save])
    nsites = 0
    for fid in reach:
        fn = F.fns.get(fid)
        if not fn:
            continue
        for n, ts in F.calls_in(fn):
            if any(t in P for t in ts):
                nsites += 1
                chk.instance(R1, ok=True, sample={"site": "%s -> %s" % (fn["name"], n.get("short"))})
    chk.extra["primitive_call_sites_on_load_save_paths"] = nsites
    chk.floor(R1, 4)

    # parameter binding: callee guards on a bool parameter named like the member; verify the argument is the member
    uhs = F.fn_named("nifly::NiHeader::UpdateHeaderStrings")
    for fn in uhs:
        bools = [i for i, p in enumerate(fn["params"]) if (p.get("ct") or p.get("t")) in ("bool", "const bool")]
        for caller_id, node in F.callers().get(fn["id"], []):
            if caller_id not in reach:
                continue
            caller = F.fns[caller_id]
            for i in bools:
                a = node.get("args", [])[i] if i < len(node.get("args", [])) else None
                ok = is_node(a) and a["k"] == "Member" and a.get("name") == "hasUnknown" and a.get("owner") == NIF
                chk.instance(R1, ok=ok, sample={"call": "%s -> UpdateHeaderStrings(%s)" % (caller["name"], show(a))})
                if not ok:
                    chk.violation("R3.1", "C03/R3.1:UpdateHeaderStrings-arg:%s" % caller["name"], where(caller, node),
                                  "UpdateHeaderStrings is called with `%s` instead of the model's hasUnknown flag: the string "
                                  "table is rebuilt although unknown blocks may hold indices into it" % show(a))

    # ---------------- R3.2
    bulk = set(f for f in P if F.fns[f]["short"] == "SetBlockOrder")
    bulk |= set(f["id"] for f in F.fns.values() if f.get("cls") == HDR and f["short"] == "DeleteUnreferencedBlocks"
                and f.get("tmpl") != "pattern")
    U2 = U(F, {f: "bulk" for f in bulk}, VE, unknown_regs)
    for fn in sorted(F.fns.values(), key=lambda f: f["id"]):
        if fn.get("cls") != NIF or fn.get("access") != "public" or fn.get("tmpl") == "pattern":
            continue
        if not (F.reachable([fn["id"]]) & bulk):
            continue
        ch = U2.chain(fn["id"])
        chk.instance(R2, ok=ch is None, sample={"entry": fn["name"]})
        if ch is not None:
            path = " > ".join("%s@%s" % (f["name"].split("::")[-1], (n.get("loc") or "").split(":")[0]) for f, n in ch)
            chk.violation("R3.2", "C03/R3.2:%s" % fn["name"].split("<")[0], where(ch[-1][0], ch[-1][1]),
                          "public %s reaches a block reorder / bulk prune with no hasUnknown guard: %s" % (fn["name"], path))
    # member templates: the instantiations present in the library were analysed above; the pattern stands for every other
    # instantiation a caller may make, with its dependent calls resolved by name
    bulk_names = {F.fns[f]["short"] for f in bulk}
    for fn in sorted(F.fns.values(), key=lambda f: f["id"]):
        if fn.get("cls") != NIF or fn.get("access") != "public" or fn.get("tmpl") != "pattern" or not fn.get("body"):
            continue
        dep = [n for n in walk(fn["body"]) if n["k"] == "Call" and not n.get("fid") and is_node(n.get("callee")) and
               any(re.search(r"\b%s\b" % re.escape(b), show(n["callee"])) for b in bulk_names)]
        if not dep:
            continue
        ids_ = {id(n) for n in dep}
        colp = flow.Collect(F, fn, lambda n: id(n) in ids_)
        colp.run()
        for n, sts in colp.by_node():
            ok = all(st is None or U2.guarded_state(st, fn) for st in sts)
            chk.instance(R2, ok=ok, sample={"entry": fn["name"] + " (template pattern)", "dependent_call": show(n["callee"])[:60]})
            if not ok:
                chk.violation("R3.2", "C03/R3.2:%s" % fn["name"].split("<")[0], where(fn, n),
                              "public member template %s reaches a block reorder / bulk prune (%s) that is not guarded by "
                              "hasUnknown==false for every instantiation" % (fn["name"], show(n["callee"])[:60]))
    chk.floor(R2, 5)

    # ---------------- R3.6 a function that consults hasUnknown protects every block-list change it makes
    R6 = chk.rule("R3.6", "a NifFile function that tests hasUnknown at all (its author judged it unsafe for files with unknown blocks) "
                          "makes every change of the block list only where hasUnknown is known to be false: a test that lets a "
                          "path with unknown blocks through (`!root && hasUnknown` for `||`) is a contradiction of that belief")
    mutators = set(P) | {f["id"] for f in F.fns.values() if f.get("cls") == HDR and f["short"] in ("DeleteBlock", "DeleteBlockByType", "ReplaceBlock")
                         and f.get("tmpl") != "pattern"}
    for fn in sorted(F.fns.values(), key=lambda f: f["id"]):
        if fn.get("cls") != NIF or fn.get("tmpl") == "pattern" or not fn.get("body"):
            continue
        tests = [n for n in walk(fn["body"]) if n["k"] in ("If", "While", "For") and is_node(n.get("cond")) and
                 any(x["k"] == "Member" and x.get("name") == "hasUnknown" and x.get("owner") == NIF for x in walk(n["cond"]))]
        if not tests:
            continue
        calls = [n for n in walk(fn["body"]) if n["k"] == "Call" and n.get("fid") and
                 (n["fid"] in mutators or (F.reachable([n["fid"]]) & mutators))]
        if not calls:
            continue
        ids_ = {id(n) for n in calls}
        col6 = flow.Collect(F, fn, lambda n: id(n) in ids_)
        col6.run()
        for n, sts in col6.by_node():
            ok = all(st is None or U2.guarded_state(st, fn) for st in sts)
            chk.instance(R6, ok=ok, sample={"fn": fn["name"], "call": (n.get("fn") or "").split("::")[-1], "behind_hasUnknown_false": ok})
            if not ok:
                chk.violation("R3.6", "C03/R3.6:%s:%s" % (fn["name"], (n.get("fn") or "?").split("::")[-1]), where(fn, n),
                              "%s tests hasUnknown but reaches %s on a path where hasUnknown can be true: blocks of a file with unknown "
                              "block types are deleted or moved" % (fn["name"], n.get("fn")))
    chk.floor(R6, 3)

    # ---------------- R3.3
    for fn in F.fns.values():
        if fn.get("tmpl") == "pattern":
            continue
        for n in walk(fn.get("body") or {}):
            if n["k"] == "Assign" and is_node(n["l"]) and n["l"]["k"] == "Member" and n["l"].get("name") == "hasUnknown" \
                    and n["l"].get("owner") == NIF:
                r = n["r"]
                b = n["l"].get("base")
                own = b is None or b["k"] == "This"
                kind = None
                if fn["name"] == "nifly::NifFile::Clear" and is_node(r) and r.get("val") == 0 and own:
                    kind = "reset in Clear"
                elif fn["name"] == "nifly::NifFile::CopyFrom" and is_node(r) and r["k"] == "Member" and \
                        r.get("name") == "hasUnknown" and own:
                    kind = "copied in CopyFrom"
                elif fn["name"] == "nifly::NifFile::Load" and is_node(r) and r.get("val") == 1 and own:
                    kind = "set in Load"
                chk.instance(R3, ok=kind is not None, sample={"fn": fn["name"], "assign": show(n), "kind": kind})
                if kind is None:
                    chk.violation("R3.3", "C03/R3.3:write:%s:%s" % (fn["name"], show(n["r"])), where(fn, n),
                                  "hasUnknown is assigned `%s` in %s; it may only be set next to a NiUnknown construction in "
                                  "Load, copied in CopyFrom and reset in Clear" % (show(n["r"]), fn["name"]))
    # every NiUnknown construction in NifFile is paired with hasUnknown = true in the same block
    for fn in F.fns.values():
        if fn.get("cls") != NIF or fn.get("tmpl") == "pattern":
            continue
        for comp in walk(fn.get("body") or {}):
            if comp["k"] != "Compound":
                continue
            makes = []
            sets_true = False
            for stmt in comp["body"]:
                for n in walk(stmt):
                    if n is not stmt and n["k"] == "Compound":
                        pass
                    if n["k"] == "Call" and n.get("short") == "make_unique" and any("NiUnknown" in str(t) for t in n.get("targs", [])):
                        makes.append(n)
                    if n["k"] == "New" and "NiUnknown" in (n.get("alloc") or ""):
                        makes.append(n)
                    if n["k"] == "Assign" and show(n["l"]) == "hasUnknown" and is_node(n["r"]) and n["r"].get("val") == 1:
                        sets_true = True
            # only count the innermost compound containing the construction directly
            direct = [m for m in makes if any(m in list(walk(s)) and not _in_nested_compound(s, m) for s in comp["body"])]
            for m in direct:
                chk.instance(R3, ok=sets_true, sample={"fn": fn["name"], "constructs": "NiUnknown", "sets_flag": sets_true})
                if not sets_true:
                    chk.violation("R3.3", "C03/R3.3:construct:%s" % fn["name"], where(fn, m),
                                  "%s creates a NiUnknown block without setting hasUnknown in the same block" % fn["name"])
    # CopyFrom must carry the flag over
    cf = F.fn1("nifly::NifFile::CopyFrom")
    def _lc3(n_):
        try:
            a_, b_ = (n_.get("loc") or "0:0").split(":")[:2]
            return (int(a_), int(b_))
        except ValueError:
            return (0, 0)

    # the copy of the flag has to come after the (conditional) Clear(), which resets it
    last_clear3 = max([_lc3(n) for n in walk(cf["body"]) if n["k"] == "Call" and n.get("fn") == "nifly::NifFile::Clear"] or [(0, 0)])
    copies = any(n["k"] == "Assign" and show(n["l"]) == "hasUnknown" and "hasUnknown" in show(n["r"]) and _lc3(n) > last_clear3
                 for n in walk(cf["body"]))
    chk.instance(R3, ok=copies, sample={"fn": "NifFile::CopyFrom", "copies_flag": copies})
    if not copies:
        chk.violation("R3.3", "C03/R3.3:CopyFrom", where(cf),
                      "NifFile::CopyFrom does not carry hasUnknown over: a copy of a model with unknown blocks is sorted and pruned on save")
    chk.floor(R3, 4)

    # ---------------- R3.4
    unk = F.fn1("nifly::NiUnknown::Sync")
    prims = [n for n in walk(unk["body"]) if n["k"] == "Call" and n.get("cls") == "nifly::NiStreamReversible"]
    ok = len(prims) == 1 and len(prims[0].get("args", [])) == 2 and "data" in show(prims[0]["args"][0]) and \
        show(prims[0]["args"][1]) == "blockSize"
    chk.instance(R4, ok=ok, sample={"sync": [show(p) for p in prims]})
    if not ok:
        chk.violation("R3.4", "C03/R3.4:NiUnknown::Sync", where(unk),
                      "NiUnknown::Sync must perform exactly one raw transfer of `data` with length `blockSize`; found: %s" % [show(p) for p in prims])
    # no other member of NiUnknown / no write-mode mutation
    writes = [n for n in walk(unk["body"]) if n["k"] == "Assign" or
              (n["k"] == "Call" and n.get("ext") and n.get("short") in SHRINKERS | {"push_back", "insert"})]
    chk.instance(R4, ok=not writes, sample={"mutations_in_sync": [show(w) for w in writes]})
    if writes:
        chk.violation("R3.4", "C03/R3.4:NiUnknown::Sync:mutation", where(unk, writes[0]),
                      "NiUnknown::Sync modifies the opaque payload: %s" % show(writes[0]))
    for fn in F.fns.values():
        if fn.get("cls") == "nifly::NiUnknown" and fn.get("ctor") and fn.get("params") and not fn.get("defaulted"):
            sizep = [p for p in fn["params"] if "int" in (p.get("ct") or p.get("t"))]
            if not sizep:
                continue
            resized, sized = _unknown_ctor_sizes(F, fn, sizep[0]["name"])
            ok = resized and sized
            chk.instance(R4, ok=ok, sample={"ctor": fn["id"], "resize": resized, "blockSize": sized})
            if not ok:
                chk.violation("R3.4", "C03/R3.4:%s" % fn["id"], where(fn),
                              "NiUnknown constructor must size both the buffer and blockSize from its size argument")
    # Load passes the header's size for the same index
    for n in walk(load["body"]):
        if n["k"] == "Call" and n.get("short") == "make_unique" and any("NiUnknown" in str(t) for t in n.get("targs", [])):
            args = n.get("args", [])
            ok = len(args) == 2 and is_node(args[1]) and args[1]["k"] == "Call" and args[1].get("short") == "GetBlockSize"
            if ok:
                # same index as the slot assigned
                idx = show(args[1]["args"][0])
                parent_assign = [a for a in walk(load["body"]) if a["k"] in ("Assign", "OpCall") and n in list(walk(a)) and a is not n]
                slot_ok = any(("blocks[%s]" % idx) in show(a) for a in parent_assign)
                ok = ok and slot_ok
            chk.instance(R4, ok=ok, sample={"load_constructs": show(n)[:120]})
            if not ok:
                chk.violation("R3.4", "C03/R3.4:Load:size", where(load, n),
                              "Load must construct NiUnknown with hdr.GetBlockSize(i) of the slot it fills")
    chk.floor(R4, 4)

    # ---------------- R3.5 append-only strings under hasUnknown
    # mutators of NiHeader::strings reachable from Save, with guard facts: under hasUnknown only push_back may remain
    str_mut = {}
    for fn in F.fns.values():
        if fn.get("cls") != HDR or fn.get("tmpl") == "pattern":
            continue
        for n in walk(fn.get("body") or {}):
            if n["k"] == "Call" and n.get("ext") and is_node(n.get("recv")) and _member_root(n["recv"]) == "strings" and \
                    not n.get("cmeth") and n.get("short") not in ("begin", "end", "size", "empty", "operator[]", "at", "data",
                                                                     "front", "back", "cbegin", "cend"):
                str_mut.setdefault(fn["id"], []).append(n)
            if n["k"] == "Assign" and _member_root(n["l"]) == "strings":
                str_mut.setdefault(fn["id"], []).append(n)
    save_reach = F.reachable([s["id"] for s in save])
    for fid, nodes in sorted(str_mut.items()):
        fn = F.fns[fid]
        if fid not in save_reach:
            continue
        for n in nodes:
            appending = n["k"] == "Call" and n.get("short") in ("push_back", "emplace_back")
            if appending:
                chk.instance(R5, ok=True, sample={"fn": fn["name"], "op": show(n)[:60], "kind": "append"})
                continue
            # a non-appending mutator on the save path must sit behind the guard: its function is in P and R3.1 applies,
            # or it is an element store (SetStringById) that keeps positions
            elem_store = n["k"] == "Assign" and is_node(n["l"]) and n["l"]["k"] in ("Subscript", "Call", "Member") and \
                show(n["l"]).startswith("strings[")
            in_p = fid in P
            ok = in_p or elem_store
            chk.instance(R5, ok=ok, sample={"fn": fn["name"], "op": show(n)[:60], "kind": "guarded primitive" if in_p else "element store"})
            if not ok:
                chk.violation("R3.5", "C03/R3.5:%s:%s" % (fn["name"], n.get("short") or "assign"), where(fn, n),
                              "%s changes the string table other than by appending and is reachable from Save without being "
                              "one of the guarded primitives" % fn["name"])
    # AddOrFindStringId: find loop dominates push_back (an existing string keeps its index)
    add = F.fn1("nifly::NiHeader::AddOrFindStringId")

    def _lookup_loop(s_):
        """a loop over the string table that compares entries and returns on a hit"""
        return s_["k"] in ("For", "RangeFor", "While") and any(x["k"] == "Return" for x in walk(s_)) and \
            any(x["k"] in ("OpCall", "Binary") and x.get("op") == "==" for x in walk(s_)) and \
            any(x["k"] == "Member" and x.get("name") == "strings" for x in walk(s_))

    lookup_fns = {f["id"] for f in F.fns.values() if f.get("cls") == HDR and f.get("const") and f.get("body") and
                  any(_lookup_loop(x) for x in walk(f["body"]))}
    pushes = [n for n in walk(add["body"]) if n["k"] == "Call" and n.get("short") in ("push_back", "emplace_back")
              and _member_root(n.get("recv")) == "strings"]
    pids_ = {id(n) for n in pushes}

    class A(flow.Collect):
        def on_stmt(self, s_, st):
            if st is not None and _lookup_loop(s_):
                return st | {("D", "looked-up")}
            return st

        def on_node(self, n, st):
            st = super().on_node(n, st)
            if st is not None and n["k"] == "Call" and n.get("fid") in lookup_fns:
                return st | {("D", "looked-up")}  # a lookup helper (FindStringId) called before appending
            return st

    a_ = A(F, add, lambda n: id(n) in pids_)
    a_.run()
    ok = bool(pushes) and all(st is None or ("D", "looked-up") in st for _, sts in a_.by_node() for st in sts) and bool(a_.by_node())
    chk.instance(R5, ok=ok, sample={"fn": "AddOrFindStringId", "find_loop_before_append": ok})
    if not ok:
        chk.violation("R3.5", "C03/R3.5:AddOrFindStringId", where(add),
                      "AddOrFindStringId must return an existing index before it appends")
    chk.floor(R5, 3)

    chk.assumptions += [
        "calls between a hasUnknown guard and a primitive do not change hasUnknown (R3.3: only Load, Clear and CopyFrom write it)",
        "byte equality of the opaque payload follows from R3.4 and the stream primitives and is not separately proven",
    ]
    chk.extra["explanation"] = ("guard dominance (interprocedural must-pass-through) of hasUnknown over every block-table "
                                "primitive reachable from Load/Save and from public entry points, who-may-write hasUnknown, "
                                "opaque payload and append-only string table; payload byte equality itself is not decided")


def _in_nested_compound(stmt, target):
    """is target inside a Compound nested below stmt (then it belongs to that inner block)"""
    for n in walk(stmt):
        if n is stmt:
            continue
        if n["k"] == "Compound" and any(x is target for x in walk(n)):
            return True
    return False


def _before(body, a, b):
    order = [id(n) for n in walk(body)]
    try:
        return order.index(id(a)) < order.index(id(b))
    except ValueError:
        return False
