"""C13 — geometry written through the API is what is read back (thin partial).

Only one clause is structural: for every Set<X>ForShape / Get<X>ForShape pair, every per-vertex storage field the getter
reads (directly or through the raw-array refresh helpers) is a field the setter writes, for both storage kinds
(NiGeometryData arrays and the packed BSVertexData records).  If it fails, a value stored by the setter can never be the
value handed back.  Bit-exactness, half-float tolerance, triangle order, counts "within the documented quantisation" and
save/reload equality quantify over runtime arrays and are NOT decided."""
import re
from facts import is_node, walk, where, show
import flow
import paths
from paths import Event, render

NIF = "nifly::NifFile"
RECORD_STORAGE = ("nifly::BSVertexData",)
ARRAY_OWNERS = ("nifly::NiGeometryData",)
STD_MUT = {"resize", "clear", "push_back", "emplace_back", "erase", "insert", "assign", "swap"}


def storage_fields(F):
    """per-vertex storage: every field of BSVertexData, and the NiGeometryData members that are vectors"""
    out = {}
    for rec in RECORD_STORAGE:
        for f in (F.recs.get(rec) or {}).get("fields", []):
            out[(rec, f["name"])] = True
    for rec in ARRAY_OWNERS:
        for f in (F.recs.get(rec) or {}).get("fields", []):
            if "std::vector<" in f["ct"]:
                out[(rec, f["name"])] = True
            elif f["name"].startswith("has") and (f.get("ct") or f.get("t") or "").replace("const ", "") == "bool":
                out[(rec, f["name"])] = True  # presence flag of a per-vertex array: the getter hands nothing out while it is off
    # the packed format keeps all presence flags in the vertex descriptor
    for f in (F.recs.get("nifly::VertexDesc") or {}).get("fields", []):
        out[("nifly::VertexDesc", f["name"])] = True
    return out


def make_primitive(F, storage):
    def prim(n, env, fn, st):
        k = n["k"]
        if k == "Assign" or (k == "OpCall" and n.get("op") == "=" and len(n.get("args", [])) == 2):
            tgt = n["l"] if k == "Assign" else n["args"][0]
            m = _storage_member(tgt, storage, _ref_aliases(fn))
            if m:
                return [Event(env.path(tgt), "write", {"field": m})]
            return None if k == "OpCall" else None
        if k == "Call" and n.get("ext") and n.get("short") in STD_MUT and is_node(n.get("recv")):
            m = _storage_member(n["recv"], storage, _ref_aliases(fn))
            if m:
                return [Event(env.path(n["recv"]), "write", {"field": m})]
            return []
        if k == "Member" and n.get("mk") == "field" and (n.get("owner"), n["name"]) in storage:
            return [Event(env.path(n), "read", {"field": (n["owner"], n["name"])})]
        if k == "Call" and n.get("ext"):
            return []
        return None

    return prim


def _ref_aliases(fn):
    if "_ref_alias" not in fn:
        m = {}
        assigned = {x["l"]["id"] for x in walk(fn.get("body") or {}) if x["k"] == "Assign" and is_node(x["l"]) and x["l"]["k"] == "Ref"}
        for d in walk(fn.get("body") or {}):
            if d["k"] == "Decl":
                for v in d.get("vars", []):
                    t = (v.get("ct") or v.get("t") or "").rstrip()
                    if is_node(v.get("init")) and v["id"] not in assigned and (t.endswith("&") or t.endswith("*") or "(&)" in t or "(*)" in t):
                        m[v["id"]] = v["init"]
        fn["_ref_alias"] = m
    return fn["_ref_alias"]


def _storage_member(e, storage, alias=None):
    """the storage field an lvalue designates (innermost storage member on the access chain; reference / pointer locals are
    followed to what they were bound to: `auto& n = vertData[i].normal; n[0] = ...`)"""
    hops = 0
    while is_node(e):
        k = e["k"]
        if k == "Ref" and alias and e.get("id") in alias and hops < 4:
            e = alias[e["id"]]
            hops += 1
            continue
        if k == "Member" and e.get("mk") == "field":
            if (e.get("owner"), e["name"]) in storage:
                return (e["owner"], e["name"])
            e = e.get("base")
        elif k == "Subscript":
            e = e["base"]
        elif k == "Cast":
            e = e["e"]
        elif k == "Unary" and e["op"] in ("*", "&"):
            e = e["e"]
        elif k == "OpCall" and e.get("op") in ("*", "->") and e.get("args"):
            e = e["args"][0]
        elif k == "Call" and e.get("short") in ("at", "front", "back", "data") and e.get("recv") is not None:
            e = e["recv"]
        else:
            return None
    return None


def run(F, chk):
    R1 = chk.rule("R13.1", "for every Set<X>ForShape / Get<X>ForShape pair of NifFile, every per-vertex storage field the getter reads "
                           "(NiGeometryData arrays, BSVertexData fields; through helpers) is written by the setter")
    storage = storage_fields(F)
    chk.require(len(storage) >= 15, "per-vertex storage fields not recognised (%d)" % len(storage))
    S = paths.Summarizer(F, make_primitive(F, storage), node_kinds=("Call", "OpCall", "Construct", "Assign", "Member"))
    setters, getters = {}, {}
    for fn in F.fns.values():
        if fn.get("cls") != NIF or fn.get("tmpl") == "pattern":
            continue
        m = re.match(r"^(Set|Get)(\w+)ForShape$", fn["short"])
        if not m:
            continue
        if not fn.get("params") or "NiShape" not in (fn["params"][0].get("ct") or fn["params"][0].get("t") or ""):
            continue
        (setters if m.group(1) == "Set" else getters).setdefault(m.group(2), []).append(fn)
    pairs = sorted(set(setters) & set(getters))
    chk.extra["pairs"] = pairs
    chk.require(len(pairs) >= 6, "fewer than 6 setter/getter pairs found: %s" % pairs)
    for x in pairs:
        W, R = set(), {}
        for fn in setters[x]:
            for ev in S.events(fn["id"]):
                if ev.kind == "write":
                    W.add(ev.info["field"])
        for fn in getters[x]:
            for ev in S.events(fn["id"]):
                if ev.kind == "read":
                    R.setdefault(ev.info["field"], fn)
        # reading the container as a whole (vertData) to reach an element is not a field read of interest: it is implied
        containers = {f for f in R if f[0] not in RECORD_STORAGE and False}
        for fld, gfn in sorted(R.items()):
            ok = fld in W
            chk.instance(R1, ok=ok, sample={"pair": x, "field": "%s::%s" % fld, "read_by": gfn["name"], "written_by_setter": ok})
            if not ok:
                chk.violation("R13.1", "C13/R13.1:%s:%s::%s" % (x, fld[0], fld[1]), where(gfn),
                              "Get%sForShape reads per-vertex field %s::%s, but Set%sForShape never writes it: a value stored "
                              "through the setter is not the value read back" % (x, fld[0], fld[1], x))
    chk.floor(R1, 12)
    # ---------------------------------------------------------------- R13.2
    import intervals
    import schema
    import versions
    R2 = chk.rule("R13.2", "for every geometry class with a Create(version, ...) and every version region, the largest count Create can "
                           "store in a counter (its clamp) equals the capacity of the integer through which that class's Sync writes the "
                           "counter in that region: Create neither drops elements the format can hold nor keeps more than it can write")
    B = schema.SchemaBuilder(F)
    VE = versions.VersionEval(F)
    regs = sorted(set(VE.named_versions().values())) if chk.tier == "quick" else sorted(set(VE.regions()))
    creates = [f for f in F.fns.values() if f["short"] == "Create" and f.get("cls") and f.get("body") and f.get("tmpl") != "pattern"
               and f.get("params") and "NiVersion" in (f["params"][0].get("ct") or f["params"][0].get("t") or "")
               and F.derives_from(f["cls"], "nifly::NiObject")]
    chk.require(len(creates) >= 3, "fewer than 3 Create(version, ...) functions found")
    import c08
    evs = {}
    for fn in creates:
        evs[fn["cls"]] = B.events(fn["cls"], "write")
    groups = c08.signature_groups(B, VE, regs)
    for fn in sorted(creates, key=lambda f: f["id"]):
        cls = fn["cls"]
        fields = {f["name"]: f for _, f in F.fields(cls, inherited=True)}
        counters = {}
        for n in walk(fn["body"]):
            if n["k"] == "Assign" and n["op"] == "=" and is_node(n["l"]) and n["l"]["k"] == "Member" and n["l"].get("base") is None or \
                    (n["k"] == "Assign" and n["op"] == "=" and is_node(n["l"]) and n["l"]["k"] == "Member" and is_node(n["l"].get("base")) and n["l"]["base"]["k"] == "This"):
                nm = n["l"]["name"]
                b = intervals.type_bits((fields.get(nm) or {}).get("t")) or intervals.type_bits((fields.get(nm) or {}).get("ct"))
                if b and b <= 32:
                    counters[nm] = b
        if not counters or evs.get(cls) is None:
            continue
        locs = {}
        for n in walk(fn["body"]):
            if n["k"] == "Decl":
                for v in n.get("vars", []):
                    b = intervals.type_bits(v.get("t")) or intervals.type_bits(v.get("ct"))
                    if b:
                        locs[v["id"]] = b
        seen = set()
        for sig, rs in sorted(groups.items(), key=lambda kv: kv[1][0]):
            rep = rs[0]
            rv = schema.RegionView(B, VE, rep)
            widths = {}
            for e in rv.project(evs[cls], drop_local_gates=True):
                if e[1] in counters and isinstance(e[2], int) and e[0] in ("sync", "val"):
                    widths[e[1]] = min(widths.get(e[1], 99), e[2])
            A = intervals.Intervals(fn, locs, members=counters,
                                    oracle=lambda c, rep=rep: (VE.ev(c, rep) if VE.is_version_expr(c) else None))
            A.run()
            for nm in sorted(counters):
                if nm not in widths:
                    continue
                ivs = [env["m:" + nm] for env, _ in A.exit_envs if "m:" + nm in env]
                his = [iv[1] for iv in ivs]
                if not his or all(iv[0] == iv[1] for iv in ivs):
                    continue  # never assigned, or only set to constants (`numMatchGroups = 0`): not a clamp of a caller-supplied size
                clamp, cap = max(his), (1 << (8 * widths[nm])) - 1
                k_ = (nm, clamp, cap)
                if k_ in seen:
                    continue
                seen.add(k_)
                ok = clamp == cap
                chk.instance(R2, ok=ok, sample={"class": cls, "counter": nm, "version": "%08x/%d/%d" % rep, "create_clamp": clamp,
                                                "wire_capacity": cap})
                if not ok:
                    chk.violation("R13.2", "C13/R13.2:%s:%s" % (cls, nm), where(fn),
                                  "%s::Create can store at most %d in `%s` for version %08x/%d/%d, but %s::Sync writes that counter "
                                  "through a %d-byte integer (capacity %d): %s" % (
                                      cls, clamp, nm, rep[0], rep[1], rep[2], cls, widths[nm], cap,
                                      "elements the format can hold are silently dropped at creation" if clamp < cap else
                                      "more elements are kept than the file can describe"))
    chk.floor(R2, 4)

    # ---------------------------------------------------------------- R13.3
    R3 = chk.rule("R13.3", "where the pre-write pipeline mirrors a member of the shape into another block under the same name "
                           "(`skinPart->vertData = shape->vertData`), the copy is not made to depend on the state of the mirror itself: "
                           "a setter that keeps the counts leaves the mirror stale, and the stale copy is what gets written")
    fin = F.fn1("nifly::NifFile::FinalizeData")
    n3 = 0
    for fid in sorted(F.reachable([fin["id"]]) | {fin["id"]}):
        fn = F.fns.get(fid)
        if not fn or fn.get("tmpl") == "pattern" or not fn.get("body"):
            continue
        # NifFile's own functions, the file-static helpers next to them and their lambdas
        if not (fn.get("cls") == NIF or (not fn.get("cls") and (fn.get("file") == fin.get("file") or fn.get("lambda_parent")))):
            continue
        mirrors = []
        for n in walk(fn["body"]):
            l = r = None
            if n["k"] == "Assign" and n["op"] == "=":
                l, r = n["l"], n["r"]
            elif n["k"] == "OpCall" and n.get("op") == "=" and len(n.get("args", [])) == 2:
                l, r = n["args"]
            while is_node(r) and r["k"] == "Cast":
                r = r["e"]
            if is_node(l) and is_node(r) and l["k"] == "Member" and r["k"] == "Member" and l.get("name") == r.get("name") and \
                    is_node(l.get("base")) and is_node(r.get("base")) and show(l["base"]) != show(r["base"]) and \
                    l.get("mk", "field") == "field" and r.get("mk", "field") == "field":
                mirrors.append((n, l))
        if not mirrors:
            continue
        ids_ = {id(n) for n, _ in mirrors}
        saved = flow.KEYNODE
        flow.KEYNODE = {}
        try:
            col = flow.Collect(F, fn, lambda n: id(n) in ids_)
            col.run()
            reg = flow.KEYNODE
        finally:
            flow.KEYNODE = saved
        lhs_of = {id(n): l for n, l in mirrors}
        for n, sts in col.by_node():
            l = lhs_of[id(n)]
            tgt = show(l)
            bad = None
            for st in sts:
                for f in (st or ()):
                    if f[0] != "G":
                        continue
                    node = reg.get(f[1])
                    node = node[1] if isinstance(node, tuple) and len(node) > 1 else node
                    if is_node(node) and any(y["k"] == "Member" and show(y) == tgt for y in walk(node)):
                        bad = f[1]
            n3 += 1
            chk.instance(R3, ok=bad is None, sample={"fn": fn["name"], "mirror": tgt, "copied_unconditionally_wrt_mirror": bad is None})
            if bad is not None:
                chk.violation("R13.3", "C13/R13.3:%s:%s" % (fn["name"], tgt), where(fn, n),
                              "%s refreshes `%s` from the shape only depending on `%s`, a test of the mirror itself: after a "
                              "per-vertex setter that keeps the counts the mirror is stale and the save writes the old data" % (
                                  fn["name"], tgt, bad))
    chk.floor(R3, 4)

    # ---------------------------------------------------------------- R13.4
    R4 = chk.rule("R13.4", "a NifFile function that builds a shape per game version hands the same input arrays to every variant's "
                           "Create(...): the set of the function's own parameters forwarded to the Create calls in its version branches "
                           "is the same in every branch (Create's optional arrays default to nullptr, so a dropped argument compiles "
                           "and the created shape silently lacks that data in one game only)")
    n4 = 0
    for fn in sorted(F.fns.values(), key=lambda f: f["id"]):
        if fn.get("cls") != NIF or not fn.get("body") or fn.get("tmpl") == "pattern":
            continue
        pids = {p_["id"]: p_["name"] for p_ in fn.get("params", [])}
        calls = []
        for n in walk(fn["body"]):
            if n["k"] == "Call" and n.get("short") == "Create" and is_node(n.get("recv")) and not n.get("ext"):
                rt = (n["recv"].get("ct") or n["recv"].get("t") or "")
                fwd = set()
                for a in n.get("args", []):
                    for x in walk(a):
                        if x["k"] == "Ref" and x.get("id") in pids:
                            fwd.add(pids[x["id"]])
                calls.append((n, fwd))
        if len(calls) < 2:
            continue
        union = set().union(*[f_ for _, f_ in calls])
        for n, fwd in calls:
            n4 += 1
            ok = fwd == union
            chk.instance(R4, ok=ok, sample={"fn": fn["name"], "create_call_at": n.get("loc"), "forwards": sorted(fwd)})
            if not ok:
                chk.violation("R13.4", "C13/R13.4:%s:%s" % (fn["name"].split("(")[0], ",".join(sorted(union - fwd))), where(fn, n),
                              "%s forwards %s to the Create call of its other version branches but not to this one: a shape created "
                              "for this game lacks the data the caller supplied (the parameter defaults to nullptr)" %
                              (fn["name"], ", ".join("`%s`" % x for x in sorted(union - fwd))))
    chk.floor(R4, 3)

    # ---------------------------------------------------------------- R13.5
    R5 = chk.rule("R13.5", "Create(...) re-derives the vertex count of a geometry object, so it (re)initialises every array the class's "
                           "reader sizes to that count: an array it leaves alone keeps its old length when Create is used to re-create an "
                           "existing shape with another vertex count (NifFile::SetVertsForShape does), and 'all per-vertex arrays keep "
                           "the vertex count' no longer holds")
    import c02 as _c02
    S5 = paths.Summarizer(F, _c02.make_primitive(F), mode=flow.MODE_READ, value_proxies=True,
                          node_kinds=("Call", "OpCall", "Construct", "Assign", "Unary"))
    W5 = paths.Summarizer(F, _c02.make_primitive(F), mode=None, value_proxies=False,
                          node_kinds=("Call", "OpCall", "Construct", "Assign", "Unary"))
    n5 = 0
    for cfn in sorted(F.fns.values(), key=lambda f: f["id"]):
        if cfn.get("short") != "Create" or not cfn.get("cls") or not cfn.get("body") or cfn.get("tmpl") == "pattern":
            continue
        cls = cfn["cls"]
        if not (F.derives_from(cls, "nifly::NiGeometryData") or F.derives_from(cls, "nifly::BSTriShape")):
            continue
        wev = W5.events(cfn["id"])
        written = {ev.path[1] for ev in wev if ev.path and ev.path[0][0] == "this" and len(ev.path) > 1 and ev.kind in ("mut", "write", "assign")}
        if not any(ev.path and ev.path[0][0] == "this" and len(ev.path) > 1 and ev.path[1] == "numVertices" and len(ev.chain) == 1
                   and ev.kind in ("mut", "write", "assign") for ev in wev):
            continue  # this Create does not re-derive the vertex count itself (it delegates to a base Create, judged there)
        gets = F.method(cls, "Get")
        if not gets:
            continue
        varrays = {}
        for ev in S5.events(gets[0]["id"]):
            if ev.kind == "mut" and ev.info.get("op") == "resize" and ev.path is not None and ev.path[0][0] == "this" and len(ev.path) == 2:
                sp = ev.info.get("size_path")
                if sp is not None and render(sp) == "numVertices":
                    varrays[ev.path[1]] = ev
        for arr in sorted(varrays):
            n5 += 1
            ok = arr in written
            owner, _ = F.find_field(cls, arr)
            chk.instance(R5, ok=ok, sample={"create": cfn["name"], "array": "%s::%s" % (owner, arr)})
            if not ok:
                chk.violation("R13.5", "C13/R13.5:%s:%s" % (cfn["name"].split("(")[0], arr), where(cfn),
                              "%s assigns numVertices but never touches `%s`, which %s sizes to the vertex count: re-creating a shape "
                              "with another number of vertices leaves that array at its old length (the getter hands out the old "
                              "entries, the writer pads or cuts them)" % (cfn["name"], arr, gets[0]["name"]))
    chk.floor(R5, 4)

    # ---------------------------------------------------------------- R13.6
    R6 = chk.rule("R13.6", "an array that a geometry class's reader sizes (and its writer stores) only under a bool flag of the class is "
                           "never filled by a member function that leaves the flag alone: the function that assigns the array also "
                           "assigns the flag — otherwise the getter (which answers with the flag) hands nothing out and the writer "
                           "stores nothing although the data was set")
    import re as _re6
    import versions as _versions6
    VE6 = _versions6.VersionEval(F)
    gated6 = {}
    for fn in F.fns.values():
        if fn.get("short") != "Sync" or fn.get("tmpl") == "pattern" or not fn.get("cls"):
            continue
        for ev in S5.events(fn["id"]):
            if ev.kind == "mut" and ev.info.get("op") == "resize" and ev.path and ev.path[0][0] == "this" and len(ev.path) == 2 \
                    and len(ev.chain) == 1:
                gn = set()
                for g in ev.guards:
                    node = flow.KEYNODE.get(g[0])
                    expr = node[1] if isinstance(node, tuple) else node
                    if is_node(expr) and VE6.is_version_expr(expr):
                        continue
                    if len(g) > 2 and g[2]:
                        continue
                    if g[1] is True and _re6.fullmatch(r"[A-Za-z_]\w*", g[0]):
                        gn.add(g[0])
                own, _ = F.find_field(fn["cls"], ev.path[1])
                gated6.setdefault((own, ev.path[1]), []).append(gn)
    gated6 = {k: set.intersection(*v) for k, v in gated6.items() if set.intersection(*v)}

    def _own_member(e):
        while is_node(e) and e["k"] == "Cast":
            e = e["e"]
        if is_node(e) and e["k"] == "Member" and (e.get("base") is None or e["base"]["k"] == "This"):
            return e
        return None

    n6 = 0
    for (own, arr), gate in sorted(gated6.items()):
        if not (F.derives_from(own, "nifly::NiGeometryData") or F.derives_from(own, "nifly::BSTriShape") or own == "nifly::StripsInfo"):
            continue
        bools = {g for g in gate if any(f["name"] == g and (f.get("ct") or "").replace("const ", "") == "bool"
                                        for _, f in F.fields(own, inherited=True))}
        if not bools:
            continue
        for fn in sorted(F.fns.values(), key=lambda f: f["id"]):
            if not fn.get("body") or not fn.get("cls") or fn.get("tmpl") == "pattern" or fn.get("short") in ("Sync", "Get", "Put") \
                    or fn.get("ctor") or not F.derives_from(fn["cls"], own):
                continue
            fills, flags = [], []
            for n in walk(fn["body"]):
                tgt = None
                if n["k"] == "OpCall" and n.get("op") == "=" and len(n.get("args", [])) == 2:
                    tgt = n["args"][0]
                elif n["k"] == "Call" and n.get("ext") and n.get("short") in ("assign", "push_back", "emplace_back", "insert") and is_node(n.get("recv")):
                    tgt = n["recv"]
                elif n["k"] == "Assign":
                    m = _own_member(n["l"])
                    if m is not None and m["name"] in bools:
                        flags.append(n)
                    continue
                m = _own_member(tgt) if tgt is not None else None
                if m is not None and m["name"] == arr and m.get("owner") == own:
                    fills.append(n)
            if not fills:
                continue
            n6 += 1
            ok = bool(flags)
            chk.instance(R6, ok=ok, sample={"fn": fn["name"], "array": "%s::%s" % (own, arr), "flag": sorted(bools)})
            if not ok:
                chk.violation("R13.6", "C13/R13.6:%s:%s" % (fn["name"].split("(")[0], arr), where(fn, fills[0]),
                              "%s assigns `%s`, which %s::Sync reads and writes only under `%s`, without assigning that flag: data set "
                              "on an object whose flag is off is not handed back by the getter and not stored by a save" %
                              (fn["name"], arr, own.split("::")[-1], "/".join(sorted(bools))))
    chk.extra["R13.6_flag_gated_arrays"] = len(gated6)
    chk.floor(R6, 1)

    chk.assumptions += ["quantisation (half floats, byte colours/normals), triangle order, vertex-count preservation and save/reload "
                        "equality are value-level and NOT decided by this check"]
    chk.extra["explanation"] = ("thin partial: setter/getter storage-field agreement only (a necessary condition of read-back); "
                                "everything numeric in C13 is not decided")
