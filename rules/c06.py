"""C06 — block-graph edits keep every reference on its target and the header consistent (DESIGN §5 C06)."""
from facts import is_node, walk, where, show
import flow
import pairing
import staleidx

HDR = "nifly::NiHeader"
NIF = "nifly::NifFile"
BLOCK_TABLES = ("blocks", "blockTypeIndices", "blockSizes")


def _version_gated(sig):
    """is the guard signature conditioned on the block-size table being present (a File() version comparison)?"""
    return any("File()" in k or "version" in k for k, p in sig)


def run(F, chk):
    R1 = chk.rule("R6.1", "every NiHeader function that changes the length of the block list applies the same kind of change to "
                          "blockTypeIndices, to blockSizes under the version gate, and to numBlocks; blockTypes changes are paired "
                          "with numBlockTypes (and an index shift of blockTypeIndices on erase)")
    R2 = chk.rule("R6.2", "DeleteBlock: every path that erases from the block list reaches the loop notifying every remaining block")
    R3 = chk.rule("R6.3", "index fix-up consumers (BlockDeleted, SetBlockOrder) consult both GetChildRefs and GetPtrs")
    R4 = chk.rule("R6.4", "AddBlock / ReplaceBlock derive the type name from the object being stored (GetBlockName())")
    R5 = chk.rule("R6.5", "a plain integer holding a block index is not read after a block-deleting call unless re-derived or "
                          "adjusted against the deleted index (references are shifted by the header, integers are not)")

    # ---------------------------------------------------------------- R6.1
    hdr_fns = [F.inl(f) for f in sorted(F.fns.values(), key=lambda f: f["id"])
               if f.get("cls") == HDR and f.get("tmpl") != "pattern" and not f.get("ctor") and f.get("body")]
    expanded_helpers = {h for f in hdr_fns for h in f.get("inlined_from", [])}
    for fn in hdr_fns:
        if fn["id"] in expanded_helpers:
            continue  # a private helper is judged as part of the functions it was expanded into
        lo = pairing.length_ops(fn, HDR, set(BLOCK_TABLES))
        co = pairing.counter_ops(fn, HDR, {"numBlocks"})
        if lo or co:
            sig = pairing.guard_sig(F, fn, [o[0] for o in lo + co], BLOCK_TABLES + ("numBlocks",))
            by = {t: [] for t in BLOCK_TABLES + ("numBlocks",)}
            for n, m, kind, arg in lo:
                by[m].append((kind, _addend(arg), n))
            for n, m, kind, arg in co:
                if kind != "=read":
                    by["numBlocks"].append((kind, None, n))
            # reference: blockTypeIndices (always present); compare kinds
            ref = [k for k, a, n in by["blockTypeIndices"]]
            for t in ("blocks", "numBlocks", "blockSizes"):
                mine = [k for k, a, n in by[t]]
                # the reader sizes tables from the count it just read; `blocks` lives in NifFile and is sized by Load
                if fn["short"] == "Get":
                    ok = all(k == "=N" for k in mine) and all(k == "=N" for k in ref)
                elif t == "numBlocks":
                    # a whole-table replacement by a same-length permutation (SetBlockOrder) leaves the count alone
                    ok = sorted(k for k in mine if k != "=copy") == sorted(k for k in ref if k != "=copy")
                elif fn["short"] == "Clear" and t == "blocks":
                    ok = True  # Clear drops its pointer to the vector; NifFile::Clear clears the vector itself
                else:
                    ok = sorted(mine) == sorted(ref)
                # blockSizes must sit behind the version gate whenever it is element-wise changed
                gated = True
                if t == "blockSizes" and fn["short"] not in ("Clear",):
                    gated = all(_version_gated(sig.get(id(n), ())) for k, a, n in by[t])
                # same erase position
                pos_ok = True
                if t in ("blocks", "blockSizes"):
                    ea = [a for k, a, n in by[t] if k == "-1"]
                    eb = [a for k, a, n in by["blockTypeIndices"] if k == "-1"]
                    pos_ok = sorted(map(str, ea)) == sorted(map(str, eb))
                good = ok and gated and pos_ok
                chk.instance(R1, ok=good, sample={"fn": fn["name"], "table": t, "ops": mine, "blockTypeIndices": ref})
                if not good:
                    why = "different operations" if not ok else ("missing version gate" if not gated else "different erase position")
                    chk.violation("R6.1", "C06/R6.1:%s:%s" % (fn["name"], t), where(fn),
                                  "%s changes blockTypeIndices by %s but %s by %s (%s): the header tables no longer describe the "
                                  "same block list" % (fn["name"], ref or "nothing", t, mine or "nothing", why))
        # type table
        lo2 = pairing.length_ops(fn, HDR, {"blockTypes"})
        co2 = pairing.counter_ops(fn, HDR, {"numBlockTypes"})
        if lo2 or co2:
            a = sorted(_norm(k) for n, m, k, arg in lo2)
            b = sorted(_norm(k) for n, m, k, arg in co2 if k != "=read")
            ok = a == b or (fn["short"] == "Get" and all(k == "=N" for n, m, k, arg in lo2))
            chk.instance(R1, ok=ok, sample={"fn": fn["name"], "blockTypes": a, "numBlockTypes": b})
            if not ok:
                chk.violation("R6.1", "C06/R6.1:%s:blockTypes" % fn["name"], where(fn),
                              "%s changes blockTypes by %s but numBlockTypes by %s" % (fn["name"], a, b))
            # erase => shift loop over blockTypeIndices
            for n, m, k, arg in lo2:
                if k == "-1":
                    shift = any(x["k"] == "RangeFor" and show(x["range"]) == "blockTypeIndices" and
                                any(y["k"] == "Unary" and y["op"] == "--" for y in walk(x["body"])) for x in walk(fn["body"]))
                    chk.instance(R1, ok=shift, sample={"fn": fn["name"], "erase_blockTypes": "index shift loop", "present": shift})
                    if not shift:
                        chk.violation("R6.1", "C06/R6.1:%s:blockTypes-shift" % fn["name"], where(fn, n),
                                      "%s erases a block type name without shifting the higher type indices down" % fn["name"])
    # NifFile side: the owning vector
    for qn in ("nifly::NifFile::Clear", "nifly::NifFile::Load", "nifly::NifFile::CopyFrom"):
        for fn in F.fn_named(qn):
            fn = F.inl(fn)
            lo = pairing.length_ops(fn, NIF, {"blocks"})
            # private helpers that could not be expanded (they return an error code from several places) still belong to it
            seen_h, work_h = set(), [fn]
            while work_h:
                cur = work_h.pop()
                for x in walk(cur.get("body") or {}):
                    if x["k"] == "Call" and x.get("fid") in F.fns and x["fid"] not in seen_h:
                        g_ = F.fns[x["fid"]]
                        if g_.get("cls") == NIF and g_.get("access") in ("private", "protected") and g_.get("body"):
                            seen_h.add(x["fid"])
                            g_ = F.inl(g_)
                            lo = lo + pairing.length_ops(g_, NIF, {"blocks"})
                            work_h.append(g_)
            if qn.endswith("Clear"):
                ok = any(k == "=0" for n, m, k, a in lo) and any(x["k"] == "Call" and x.get("fn") == "nifly::NiHeader::Clear" for x in walk(fn["body"]))
                what = "clears the vector and the header together"
            elif qn.endswith("Load"):
                if "istream" not in fn["id"]:
                    continue
                ok = any(k == "=N" and ("nBlocks" in str(a) or "GetNumBlocks" in str(a)) for n, m, k, a in lo)
                what = "sizes the vector from the header's block count"
            else:
                ok = any(k == "=N" for n, m, k, a in lo)
                what = "sizes the vector from the source's block count"
            chk.instance(R1, ok=ok, sample={"fn": fn["name"], "blocks": what})
            if not ok:
                chk.violation("R6.1", "C06/R6.1:%s:blocks" % qn, where(fn), "%s no longer %s" % (qn, what))
    chk.floor(R1, 15)

    # ---------------------------------------------------------------- R6.2
    dels = [f for f in F.fn_named("nifly::NiHeader::DeleteBlock") if "unsigned int" in f["id"]]
    chk.require(len(dels) == 1, "NiHeader::DeleteBlock(uint32_t) not found")
    for fn in [F.inl(f) for f in dels]:
        pairing.set_fn(fn)
        class N(flow.Flow):
            def on_node(self, n, st):
                if st is None:
                    return st
                if n["k"] == "Call" and n.get("ext") and n.get("short") == "erase" and pairing.member_root(n["recv"], HDR)[0] == "blocks":
                    return st | {("O", "erased")}
                return st

            def on_stmt(self, s, st):
                if st is None:
                    return st
                over_all = (s["k"] == "RangeFor" and ("blocks" in show(s["range"]) or pairing.member_root(s["range"], HDR)[0] == "blocks")) or \
                           (s["k"] == "For" and is_node(s.get("cond")) and ("numBlocks" in show(s["cond"]) or "blocks" in show(s["cond"])))
                if over_all and any(x["k"] == "Call" and x.get("fn") == "nifly::NiHeader::BlockDeleted" for x in walk(s["body"])):
                    return frozenset(f for f in st if f != ("O", "erased"))
                return st

        fl = N(F, fn)
        fl.run()
        ok = bool(fl.exits) and all(("O", "erased") not in st for _, _, st in fl.exits)
        chk.instance(R2, ok=ok, sample={"fn": fn["name"], "erase_then_notify_all": ok})
        if not ok:
            chk.violation("R6.2", "C06/R6.2:DeleteBlock", where(fn),
                          "DeleteBlock can return after erasing a block without notifying every remaining block: their references "
                          "to higher indices are not shifted")
        # the notification passes the same index that was erased
        erase_idx = [_addend(show(n["args"][0])) for n in walk(fn["body"]) if n["k"] == "Call" and n.get("short") == "erase"
                     and pairing.member_root(n["recv"], HDR)[0] == "blocks" and n.get("args")]
        notif = [show(n["args"][1]) for n in walk(fn["body"]) if n["k"] == "Call" and n.get("fn") == "nifly::NiHeader::BlockDeleted"
                 and len(n.get("args", [])) == 2]
        ok = bool(erase_idx) and bool(notif) and set(erase_idx) == set(notif)
        chk.instance(R2, ok=ok, sample={"erased": erase_idx, "notified": notif})
        if not ok:
            chk.violation("R6.2", "C06/R6.2:DeleteBlock:index", where(fn),
                          "DeleteBlock erases slot %s but notifies the blocks about %s" % (erase_idx, notif))
    chk.floor(R2, 2)

    # ---------------------------------------------------------------- R6.3
    for qn in ("nifly::NiHeader::BlockDeleted", "nifly::NiHeader::SetBlockOrder"):
        for fn in F.fn_named(qn):
            called = set(n.get("short") for n in walk(fn["body"]) if n["k"] == "Call" and n.get("virt") and n.get("cls") == "nifly::NiObject")
            for m in ("GetChildRefs", "GetPtrs"):
                ok = m in called
                chk.instance(R3, ok=ok, sample={"consumer": qn, "enumerator": m})
                if not ok:
                    chk.violation("R6.3", "C06/R6.3:%s:%s" % (qn, m), where(fn), "%s does not consult %s" % (qn, m))
    # BlockDeleted applies both cases of the fix-up to what *each* enumerator reports: a reference to the deleted block is
    # emptied, a reference beyond it is shifted (decided on effect summaries, so helper lambdas / functions are composed in)
    import paths as _paths
    bd = F.fn1("nifly::NiHeader::BlockDeleted")

    def _bd_prim(n, env, fn, st):
        if n["k"] == "Unary" and n["op"] == "--" or (n["k"] == "Assign" and n["op"] == "-="):
            t_ = n["e"] if n["k"] == "Unary" else n["l"]
            pth = env.path(t_)
            if pth is not None and pth[-1] == "index":
                return [_paths.Event(pth[:-1], "shift", {})]
            return None
        if n["k"] == "Call" and n.get("short") == "Clear" and n.get("cls") in ("nifly::NiRef", "nifly::NiPtr") and is_node(n.get("recv")):
            pth = env.path(n["recv"])
            if pth is not None:
                return [_paths.Event(pth, "empty", {})]
            return []
        if n["k"] == "Assign" and n["op"] == "=":
            pth = env.path(n["l"])
            if pth is not None and pth[-1] == "index" and ("NPOS" in show(n["r"]) or show(n["r"]) in ("-1", "4294967295")):
                return [_paths.Event(pth[:-1], "empty", {})]
            return None
        if n["k"] == "Call" and n.get("ext"):
            return []
        return None

    Sbd = _paths.Summarizer(F, _bd_prim, node_kinds=("Call", "OpCall", "Construct", "Assign", "Unary"))
    evs_bd = Sbd.events(bd["id"])
    for m in ("GetChildRefs", "GetPtrs"):
        calls = [x for x in walk(bd["body"]) if x["k"] == "Call" and x.get("short") == m and x.get("virt") and x.get("args")]
        kinds = set()
        for c_ in calls:
            a0 = c_["args"][0]
            while is_node(a0) and a0["k"] in ("Cast", "Unary"):
                a0 = a0["e"]
            if is_node(a0) and a0["k"] == "Ref":
                for e_ in evs_bd:
                    if e_.path and e_.path[0][0] == "$v" and e_.path[0][1] == a0["id"] and e_.path[1:] == ("[*]",):
                        kinds.add(e_.kind)
        ok = {"shift", "empty"} <= kinds
        chk.instance(R3, ok=ok, sample={"consumer": "BlockDeleted", "enumerator": m, "applies": sorted(kinds)})
        if not ok:
            missing = sorted({"shift", "empty"} - kinds)
            chk.violation("R6.3", "C06/R6.3:BlockDeleted:%s:%s" % (m, "+".join(missing)), where(bd),
                          "BlockDeleted does not %s the references reported by %s: after a deletion such a reference %s" % (
                              " / ".join({"shift": "shift", "empty": "empty"}[k_] for k_ in missing), m,
                              "still holds the number of the deleted block and now designates its successor" if "empty" in missing
                              else "keeps pointing one block too far"))
    chk.floor(R3, 6)

    # ---------------------------------------------------------------- R6.4
    for qn in ("nifly::NiHeader::AddBlock", "nifly::NiHeader::ReplaceBlock"):
        for fn in F.fn_named(qn):
            pobj = [p for p in fn["params"] if "unique_ptr" in (p.get("ct") or p.get("t"))]
            ok = False
            for n in walk(fn["body"]):
                if n["k"] == "Call" and n.get("fn") == "nifly::NiHeader::AddOrFindBlockTypeId" and n.get("args"):
                    a = n["args"][0]
                    ok = any(x["k"] == "Call" and x.get("short") == "GetBlockName" and x.get("virt") and pobj and
                             pobj[0]["name"] in show(x.get("recv")) for x in walk(a))
            chk.instance(R4, ok=ok, sample={"fn": qn, "type_name_from_object": ok})
            if not ok:
                chk.violation("R6.4", "C06/R6.4:%s" % qn, where(fn),
                              "%s must register the type name returned by the stored object's GetBlockName()" % qn)
    chk.floor(R4, 2)

    # ---------------------------------------------------------------- R6.6
    R6 = chk.rule("R6.6", "a function that drops a type name when its last user goes counts the users of the type before it changes "
                          "any entry of blockTypeIndices, and does not change the table between that count and the drop (sibling "
                          "agreement of DeleteBlock and ReplaceBlock)")
    for fn, bad in type_refcount_order(F):
        chk.instance(R6, ok=not bad, sample={"fn": fn["name"], "counts_before_changing_table": not bad})
        for n in bad[:1]:
            chk.violation("R6.6", "C06/R6.6:%s" % fn["name"], where(fn, n),
                          "%s changes blockTypeIndices %s: the count does not describe the table at the moment the name is dropped, so a "
                          "type name still in use is dropped (or an unused one kept)" % (
                              fn["name"], "between counting the users of the old type and dropping its name" if n.get("short") == "erase"
                              else "before it has counted the remaining users of the old type"))
    chk.floor(R6, 2)

    # ---------------------------------------------------------------- R6.5
    S = staleidx.StaleIndex(F)
    chk.extra["deleting_functions"] = len(S.deleting)
    total = 0
    for fn in sorted(F.fns.values(), key=lambda f: f["id"]):
        if fn.get("tmpl") == "pattern":
            continue
        uses, finds = S.analyse(fn)
        total += uses
        bad = {}
        for n in finds:
            bad.setdefault(n["name"], n)
        for _ in range(max(0, uses - len(finds))):
            chk.instance(R5, ok=True)
        for name, n in bad.items():
            chk.instance(R5, ok=False, sample={"fn": fn["name"], "stale_use_of": name})
            chk.violation("R6.5", "C06/R6.5:%s:%s" % (fn["name"].split("<")[0], name), where(fn, n),
                          "`%s` holds a block index computed before a block was deleted and is read afterwards in %s without "
                          "being re-derived or adjusted: it now designates a different block" % (name, fn["name"]))
    chk.floor(R5, 12, "(uses of block-index integers in functions that delete blocks)")

    # ---------------------------------------------------------------- R6.9 (= C04 R4.3 on the same facts)
    chk.share(F, "c04", ["R4.3", "R4.8"], "R6.9",
              "SetBlockOrder applies one permutation, in one direction, to the block list and to every header table that is parallel "
              "to it (type indices, gated sizes) and to both reference kinds")
    chk.floor("R6.9", 6)

    # ---------------------------------------------------------------- R6.10 positions are not block numbers
    R10 = chk.rule("R6.10", "the first argument of NiRefArray::GetBlockRef / SetBlockRef / RemoveBlockRef is a position in the reference "
                            "array, not a block number: it is never a value obtained from GetBlockID / AddBlock / GetBlockRef or from a "
                            "reference's `index` (both are uint32_t, so the mix-up compiles; it detaches whatever sits at that "
                            "position and leaves the intended reference in place)")
    BLOCKNO_CALLS = ("GetBlockID", "AddBlock", "GetBlockRef", "CloneNamedNode")

    def _blockno(e, defs, depth=0):
        for x in walk(e):
            if x["k"] == "Call" and x.get("short") in BLOCKNO_CALLS:
                return show(x)[:50]
            if x["k"] == "Member" and x.get("name") == "index" and "NiRef" in (x.get("owner") or ""):
                return show(x)[:50]
            if x["k"] == "Ref" and x.get("rk") == "local" and x.get("id") in defs and depth < 3:
                for d_ in defs[x["id"]]:
                    r_ = _blockno(d_, defs, depth + 1)
                    if r_:
                        return "%s (= %s)" % (x["name"], r_)
        return None

    n10 = 0
    for fn in sorted(F.fns.values(), key=lambda f: f["id"]):
        if not fn.get("body") or fn.get("tmpl") == "pattern" or not ((fn.get("file") or "").startswith("src/") or fn.get("lambda_parent")):
            continue
        calls = [n for n in walk(fn["body"]) if n["k"] == "Call" and n.get("short") in ("GetBlockRef", "SetBlockRef", "RemoveBlockRef")
                 and n.get("args") and "RefArray" in (n.get("cls") or "")]
        if not calls:
            continue
        defs = {}  # every value a local is given (initialiser and plain assignments)
        for d in walk(fn["body"]):
            if d["k"] == "Decl":
                for v in d.get("vars", []):
                    if is_node(v.get("init")):
                        defs.setdefault(v["id"], []).append(v["init"])
            elif d["k"] == "Assign" and d["op"] == "=" and is_node(d["l"]) and d["l"]["k"] == "Ref" and is_node(d["r"]):
                defs.setdefault(d["l"]["id"], []).append(d["r"])
        for n in calls:
            n10 += 1
            src = _blockno(n["args"][0], defs)
            chk.instance(R10, ok=src is None, sample={"fn": fn["name"], "call": show(n)[:70]})
            if src:
                chk.violation("R6.10", "C06/R6.10:%s:%s" % (fn["name"].split("(")[0], n["short"]), where(fn, n),
                              "%s passes the block number `%s` where %s expects a position in the reference array: the reference that "
                              "happens to sit at that position is affected and the intended one is left as it was" %
                              (fn["name"], src, n["short"]))
    chk.floor(R10, 6)

    # ---------------------------------------------------------------- R6.11 block numbers are taken by value
    R11 = chk.rule("R6.11", "the NiHeader functions that delete, replace or renumber blocks take block numbers by value: while they fix up the "
                            "references of every block, a number received by reference may *be* one of those references (callers pass "
                            "`ref.index`), and changes under the function's feet as soon as its holder is fixed up")
    n11 = 0
    for fn in sorted(F.fns.values(), key=lambda f: f["id"]):
        if fn.get("cls") != HDR or fn.get("tmpl") == "pattern" or fn.get("short") not in (
                "DeleteBlock", "ReplaceBlock", "BlockDeleted", "DeleteBlockByType", "IsBlockReferenced", "GetBlockRefCount", "SetBlockOrder"):
            continue
        for p_ in fn.get("params", []):
            t = (p_.get("ct") or p_.get("t") or "")
            base = t.replace("const", "").replace("&", "").strip()
            if base not in ("unsigned int", "uint32_t", "int", "unsigned short", "uint16_t", "size_t", "unsigned long"):
                continue
            n11 += 1
            ok = "&" not in t
            chk.instance(R11, ok=ok, sample={"fn": fn["name"], "param": p_["name"], "type": t})
            if not ok:
                chk.violation("R6.11", "C06/R6.11:%s:%s" % (fn["name"].split("(")[0], p_["name"]), where(fn),
                              "%s takes the block number `%s` as `%s`: called with a reference's own index (DeleteBlock(const NiRef&) "
                              "forwards `blockRef.index`) the number changes when that reference is fixed up, and the references of "
                              "all later blocks are shifted against the wrong number" % (fn["name"], p_["name"], t))
    chk.floor(R11, 5)

    # ---------------------------------------------------------------- R6.8
    chk.share(F, "c05", ["R5.1", "R5.2", "R5.5"], "R6.8",
              "BlockDeleted and SetBlockOrder fix up exactly the references the enumerators report")
    chk.floor("R6.8", 600)

    chk.assumptions += ["NiRef/NiBlockRef members are shifted by NiHeader::BlockDeleted (C05 makes them all visible); only plain "
                        "integers can go stale",
                        "the index arithmetic inside BlockDeleted (== clears, > decrements) and the type-table refcount threshold "
                        "are value-level and not decided"]
    chk.extra["explanation"] = ("parallel-table pairing, delete=>notify ordering, both-enumerator consumers, object-derived type "
                                "names and the stale-index discipline, over every header mutator and every deleting function; "
                                "comparison operators and off-by-one in the index shifting are not decided")


def type_refcount_order(F):
    """[(function, [offending table writes])] for every NiHeader function that can drop a type name"""
    out = []
    for fn in sorted(F.fns.values(), key=lambda f: f["id"]):
        if fn.get("cls") != HDR or fn.get("tmpl") == "pattern":
            continue
        erases_type = any(n["k"] == "Call" and n.get("ext") and n.get("short") == "erase" and
                          pairing.member_root(n["recv"], HDR)[0] == "blockTypes" for n in walk(fn.get("body") or {}))
        if not erases_type:
            continue

        class Cnt(flow.Flow):
            def __init__(self, *a):
                super().__init__(*a)
                self.bad = []

            def on_stmt(self, s_, st):
                if st is None:
                    return st
                body = s_.get("body") if s_["k"] in ("RangeFor", "For") else None
                over_table = (s_["k"] == "RangeFor" and show(s_["range"]) == "blockTypeIndices") or \
                             (s_["k"] == "For" and any(x["k"] == "Subscript" and pairing.member_root(x["base"], HDR)[0] == "blockTypeIndices"
                                                       for x in walk(body or {})))
                if over_table and is_node(body):
                    ind = {v["id"] for v in (s_.get("init") or {}).get("vars", [])} if s_["k"] == "For" and is_node(s_.get("init")) else set()
                    incs = [x for x in walk(body) if x["k"] in ("Unary", "Assign") and x.get("op") in ("++", "+=") and
                            is_node(x.get("e") or x.get("l")) and (x.get("e") or x.get("l"))["k"] == "Ref" and (x.get("e") or x.get("l")).get("id") not in ind]
                    writes = [x for x in walk(body) if (x["k"] == "Assign" and pairing.member_root(x["l"], HDR)[0] == "blockTypeIndices") or
                              (x["k"] == "Unary" and x["op"] == "--")]
                    if incs and not writes:
                        return st | {("D", "counted")}
                return st

            def on_node(self, n, st):
                if st is None or self.muted:
                    return st
                if n["k"] == "Call" and n.get("short") in ("count", "count_if") and any(
                        is_node(a) and a["k"] == "Call" and a.get("short") in ("begin", "cbegin") and is_node(a.get("recv")) and
                        pairing.member_root(a["recv"], HDR)[0] == "blockTypeIndices" for a in n.get("args", [])):
                    return st | {("D", "counted")}  # std::count / std::count_if over the whole table
                tgt = None
                if n["k"] == "Assign":
                    tgt = n["l"]
                elif n["k"] == "Call" and n.get("ext") and n.get("short") in ("erase", "push_back", "insert") and is_node(n.get("recv")):
                    tgt = n["recv"]
                if tgt is not None and pairing.member_root(tgt, HDR)[0] == "blockTypeIndices":
                    if ("D", "counted") not in st:
                        self.bad.append(n)
                    elif ("D", "type-erased") not in st:
                        return st | {("O", "table-changed-since-count")}  # the count no longer describes the table
                if n["k"] == "Call" and n.get("ext") and n.get("short") == "erase" and is_node(n.get("recv")) and \
                        pairing.member_root(n["recv"], HDR)[0] == "blockTypes":
                    if ("O", "table-changed-since-count") in st:
                        self.bad.append(n)
                    return st | {("D", "type-erased")}
                return st

        c = Cnt(F, fn)
        c.run()
        out.append((fn, c.bad))
    return out


def _addend(arg):
    """position part of `X.begin() + pos`"""
    if arg is None:
        return None
    s = str(arg)
    if " + " in s:
        return s.rsplit(" + ", 1)[1].rstrip(")")
    return s


def _norm(k):
    return {"=N": "=copy"}.get(k, k)
