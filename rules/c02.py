"""C02 — saving is repeatable and never alters the in-memory model (DESIGN §5 C02).

Effect analysis of the write path: the ordered events (stream transfers and member mutations) of every class's Put in
write mode are computed by summary composition; a member mutated after it was transferred (R2.1) makes the second save
differ from the first, and any write-mode mutation outside the triaged table (R2.2) changes what a query answers after
a save."""
import re
from facts import is_node, walk, where, show
import flow
import report
import paths
from paths import Event, render
import schema
import c11

STD_MUT = {"resize", "clear", "push_back", "emplace_back", "erase", "insert", "pop_back", "assign", "swap", "reserve",
           "shrink_to_fit", "append", "emplace"}

# Write-mode mutations that are accepted, keyed by (function without template arguments, leaf member, operation),
# each with the reason it does not change what the model means (DESIGN R2.2 triaged table).
ACCEPTED = {
    ("nifly::NiBlockRefArray::CleanInvalidRefs", "*", "erase"): "write-only pre-normalisation: empty references carry no information and are dropped before the count is written",
    ("nifly::NiBlockRefArray::CleanInvalidRefs", "arraySize", "="): "count re-derived from the cleaned array",
    ("nifly::NiBlockRefArray::SetSize", "arraySize", "="): "fixed-size configuration of the constraint entity pair (always 2)",
    ("nifly::NiBlockRefArray::SetSize", "*", "resize"): "fixed-size configuration of the constraint entity pair (always 2)",
    ("nifly::NiRefArray::SetKeepEmptyRefs", "keepEmptyRefs", "="): "configuration flag, not model content",
    ("nifly::NiString::SetNullOutput", "nullOutput", "="): "output-format configuration of header strings",
    ("nifly::NiHeader::Put", "blockSizePos", "="): "stream position of the size table, kept for the back-patch after the blocks are written; not model content",
    ("nifly::NiString::Write", "str", "resize"): "truncation to the width of the length prefix: a no-op unless the string exceeds the wire format's capacity",
    ("nifly::NiStringRef::Write", "str", "resize"): "truncation to the width of the length prefix: a no-op unless the string exceeds the wire format's capacity",
    ("nifly::NiAnimationKeyGroup::Sync", "type", "="): "every key carries the group's interpolation type; re-asserted, not changed",
    ("nifly::NiSkinPartition::Sync", "dataSize", "="): "derived size of the vertex data, recomputed from the arrays before it is written",
    ("nifly::NiStringPalette::Sync", "length", "="): "derived length of the palette string, recomputed before it is written",
    ("nifly::bhkBallSocketConstraintChain::Sync", "numEntities", "="): "constant normalisation (the format fixes the count to 2)",
    ("nifly::StripsInfo::Sync", "hasPoints", "="): "versions without the flag always carry points; set on the branch where the flag is not transferred",
    ("nifly::NiParticleSystem::Sync", "index", "="): "the two data references mirror each other; assignment is a copy of an equal value",
    ("nifly::NiAVObject::Sync", "flags", "="): "16-bit wire field in old versions: a no-op while the flags fit the field",
    ("nifly::NiVector::SyncSize", "*", "resize"): "clamp to the capacity of the count field: a no-op unless the array exceeds what the format can express",
    ("nifly::NiSyncVector::SyncSize", "*", "resize"): "clamp to the capacity of the count field",
    ("nifly::NiStringVector::Write", "*", "resize"): "clamp to the capacity of the count field",
    ("nifly::NiStringRefVector::Write", "*", "resize"): "clamp to the capacity of the count field",
    ("nifly::NiPalette::Sync", "*", "resize"): "palette normalised to its fixed entry count",
}


# Query-time writes of a serialised member that are accepted, keyed by (member, performing function), one reason each.
QUERY_ACCEPTED = {
    # member appearing on the changed path -> (performing functions, reason)
    "trueTriangles": (("nifly::NiSkinPartition::PartitionBlock::GenerateTrueTrianglesFromMappedTriangles", "nifly::ApplyMapToTriangles",
                       "nifly::Triangle::set", "nifly::Triangle::rot", "nifly::NiSkinPartition::PartitionBlock::ConvertStripsToTriangles",
                       "nifly::NiSkinPartition::PrepareTrueTriangles"),
                      "trueTriangles is written to the file only for SSE (user >= 12, stream 100), where the reader fills it and "
                      "PrepareTrueTriangles leaves a filled list alone; the mapped derivation runs only when bMappedIndices is set, which "
                      "the reader clears for exactly that version: wherever these functions write it, the member is the derived cache"),
}

# public const methods of NifFile that are edits by contract, not read-only queries (one line of reason each)
NOT_A_QUERY = {
    "RemoveInvalidTris": "declared const but documented as an edit ('Removes triangles with vertex indices that don't exist')",
}


# Derived partition data rebuilt from trueTriangles by NiSkinPartition::Sync before it is written: per function, the members
# (components of the changed path) it may rebuild, and why.  Nothing is accepted for a whole function.
ACCEPTED_DERIVED = {
    "nifly::NiSkinPartition::PartitionBlock::GenerateVertexMapFromTrueTriangles":
        ({"vertexMap", "numVertices"}, "partition vertex map and its count, derived from trueTriangles when empty"),
    "nifly::NiSkinPartition::PartitionBlock::GenerateMappedTrianglesFromTrueTrianglesAndVertexMap":
        ({"triangles", "numTriangles", "trueTriangles"}, "mapped partition triangles, derived from trueTriangles and the vertex map when empty"),
    "nifly::NiSkinPartition::PrepareVertexMapsAndTriangles":
        ({"triangles"}, "unmapped partition triangles are a copy of trueTriangles when empty"),
    "nifly::ApplyMapToTriangles": ({"triangles"}, "helper of the mapped-triangle derivation, applied to `triangles` only"),
    "nifly::Triangle::set": ({"triangles"}, "helper of the mapped-triangle derivation (rotation of `triangles` elements)"),
    "nifly::Triangle::rot": ({"triangles"}, "helper of the mapped-triangle derivation (rotation of `triangles` elements)"),
}


CLASS_WIDE = {"blockSizePos"}  # accepted wherever in the owning class it is written: pure stream-position bookkeeping


def strip_targs(name):
    out, depth = "", 0
    for ch in name:
        if ch == "<":
            depth += 1
        elif ch == ">":
            depth -= 1
        elif depth == 0:
            out += ch
    return out


# reference arrays whose *positions* carry meaning (entry i belongs to entry i of a sibling table in another block): dropping
# an empty slot while writing shifts every later entry against that table (or whose slot count the library itself consults),
# so the generic acceptance of
# NiBlockRefArray::CleanInvalidRefs ("empty references carry no information") does not cover them
POSITIONAL_REF_ARRAYS = {"boneRefs": "NiSkinData::bones / BSSkinBoneData::boneXforms are indexed by the same bone number",
                         "childRefs": "the sort's Oblivion child ordering (SortGraph) and callers consult childRefs.GetSize(), which "
                                      "counts empty slots before the first save and not after it"}


def accepted_reason(fnname, path, op):
    f = strip_targs(fnname)
    leaf = [c for c in path if isinstance(c, str) and not c.startswith("[")]
    if f == "nifly::NiBlockRefArray::CleanInvalidRefs" and any(c in POSITIONAL_REF_ARRAYS for c in leaf):
        return None
    leaf = leaf[-1] if leaf else "*"
    for key in ((f, leaf, op), (f, "*", op), (f, leaf, "*")):
        if key in ACCEPTED:
            return ACCEPTED[key]
    # bookkeeping members are accepted for the whole class that owns them (the statement may live in a private helper of Put)
    cls_ = f.rsplit("::", 1)[0]
    for (af, al, ao), why in ACCEPTED.items():
        if al in CLASS_WIDE and al == leaf and ao == op and af.rsplit("::", 1)[0] == cls_:
            return why
    d = ACCEPTED_DERIVED.get(f)
    if d is not None:
        comps = [c for c in path if isinstance(c, str) and not c.startswith("[")]
        # the outermost member below the partition element decides: `partitions[*].triangles[*].p1` is a change of `triangles`
        for c in comps:
            if c in d[0]:
                return d[1]
            if c != "partitions":
                break
    return None


def make_primitive(F):
    sprim = schema.make_primitive(F)

    def prim(n, env, fn, st):
        k = n["k"]
        if k in ("Call", "OpCall"):
            r = sprim(n, env, fn, st)
            if r is not None:
                return r
        if k == "Assign":
            p = env.path(n["l"])
            if p is not None and p[0][0] in ("this", "$p"):
                return [Event(p, "mut", {"op": n["op"], "rhs": show(n["r"])[:80], "fn": fn["name"], "loc": n.get("loc"),
                                         "file": fn.get("file"), "rhs_path": env.path(n["r"]) if is_node(n["r"]) else None,
                                         "rhs_val": n["r"].get("val") if is_node(n["r"]) else None})]
            return None
        if k == "OpCall" and n.get("op") == "=" and len(n.get("args", [])) == 2 and not n.get("cls", "").startswith("nifly::NiStream"):
            # class-type assignment (std::vector / std::string / user operator=): the whole left operand is replaced
            p = env.path(n["args"][0])
            if p is not None and p[0][0] in ("this", "$p") and (n.get("ext") or not F.call_targets(n)):
                return [Event(p, "mut", {"op": "=", "rhs": show(n["args"][1])[:80], "fn": fn["name"], "loc": n.get("loc"),
                                         "file": fn.get("file"), "rhs_path": env.path(n["args"][1]) if is_node(n["args"][1]) else None,
                                         "rhs_val": None})]
            return None
        if k == "Unary" and n["op"] in ("++", "--"):
            p = env.path(n["e"])
            if p is not None and p[0][0] in ("this", "$p"):
                return [Event(p, "mut", {"op": n["op"], "fn": fn["name"], "loc": n.get("loc"), "file": fn.get("file")})]
            return None
        if k == "Call" and n.get("ext") and n.get("short") in STD_MUT and is_node(n.get("recv")):
            p = env.path(n["recv"])
            if p is not None and p[0][0] in ("this", "$p"):
                args = n.get("args", [])
                return [Event(p, "mut", {"op": n["short"], "rhs": ",".join(show(a) for a in args)[:80], "fn": fn["name"],
                                         "loc": n.get("loc"), "file": fn.get("file"),
                                         "size_path": env.path(args[0]) if args and is_node(args[0]) else None,
                                         "size_str": show(args[0]) if args else None})]
            return []
        if k == "Call" and n.get("ext"):
            return []
        return None

    return prim


def exclusive(a, b):
    """two events cannot lie on one path: some guard key holds with opposite polarity"""
    ga = {(g[0]): g[1] for g in a.guards}
    for g in b.guards:
        if g[0] in ga and ga[g[0]] != g[1]:
            return True
    return False


def run(F, chk):
    R1 = chk.rule("R2.1", "in write mode no member is assigned after it (or an element/field of it) was handed to a stream "
                          "primitive in the same Put, unless the assignment provably copies an equal value")
    R2 = chk.rule("R2.2", "every other write-mode mutation of block state is a counted-array resize to the count being written "
                          "or an entry of the triaged table")
    R3 = chk.rule("R2.3", "the pre-write pipeline (FinalizeData, Optimize, PrettySortBlocks) assigns only derived data, header "
                          "strings/indices, bounds, block order and references")

    S = paths.Summarizer(F, make_primitive(F), mode=flow.MODE_WRITE, value_proxies=False,
                         node_kinds=("Call", "OpCall", "Construct", "Assign", "Unary"))
    classes = sorted(set(c11.factory_types(F)) | {"nifly::NiHeader", "nifly::NiUnknown"})
    seen1, seen2 = {}, {}
    nmut = 0
    wire = {}  # class -> member paths (relative to the block) that its Put hands to a stream primitive
    for c in classes:
        puts = F.method(c, "Put")
        if not puts:
            continue
        evs = S.events(puts[0]["id"])
        synced = []  # (index, event)
        for j, ev in enumerate(evs):
            if ev.path is None or ev.path[0][0] != "this":
                continue
            if ev.kind != "mut":
                synced.append((j, ev))
                wire.setdefault(c, set()).add(tuple(ev.path[1:]))
                continue
            nmut += 1
            info = ev.info
            site = "%s:%s" % (info.get("file"), (info.get("loc") or "").split(":")[0])
            rp = render(ev.path)
            # ---- R2.1: transferred earlier on a compatible path?
            # the member itself, or (for container-level operations) one of its elements, was already transferred
            prior = [s for i, s in synced if (s.path == ev.path or (s.path[:len(ev.path)] == ev.path and len(s.path) > len(ev.path)
                                                                   and s.path[len(ev.path)] == "[*]")) and not exclusive(s, ev)]
            if info["op"] in ("resize",) and info.get("size_str"):
                # resizing an array *after* its elements were transferred would be caught too; a resize before is the idiom
                pass
            key1 = (strip_targs(info["fn"]), rp, info["op"])
            if prior and key1 in seen1:
                continue
            if prior and key1 not in seen1:
                noop = False
                # copy of an equal value: x = y where y = x was assigned earlier and neither changed (mirror idiom), or a constant
                # already assigned before the transfer
                for i2 in range(j):
                    e2 = evs[i2]
                    if e2.kind == "mut" and e2.path == info.get("rhs_path") and e2.info.get("rhs_path") == ev.path:
                        noop = True
                    if e2.kind == "mut" and e2.path == ev.path and e2.info.get("rhs_val") is not None and \
                            e2.info.get("rhs_val") == info.get("rhs_val") and i2 < min(i for i, s in synced if s in prior):
                        noop = True
                seen1[key1] = True
                chk.instance(R1, ok=noop, sample={"class": c, "fn": info["fn"], "member": rp, "op": info["op"], "no-op": noop})
                if not noop:
                    chk.violation("R2.1", "C02/R2.1:%s:%s" % (strip_targs(info["fn"]), rp), site,
                                  "%s writes `%s` to the stream and then changes it (%s %s) in write mode: the model is altered by "
                                  "saving and the next save writes different bytes" % (info["fn"], rp, info["op"], info.get("rhs", "")),
                                  {"class": c})
                continue
            # ---- R2.2
            key2 = (strip_targs(info["fn"]), rp, info["op"])
            if key2 in seen2:
                continue
            why = None
            if info["op"] == "resize" and info.get("size_str") is not None:
                # counted-array idiom: the size is a member / local count that is itself transferred or derived from a transfer
                sz = info.get("size_path")
                if sz is not None:
                    why = "counted-array idiom: resize to the count `%s` written next to it" % render(sz)
                elif re.match(r"^[\w.\[\]*() +-]+$", info["size_str"] or "") and not (info["size_str"] or "").isdigit():
                    why = "counted-array idiom: resize to `%s`" % info["size_str"]
            if why is None:
                why = accepted_reason(info["fn"], ev.path, info["op"])
            seen2[key2] = why
            chk.instance(R2, ok=why is not None, sample={"fn": info["fn"], "member": rp, "op": info["op"], "why": why})
            if why is None:
                chk.violation("R2.2", "C02/R2.2:%s:%s:%s" % (strip_targs(info["fn"]), rp, info["op"]), site,
                              "%s changes `%s` (%s %s) while writing: a query answers differently after a save than before" % (
                                  info["fn"], rp, info["op"], info.get("rhs", "")), {"class": c})
    chk.extra["write_mode_mutation_events"] = nmut
    chk.floor(R2, 100)
    chk.floor(R1, 2)

    # ---------------------------------------------------------------- R2.4 the primitive layer itself
    R4 = chk.rule("R2.4", "in write mode the stream primitives (NiStreamReversible / NiOStream methods) never assign to the operand "
                          "they are given: writing a value must not change it")
    for fn in sorted(F.fns.values(), key=lambda f: f["id"]):
        if fn.get("cls") not in ("nifly::NiStreamReversible", "nifly::NiOStream") or fn.get("tmpl") == "pattern" or fn.get("ctor"):
            continue
        refparams = {p["id"]: p["name"] for p in fn.get("params", [])
                     if (p.get("ct") or p.get("t") or "").rstrip().endswith(("&", "*")) and "const" not in (p.get("ct") or p.get("t") or "").split("&")[0].split("*")[0]}
        if not refparams:
            continue
        col = flow.Collect(F, fn, lambda n: n["k"] in ("Assign", "Unary"), mode=flow.MODE_WRITE)
        col.run()
        bad = []
        for n, sts in col.by_node():
            tgt = n["l"] if n["k"] == "Assign" else (n["e"] if n["op"] in ("++", "--") else None)
            root = tgt
            while is_node(root) and root["k"] in ("Member", "Subscript", "Cast", "Unary"):
                root = root.get("base") if root["k"] in ("Member", "Subscript") else root.get("e")
            if is_node(root) and root["k"] == "Ref" and root.get("id") in refparams and any(st is not None for st in sts):
                bad.append(n)
        chk.instance(R4, ok=not bad, sample={"primitive": fn["name"], "operands": sorted(refparams.values())})
        for n in bad[:1]:
            chk.violation("R2.4", "C02/R2.4:%s" % strip_targs(fn["name"]), where(fn, n),
                          "%s assigns to its operand `%s` while writing: every field written through it is changed in the live model "
                          "by saving" % (fn["name"], show(n["l"] if n["k"] == "Assign" else n["e"])))
    chk.floor(R4, 5)

    # ---------------------------------------------------------------- R2.5 read-only queries
    R5 = chk.rule("R2.5", "a read-only query (public const method of NifFile) never changes a member that some block class hands to "
                          "the stream when it is written: what a query touches may only be derived caches, otherwise the save after "
                          "the query differs from the save before it")
    Sq = paths.Summarizer(F, make_primitive(F), mode=None, value_proxies=False,
                          node_kinds=("Call", "OpCall", "Construct", "Assign", "Unary"))
    nq = 0
    for fn in sorted(F.fns.values(), key=lambda f: f["id"]):
        if fn.get("cls") != "nifly::NifFile" or not fn.get("const") or fn.get("access") != "public" or fn.get("tmpl") == "pattern":
            continue
        if fn["short"] in NOT_A_QUERY:
            continue
        nq += 1
        vtypes = {}
        for p_ in fn.get("params", []):
            vtypes[p_["id"]] = p_.get("ct") or p_.get("t") or ""
        for n in walk(fn.get("body") or {}):
            vs = n.get("vars", []) if n["k"] == "Decl" else ([n["var"]] if n["k"] in ("If", "While", "RangeFor") and n.get("var") else [])
            for v in vs:
                vtypes[v["id"]] = v.get("ct") or v.get("t") or ""
        bad = {}
        accepted_q = {}
        for ev in Sq.events(fn["id"]):
            if ev.kind != "mut" or ev.path is None or ev.path[0][0] not in ("$v", "$p"):
                continue
            root = ev.path[0]
            vid = root[1] if root[0] == "$v" else (fn["params"][root[1]]["id"] if root[1] < len(fn.get("params", [])) else None)
            t = vtypes.get(vid, "")
            if "const " in t.split("*")[0].split("&")[0] and False:
                continue
            cls = re.sub(r"^(const\s+)?", "", t).replace("*", "").replace("&", "").replace("const", "").strip()
            if cls not in F.recs or not (F.derives_from(cls, "nifly::NiObject") or cls == "nifly::NiObject"):
                continue
            rel = tuple(ev.path[1:])
            if not rel:
                continue
            hit = None
            for d, ws in wire.items():
                if d != cls and not F.derives_from(d, cls):
                    continue
                for w in ws:
                    m = min(len(w), len(rel))
                    if m and w[:m] == rel[:m]:
                        hit = (d, w)
                        break
                if hit:
                    break
            if hit:
                key = "%s.%s:%s" % (cls.split("::")[-1], render((("this",),) + rel), strip_targs(ev.info["fn"]).split("::")[-1])
                why = None
                for mem, (fns_, reason) in QUERY_ACCEPTED.items():
                    if mem in rel and strip_targs(ev.info["fn"]) in fns_:
                        why = reason
                if why is None:
                    bad.setdefault(key, (ev, hit))
                else:
                    accepted_q[key] = why
        chk.instance(R5, ok=not bad, sample={"query": fn["name"], "serialised_members_changed": sorted(bad), "accepted": accepted_q})
        for key, (ev, hit) in sorted(bad.items()):
            info = ev.info
            chk.violation("R2.5", "C02/R2.5:%s:%s" % (fn["short"], key), "%s:%s" % (info.get("file"), (info.get("loc") or "").split(":")[0]),
                          "the read-only query %s changes `%s` (%s in %s), a member that %s::Put writes to the file: the save after "
                          "the query differs from the save before it" % (fn["name"], key, info["op"], info["fn"], hit[0]))
    chk.extra["read_only_queries"] = nq
    chk.floor(R5, 40)

    # ---------------------------------------------------------------- R2.6 the language guarantee R2.5 leans on
    R6 = chk.rule("R2.6", "const member functions of block classes cannot change the block: no block class (or value type nested in "
                          "one) declares a `mutable` field that a Put writes, and no const_cast strips const from a block that is then written")
    nrec = 0
    wire_names_cache = {}
    for name, r in sorted(F.recs.items()):
        if not name.startswith("nifly::") or r.get("tmpl") == "pattern":
            continue
        if not (F.derives_from(name, "nifly::NiObject") or name == "nifly::NiObject" or _block_part(F, name) or name == "nifly::NiHeader"):
            continue
        nrec += 1
        wire_names = wire_names_cache.setdefault("all", {c_ for ws in wire.values() for w in ws for c_ in w})
        mut = [f for f in r.get("fields", []) if f.get("mutable") and f["name"] in wire_names]
        for f in r.get("fields", []):
            if f.get("mutable") and f["name"] not in wire_names:
                chk.note("mutable field %s::%s is not written by any Put (a cache): not a C02 concern" % (name, f["name"]))
        chk.instance(R6, ok=not mut, sample={"class": name, "mutable_fields": [f["name"] for f in mut]})
        for f in mut[:1]:
            chk.violation("R2.6", "C02/R2.6:%s::%s" % (name, f["name"]), "%s:%s" % (r.get("file", "?"), (f.get("loc") or "?").split(":")[0]),
                          "%s::%s is `mutable`: const accessors may change it, so a read-only query can alter what the next save writes" % (name, f["name"]))
    for fn in sorted(F.fns.values(), key=lambda f: f["id"]):
        if fn.get("tmpl") == "pattern" or not fn.get("body") or not (fn.get("file") or "").startswith(("src/", "include/")):
            continue
        for n in walk(fn["body"]):
            if n["k"] == "Cast" and n.get("ck") == "const":
                # accepted only when the result is immediately re-qualified: passed on / returned as a pointer that the function's own
                # (non-const overload) signature already allows.  Written-through uses are the violation.
                written = False
                for m in walk(fn["body"]):
                    tgt = m["l"] if m["k"] == "Assign" else (m["e"] if m["k"] == "Unary" and m["op"] in ("++", "--") else None)
                    if is_node(tgt) and any(x is n for x in walk(tgt)):
                        written = True
                chk.instance(R6, ok=not written, sample={"fn": fn["name"], "const_cast": show(n)[:80], "written_through": written})
                if written:
                    chk.violation("R2.6", "C02/R2.6:const_cast:%s" % fn["name"], where(fn, n),
                                  "%s writes through a const_cast: a const accessor changes the model" % fn["name"])
    chk.extra["block_records_checked_for_mutable"] = nrec
    chk.floor(R6, 300)

    # ---------------------------------------------------------------- R2.3
    fin = F.fn1("nifly::NifFile::FinalizeData")
    reach = F.reachable([fin["id"]])
    allowed = [
        (r"^nifly::NiStringRef$", r"^(index|str)$", "header string indices"),
        (r"^nifly::NiHeader$", r"^(strings|numStrings|maxStringLen)$", "header string table"),
        (r"^nifly::NiString$", r".*", "header strings"),
        (r"^nifly::BSTriShape$", r"^(dataSize|vertexSize|particleDataSize|vertexDesc|numTriangles)$", "derived sizes"),
        (r"^nifly::VertexDesc$", r".*", "vertex descriptor"),
        (r"^nifly::NiSkinPartition$", r"^(vertData|numVertices|vertexDesc|dataSize|vertexSize|triParts|bMappedIndices)$", "partition vertex data"),
        (r"^nifly::NiSkinPartition::PartitionBlock$", r".*", "derived partition data"),
        (r"^nifly::BSDynamicTriShape$", r"^(dynamicData|dynamicDataSize)$", "dynamic data"),
        (r"^nifly::NiBinaryExtraData$", r".*", "OB tangent extra data"),
        (r"^nifly::NiObjectNET$", r"^name$", "OB tangent extra data"),
        (r"^nifly::NiExtraData$", r"^name$", "OB tangent extra data"),
        (r"^nifly::NiRef$", r"^index$", "references to created/removed extra data"),
        (r"^nifly::NiRefArray$", r".*", "reference arrays"),
        (r"^nifly::NiHeader$", r"^(blockTypeIndices|blockSizes|numBlocks|blockTypes|numBlockTypes|blocks)$", "header tables"),
        (r"^nifly::BSVertexData$", r".*", "partition vertex data copied from the shape"),
        (r"^nifly::(Vector3|Vector4|Vector2|Color4|Triangle|ByteColor4)$", r".*", "value types inside derived arrays"),
        (r"^nifly::NiTriStripsData$|^nifly::StripsInfo$", r"^(numStrips|stripLengths|hasPoints|points|numTriangles)$", "strip bookkeeping"),
        (r"^nifly::NiGeometryData$", r"^(numVertices|hasVertices|hasNormals|hasVertexColors|dataFlags|numUVSets|bounds|tangents|bitangents)$", "geometry bookkeeping"),
    ]
    nw = 0
    for fid in sorted(reach):
        fn = F.fns.get(fid)
        if not fn or fn.get("tmpl") == "pattern" or fn.get("ctor") or fn["short"] in ("Put", "Sync", "Write"):
            continue
        if fn["short"] in ("Get", "Read"):
            continue
        for n in walk(fn.get("body") or {}):
            tgt = None
            if n["k"] == "Assign":
                tgt = n["l"]
            elif n["k"] == "Unary" and n["op"] in ("++", "--"):
                tgt = n["e"]
            if not is_node(tgt):
                continue
            mem = _written_member(tgt)
            if mem is None:
                continue
            owner, name = mem.get("owner") or "", mem["name"]
            if not (F.derives_from(owner, "nifly::NiObject") or _block_part(F, owner)):
                continue
            nw += 1
            why = None
            for po, pm, reason in allowed:
                if re.search(po, owner) and re.search(pm, name):
                    why = reason
                    break
            chk.instance(R3, ok=why is not None, sample={"fn": fn["name"], "writes": "%s::%s" % (owner, name), "as": why})
            if why is None:
                chk.violation("R2.3", "C02/R2.3:%s:%s::%s" % (strip_targs(fn["name"]), owner, name), where(fn, n),
                              "%s (reachable from FinalizeData, i.e. executed by every save) assigns %s::%s, which is not derived "
                              "data: saving changes the model" % (fn["name"], owner, name))
    chk.extra["finalize_member_writes"] = nw
    chk.floor(R3, 5)

    # ---- R2.8 the string table is final when the blocks are
    R8 = chk.rule("R2.8", "in NifFile::Save the header string table is rebuilt (UpdateHeaderStrings) after the last step that can delete "
                          "blocks: a table built before the pruning of unreferenced blocks still lists the strings of blocks the same "
                          "save then deletes, so save #1 carries strings that save #2 (built after they are gone) does not")
    HDRN = "nifly::NiHeader"
    upd = {g["id"] for g in F.fns.values() if g["name"] == HDRN + "::UpdateHeaderStrings"}
    dele = {g["id"] for g in F.fns.values() if g["name"] in (HDRN + "::DeleteBlock", HDRN + "::DeleteBlockByType")}
    if not upd or not dele:
        raise report.Broken("R2.8: NiHeader::UpdateHeaderStrings / DeleteBlock not found")
    saves = [g for g in F.fns.values() if g["name"] == "nifly::NifFile::Save" and g.get("body") and "ostream" in g["id"]]
    if len(saves) != 1:
        raise report.Broken("R2.8: NifFile::Save(std::ostream&, ...) not found")
    sv = F.inl(saves[0])
    late = []

    def _reaches(n, targets):
        ts = set(F.call_targets(n) or [])
        return any(t in targets or (F.reachable([t]) & targets) for t in ts if t in F.fns)

    class StrOrder(flow.Flow):
        def on_node(self, n, st):
            if st is None or n["k"] not in ("Call", "OpCall"):
                return st
            del_, upd_ = _reaches(n, dele), _reaches(n, upd)
            if del_ and ("D", "strings built") in st and not upd_:
                late.append(n)
            if del_ and upd_:
                # a step that both prunes and rebuilds: judged by its own order (FinalizeData rebuilds last)
                return st | {("D", "strings built")}
            if upd_:
                return st | {("D", "strings built")}
            return st

    so = StrOrder(F, sv)
    so.run()
    seen8 = set()
    for n in late:
        if id(n) in seen8:
            continue
        seen8.add(id(n))
        chk.violation("R2.8", "C02/R2.8:Save:%s" % (n.get("short") or n.get("op")), where(saves[0], n),
                      "NifFile::Save calls %s, which can delete blocks, after the header string table was rebuilt for this save: the "
                      "strings of the blocks it deletes are still written, and the next save of the same model writes a different "
                      "table" % (n.get("fn") or n.get("short")))
    chk.instance(R8, ok=not late, sample={"fn": "NifFile::Save", "deleting_calls_after_string_rebuild": len(seen8)})
    chk.floor(R8, 1)

    # ---- R2.7 membership mirrors in the pre-write pipeline
    R7 = chk.rule("R2.7", "in the pre-write pipeline, a local list that is asked `contains(list, x)` to decide whether x still has "
                          "to be added to a second container mirrors that container: every insertion into the container is "
                          "accompanied, in the same block, by the insertion of the same value into the list (otherwise the "
                          "'add what is missing' step adds the value again on every save)")
    INS = ("push_back", "emplace_back", "insert", "AddBlockRef", "AddBlock", "emplace")
    npairs = 0
    for fid in sorted(reach | set(F.reachable([x["id"] for x in F.fns.values() if x["name"] in ("nifly::NifFile::PrettySortBlocks",)]))):
        fn = F.fns.get(fid)
        if not fn or not fn.get("body") or fn.get("tmpl") == "pattern":
            continue
        if any(n["k"] == "Call" and n.get("short") == "contains" for n in walk(fn["body"])):
            fn = F.inl(fn)  # insertions that were moved into a local lambda / private helper are read in place

        def ins_of(stmt):
            """(container text, value text) of an insertion statement"""
            if is_node(stmt) and stmt["k"] == "Call" and stmt.get("short") in INS and is_node(stmt.get("recv")) and stmt.get("args"):
                return show(stmt["recv"]), show(stmt["args"][-1])
            return None

        pairs = set()
        for n in walk(fn["body"]):
            if n["k"] != "If" or not is_node(n.get("cond")):
                continue
            tested = None
            for c in walk(n["cond"]):
                if c["k"] == "Unary" and c["op"] == "!" and is_node(c["e"]):
                    e = c["e"]
                    while is_node(e) and e["k"] in ("Cast", "Paren"):
                        e = e["e"]
                    if is_node(e) and e["k"] == "Call" and e.get("short") == "contains" and len(e.get("args", [])) == 2:
                        a0 = e["args"][0]
                        while is_node(a0) and a0["k"] == "Cast":
                            a0 = a0["e"]
                        if is_node(a0) and a0["k"] == "Ref" and a0.get("rk") == "local":
                            tested = (show(a0), show(e["args"][1]))
            if tested is None:
                continue
            inserted = [ins_of(x) for x in walk(n.get("then") or {})]
            inserted = [x for x in inserted if x and x[1] == tested[1]]
            if any(c == tested[0] for c, _ in inserted):
                for c, _ in inserted:
                    if c != tested[0]:
                        pairs.add((tested[0], c))
        for mirror, cont in sorted(pairs):
            npairs += 1
            for blk in walk(fn["body"]):
                if blk["k"] not in ("Compound", "If", "RangeFor", "For", "While"):
                    continue
                stmts = blk.get("body", []) if blk["k"] == "Compound" else [blk.get("then"), blk.get("else")] if blk["k"] == "If" else [blk.get("body")]
                for st_ in stmts:
                    i_ = ins_of(st_)
                    if not i_ or i_[0] != cont:
                        continue
                    sibs = blk.get("body", []) if blk["k"] == "Compound" else [st_]
                    ok = any(ins_of(y) == (mirror, i_[1]) for y in sibs)
                    chk.instance(R7, ok=ok, sample={"fn": fn["name"], "container": cont, "mirror": mirror, "value": i_[1]})
                    if not ok:
                        chk.violation("R2.7", "C02/R2.7:%s:%s:%s" % (strip_targs(fn["name"]), cont, mirror), where(fn, st_),
                                      "%s adds `%s` to `%s` without recording it in `%s`, the list its later `!contains(%s, ...)` "
                                      "test consults before adding what is still missing: the value is added a second time, on every "
                                      "save" % (fn["name"], i_[1], cont, mirror, mirror))
    chk.extra["membership_mirrors"] = npairs
    chk.floor(R7, 0)

    # ---- R2.9 (= C05 on the same facts)
    chk.share(F, "c05", ["R5.1", "R5.2", "R5.5"], "R2.9",
              "the sort inside every default save renumbers exactly what the enumerators report, each reference once: a reference "
              "reported twice (by GetChildRefs and GetPtrs), not at all, or only conditionally is re-pointed by saving, so the live "
              "model and the next save differ")
    chk.floor("R2.9", 600)

    chk.assumptions += ["member paths are compared canonically; distinct paths are assumed not to alias",
                        "whether FinalizeData is idempotent on values, and equality of query results in general, are not decided"]
    chk.extra["explanation"] = ("write-path effect analysis for every registered class: no write-then-mutate, census of write-mode "
                                "mutations against a triaged table, effect containment of the pre-write pipeline; value changes "
                                "hidden inside an accepted derivation are not decided")


def _written_member(e):
    while is_node(e):
        if e["k"] == "Member" and e.get("mk", "field") == "field":
            return e
        if e["k"] == "Subscript":
            e = e["base"]
        elif e["k"] == "Cast":
            e = e["e"]
        elif e["k"] == "Unary" and e["op"] == "*":
            e = e["e"]
        elif e["k"] == "OpCall" and e.get("op") in ("*", "->") and e.get("args"):
            e = e["args"][0]
        else:
            return None
    return None


def _block_part(F, owner):
    import c04
    return c04._is_block_part(F, owner)
