"""C15 — corrupted block references never crash loading, querying or saving (DESIGN §5 C15)."""
from facts import is_node, walk, where, show
import flow
import nullness
from nullness import peel

HDR_TABLE_OWNERS = ("nifly::NiHeader",)


def scope_Q(F):
    """functions reachable from Load, Save, CopyFrom and every const public NifFile method"""
    roots = []
    for fn in F.fns.values():
        if fn.get("cls") != "nifly::NifFile" or fn.get("tmpl") == "pattern":
            continue
        if fn["short"] in ("Load", "Save", "CopyFrom"):
            roots.append(fn["id"])
        elif fn.get("const") and fn.get("access") == "public":
            roots.append(fn["id"])
    return roots, F.reachable(roots)


def sccs(F, nodes):
    idx, low, st, on, out, c = {}, {}, [], set(), [], [0]

    def sc(v):
        idx[v] = low[v] = c[0]
        c[0] += 1
        st.append(v)
        on.add(v)
        for w in F.callee_ids(v):
            if w not in F.fns or w not in nodes:
                continue
            if w not in idx:
                sc(w)
                low[v] = min(low[v], low[w])
            elif w in on:
                low[v] = min(low[v], idx[w])
        if low[v] == idx[v]:
            comp = []
            while True:
                w = st.pop()
                on.discard(w)
                comp.append(w)
                if w == v:
                    break
            if len(comp) > 1 or v in F.callee_ids(v):
                out.append(comp)

    for v in sorted(nodes):
        if v in F.fns and v not in idx:
            sc(v)
    return out


def run(F, chk):
    R1 = chk.rule("R15.1", "every dereference of a value that reaches from a nullable block lookup (NifFile/NiHeader functions "
                           "that can return nullptr, dynamic_cast) is dominated by a non-null test; a maybe-null value is "
                           "not passed to a function that dereferences the parameter unchecked")
    R2 = chk.rule("R15.2", "every GetBlockUnsafe / static downcast to a block class in scope is dominated by a HasType<T> test "
                           "of the same object or applied to an object created in the same function")
    R3 = chk.rule("R15.3", "every recursive call edge in scope passes through a gate (node tested not-visited and inserted "
                           "into the visited container before any recursive call), carries a not-visited guard on its "
                           "argument, or follows a call that shrinks the block list; pointer-chasing loops are bounded")
    R4 = chk.rule("R15.4", "every subscript in NiHeader methods by a caller-supplied or reference-derived index is dominated by "
                           "an upper-bound test of that index")

    roots, Q = scope_Q(F)
    chk.require(len(roots) >= 40, "only %d scope roots (Load/Save/CopyFrom + const public NifFile methods)" % len(roots))
    chk.extra["scope_roots"] = len(roots)
    chk.extra["scope_functions"] = len([f for f in Q if f in F.fns])

    # ---------------------------------------------------------------- R15.1
    N = nullness.Nullness(F)
    chk.extra["nullable_lookup_functions"] = sorted(set(F.fns[f]["name"].split("<")[0] for f in N.nullable))[:60]
    out_of_scope = []
    for fid in sorted(F.fns):
        fn = F.fns[fid]
        if fn.get("tmpl") == "pattern":
            continue
        fs = N.analyse(fn)
        st = N.last_stats
        inq = fid in Q
        if inq:
            bad = set(id(f["node"]) for f in fs)
            for _ in range(max(0, st["derefs"] - len(bad))):
                chk.instance(R1, ok=True, nontrivial=True)
        for f in fs:
            key = "C15/R15.1:%s:%s" % (fn["name"], f["var"])
            if inq:
                chk.instance(R1, ok=False, sample={"fn": fn["name"], "var": f["var"], "how": f["how"]})
                chk.violation("R15.1", key, where(fn, f["node"]),
                              "`%s` may be null here (result of a block lookup) and is dereferenced %s without a test in %s"
                              % (f["var"], f["how"], fn["name"]))
            else:
                out_of_scope.append("%s %s: %s %s" % (where(fn, f["node"]), fn["name"], f["var"], f["how"]))
    for s in out_of_scope:
        chk.note("outside C15's scope (not reachable from Load/Save/CopyFrom/const queries), not a violation: " + s)
    chk.floor(R1, 150, "(dereferences of lookup results in scope)")

    # ---------------------------------------------------------------- R15.2
    for fid in sorted(Q):
        fn = F.fns.get(fid)
        if not fn or fn.get("tmpl") == "pattern":
            continue
        if fn.get("cls") == "nifly::NiHeader" and fn["short"].startswith("GetBlockUnsafe"):
            continue  # the unsafe primitive itself
        if fn["short"] in ("asDer", "Clone", "Clone_impl"):
            continue  # CRTP self-casts: the static type is the dynamic type by R11.4
        sites = [n for n in walk(fn.get("body") or {}) if
                 (n["k"] == "Cast" and n.get("cast") == "BaseToDerived") or
                 (n["k"] == "Call" and (n.get("short") or "").startswith("GetBlockUnsafe"))]
        if not sites:
            continue
        ids = set(id(n) for n in sites)
        col = flow.Collect(F, fn, lambda n: id(n) in ids)
        col.run()
        for n, sts in col.by_node():
            if n["k"] == "Cast":
                obj = show(peel(n["e"]))
                tgt = n["t"].replace("const ", "").replace("*", "").replace("&", "").strip()
                ok = all(_type_tested(st, obj, tgt, F) for st in sts)
                what = "static downcast of `%s` to %s" % (obj, tgt)
            else:
                ok = False
                what = "GetBlockUnsafe call"
            chk.instance(R2, ok=ok, sample={"fn": fn["name"], "what": what})
            if not ok:
                chk.violation("R15.2", "C15/R15.2:%s:%s" % (fn["name"].split("<")[0], what), where(fn, n),
                              "%s in %s is not dominated by a HasType/dynamic_cast test of the same object" % (what, fn["name"]))
    chk.floor(R2, 1)

    # ---------------------------------------------------------------- R15.3
    save_roots = [f["id"] for f in F.fns.values() if f.get("cls") == "nifly::NifFile" and f["short"] in ("Load", "Save", "CopyFrom")]
    scope3 = Q | F.reachable(save_roots)
    comps = sccs(F, set(f for f in scope3 if f in F.fns))
    chk.extra["recursive_components"] = [[F.fns[f]["name"] for f in c] for c in comps]
    for comp in comps:
        cset = set(comp)
        # recursion that consumes the input stream (nested Sync of value types) is bounded by the file length
        if all(F.fns[f]["short"] == "Sync" for f in comp):
            for f in comp:
                chk.instance(R3, ok=True, sample={"component": F.fns[f]["name"], "kind": "stream-consuming Sync recursion"},
                             nontrivial=False)
            continue
        site_info = {}  # fid -> list of (node, guarded?, target fids)
        for f in comp:
            fn = F.fns[f]
            calls = [(n, [t for t in ts if t in cset]) for n, ts in F.calls_in(fn)]
            calls = [(n, ts) for n, ts in calls if ts and n["k"] in ("Call", "OpCall")]
            ids = {id(n): ts for n, ts in calls}

            class G(flow.Collect):
                def on_node(self, n, st):
                    st = super().on_node(n, st)
                    if st is not None and n["k"] == "Call" and n.get("cls") == "nifly::NiHeader" and \
                            (n.get("short") or "").startswith("DeleteBlock"):
                        return st | {("D", "shrink")}
                    return st

            col = G(F, fn, lambda n: id(n) in ids)
            col.run()
            res = []
            for n, sts in col.by_node():
                ok_all = True
                why = None
                for st in sts:
                    ins, notin = flow.in_facts(st), flow.notin_guards(st)
                    gate = bool(ins & notin)
                    argstrs = set(show(a) for a in n.get("args", []))
                    argguard = any(v in set(i[0] for i in ins) and x in argstrs for v, x in notin)
                    shrink = st is not None and ("D", "shrink") in st
                    if not (gate or argguard or shrink):
                        ok_all = False
                    else:
                        why = "gate" if gate else ("arg-guard" if argguard else "shrink")
                res.append((n, ok_all, ids[id(n)], why))
            site_info[f] = res
        gates = set(f for f in comp if site_info[f] and all(ok for _, ok, _, _ in site_info[f]))
        gates |= set(f for f in comp if not site_info[f])
        # cut edges into gates and guarded edges; remaining graph must be acyclic
        edges = {}
        for f in comp:
            for n, ok, ts, why in site_info[f]:
                for t in ts:
                    if t in gates or ok:
                        continue
                    edges.setdefault(f, []).append((t, n))
        bad_edges = _edges_on_cycles(edges)
        for f in comp:
            for n, ok, ts, why in site_info[f]:
                for t in ts:
                    on_cycle = (f, t, id(n)) in bad_edges
                    chk.instance(R3, ok=not on_cycle, sample={"edge": "%s -> %s" % (F.fns[f]["name"], F.fns[t]["name"]),
                                                              "discharged_by": why or ("callee is a gate" if t in gates else "acyclic")})
                    if on_cycle:
                        chk.violation("R15.3", "C15/R15.3:%s->%s:%s" % (F.fns[f]["name"], F.fns[t]["name"],
                                                                        ",".join(show(a) for a in n.get("args", [])[:2])),
                                      where(F.fns[f], n),
                                      "recursive call %s -> %s lies on a cycle with no visited-set gate, not-visited guard or "
                                      "shrinking step: a reference cycle in the file recurses without bound" % (
                                          F.fns[f]["name"], F.fns[t]["name"]))
    # pointer-chasing loops in scope
    for fid in sorted(scope3):
        fn = F.fns.get(fid)
        if not fn or fn.get("tmpl") == "pattern":
            continue
        for n in walk(fn.get("body") or {}):
            if n["k"] not in ("While", "Do", "For") or not is_node(n.get("cond")):
                continue
            ptrs = _ptr_walk_vars(F, N, n)
            if not ptrs:
                continue
            bounded = _loop_bounded(n)
            chk.instance(R3, ok=bounded, sample={"fn": fn["name"], "loop_over": sorted(ptrs), "bounded": bounded})
            if not bounded:
                chk.violation("R15.3", "C15/R15.3:loop:%s:%s" % (fn["name"], ",".join(sorted(ptrs))), where(fn, n),
                              "loop in %s follows block links through `%s` with neither an iteration bound nor a visited "
                              "set: a reference cycle in the file never terminates" % (fn["name"], ",".join(sorted(ptrs))))
    chk.floor(R3, 12, "(recursive edges + graph-walk loops)")

    # ---------------------------------------------------------------- R15.4
    for fn, n, sidx, kind, ok, note in header_range_guards(F):
        if note:
            chk.note(note)
            continue
        chk.instance(R4, ok=ok, sample={"fn": fn["name"], "index": sidx, "kind": kind})
        if not ok:
            chk.violation("R15.4", "C15/R15.4:%s:%s" % (fn["name"].split("<")[0], sidx), where(fn, n),
                          "%s subscripts a table with the %s index `%s` without an upper-bound test" % (
                              fn["name"], {"param": "caller-supplied", "ref": "reference-derived"}.get(kind, "file-table-derived"), sidx))
    chk.floor(R4, 8)

    # ---------------------------------------------------------------- R15.5
    R5 = chk.rule("R15.5", "in load / query / save / copy code, every subscript of a block's member container by a caller-supplied "
                           "index is dominated by a comparison of that index with the size of the same container or with the "
                           "count member its reader sizes it to")
    import arrays, paths as _paths, c02 as _c02
    arrays_mod = arrays
    from paths import render as _render
    S5 = _paths.Summarizer(F, _c02.make_primitive(F), mode=flow.MODE_READ, value_proxies=True,
                           node_kinds=("Call", "OpCall", "Construct", "Assign", "Unary"))
    counter_of = {}
    for cls in F.block_classes():
        for fn_ in [f for f in F.fns.values() if f.get("cls") == cls and f["short"] == "Sync" and f.get("tmpl") != "pattern"]:
            for ev in S5.events(fn_["id"]):
                if ev.kind == "mut" and ev.info["op"] == "resize" and ev.path and ev.path[0][0] == "this" and len(ev.path) == 2 \
                        and ev.info.get("size_path") and len(ev.info["size_path"]) == 2:
                    counter_of[(cls, ev.path[1])] = ev.info["size_path"][1]
    chk.extra["array_counter_pairs"] = len(counter_of)
    for fid in sorted(scope3):
        fn = F.fns.get(fid)
        if not fn or fn.get("tmpl") == "pattern" or fn.get("cls") != "nifly::NifFile":
            continue
        pids = {p["id"] for p in fn.get("params", [])}
        subs = []
        for x in walk(fn.get("body") or {}):
            if x["k"] != "Subscript":
                continue
            i, b = peel(x["idx"]), peel(x["base"])
            if is_node(i) and i["k"] == "Ref" and i.get("id") in pids and is_node(b) and b["k"] == "Member" and \
                    b.get("mk") == "field" and arrays._is_dyn_container(b.get("ct") or b.get("t")) and \
                    F.derives_from(b.get("owner") or "", "nifly::NiObject"):
                subs.append((x, i, b))
        if not subs:
            continue
        ids = {id(x) for x, _, _ in subs}
        col = flow.Collect(F, fn, lambda n: id(n) in ids)
        col.run()
        info = {id(x): (i, b) for x, i, b in subs}
        for x, sts in col.by_node():
            i, b = info[id(x)]
            obj = show(b.get("base")) if b.get("base") is not None else ""
            bounds = ["%s.size()" % show(b)]
            for c in [b.get("owner")] + F.ancestors(b.get("owner")):
                if (c, b["name"]) in counter_of:
                    bounds.append(("%s.%s" % (obj, counter_of[(c, b["name"])])) if obj else counter_of[(c, b["name"])])
            # a bound hoisted into a local that is never reassigned (`const uint32_t n = data->nBones;`) stands for its initialiser
            assigned_ = {y["l"]["id"] for y in walk(fn["body"]) if y["k"] == "Assign" and is_node(y["l"]) and y["l"]["k"] == "Ref"} | \
                        {y["e"]["id"] for y in walk(fn["body"]) if y["k"] == "Unary" and y["op"] in ("++", "--") and is_node(y["e"]) and y["e"]["k"] == "Ref"}
            for d_ in walk(fn["body"]):
                if d_["k"] == "Decl":
                    for v_ in d_.get("vars", []):
                        if v_["id"] not in assigned_ and is_node(v_.get("init")) and show(peel(v_["init"])) in bounds:
                            bounds.append(v_["name"])
            ok = all(_index_bounded(st, i["name"], bounds) for st in sts)
            chk.instance(R5, ok=ok, sample={"fn": fn["name"], "container": show(b), "index": i["name"], "accepted_bounds": bounds})
            if not ok:
                chk.violation("R15.5", "C15/R15.5:%s:%s[%s]" % (fn["name"].split("(")[0], show(b), i["name"]), where(fn, x),
                              "%s reads `%s[%s]` without comparing the index with that container's size (%s): a reference "
                              "redirected to a block with fewer elements, or an index taken from a sibling list, reads past the "
                              "array" % (fn["name"], show(b), i["name"], " or ".join(bounds)))
    chk.floor(R5, 5)

    # ---------------------------------------------------------------- R15.6
    R6 = chk.rule("R15.6", "in load / query / save / copy code, a loop bounded by a block's element counter that indexes one of the block's "
                           "own arrays is not preceded, in the same function, by a call that re-derives that counter from another "
                           "block's data without resizing the array: a redirected reference makes the two disagree")
    Sw = _paths.Summarizer(F, _c02.make_primitive(F), mode=None, value_proxies=False,
                           node_kinds=("Call", "OpCall", "Construct", "Assign", "Unary"))
    # counters: const no-arg getters that return one member (GetNumVertices -> numVertices)
    getter_of = {}
    for f_ in F.fns.values():
        if f_.get("cls") and f_.get("const") and not f_.get("params") and f_.get("body") and F.derives_from(f_["cls"], "nifly::NiObject"):
            rets = [x for x in walk(f_["body"]) if x["k"] == "Return" and is_node(x.get("e"))]
            if len(rets) == 1:
                e_ = peel(rets[0]["e"])
                if is_node(e_) and e_["k"] == "Member" and e_.get("mk", "field") == "field" and (e_.get("base") is None or e_["base"]["k"] == "This"):
                    getter_of[f_["id"]] = e_["name"]
    n6 = 0
    for fid in sorted(scope3):
        fn = F.fns.get(fid)
        if not fn or fn.get("tmpl") == "pattern" or fn.get("cls") != "nifly::NifFile" or not fn.get("body"):
            continue
        order = {id(x): i_ for i_, x in enumerate(walk(fn["body"]))}
        for lp in walk(fn["body"]):
            if lp["k"] != "For" or not is_node(lp.get("cond")) or lp["cond"]["k"] != "Binary" or lp["cond"]["op"] != "<":
                continue
            bound = peel(lp["cond"]["r"])
            if is_node(bound) and bound["k"] == "Ref" and bound.get("rk") == "local":
                # a bound hoisted into a local that is defined once (`const uint16_t n = shape->GetNumVertices();`)
                defs_ = [v_ for d_ in walk(fn["body"]) if d_["k"] == "Decl" for v_ in d_.get("vars", []) if v_["id"] == bound["id"]]
                reassigned = any(y["k"] == "Assign" and is_node(y["l"]) and y["l"]["k"] == "Ref" and y["l"].get("id") == bound["id"] for y in walk(fn["body"]))
                if len(defs_) == 1 and is_node(defs_[0].get("init")) and not reassigned:
                    bound = peel(defs_[0]["init"])
            obj = counter = None
            if is_node(bound) and bound["k"] == "Call" and bound.get("fid") in getter_of and is_node(bound.get("recv")):
                obj, counter = bound["recv"], getter_of[bound["fid"]]
            elif is_node(bound) and bound["k"] == "Member" and is_node(bound.get("base")) and bound.get("mk", "field") == "field":
                obj, counter = bound["base"], bound["name"]
            if obj is None or not (is_node(peel(obj)) and peel(obj)["k"] == "Ref"):
                continue
            oid = peel(obj)["id"]
            ivar = peel(lp["cond"]["l"])
            arrays = set()
            for x in walk(lp["body"]):
                if x["k"] == "Subscript" and is_node(peel(x["idx"])) and peel(x["idx"]).get("id") == (ivar or {}).get("id"):
                    b_ = peel(x["base"])
                    if is_node(b_) and b_["k"] == "Member" and is_node(b_.get("base")) and peel(b_["base"]).get("id") == oid and \
                            arrays_mod._is_dyn_container(b_.get("ct") or b_.get("t")):
                        arrays.add(b_["name"])
            if not arrays:
                continue
            # earlier calls on the same object that write the counter
            for c_ in walk(fn["body"]):
                if c_["k"] != "Call" or order.get(id(c_), 0) > order.get(id(lp), 0) or not is_node(c_.get("recv")):
                    continue
                r_ = peel(c_["recv"])
                if not (is_node(r_) and r_["k"] == "Ref"):
                    continue
                same = r_["id"] == oid
                if not same:
                    # an upcast alias of the same object (`auto dyn = dynamic_cast<D*>(base)`)
                    for d_ in walk(fn["body"]):
                        if d_["k"] == "Decl":
                            for v_ in d_.get("vars", []):
                                if v_["id"] == oid and is_node(v_.get("init")) and any(
                                        y["k"] == "Ref" and y.get("id") == r_["id"] for y in walk(v_["init"])):
                                    same = True
                if not same:
                    continue
                writes_counter, touched = False, set()
                for t_ in F.call_targets(c_):
                    for ev in Sw.events(t_):
                        if ev.kind == "mut" and ev.path and ev.path[0][0] == "this" and len(ev.path) >= 2:
                            if ev.path[1] == counter and len(ev.path) == 2:
                                writes_counter = True
                            touched.add(ev.path[1])
                if not writes_counter:
                    continue
                for a_ in sorted(arrays):
                    resized_between = any(
                        y["k"] == "Call" and y.get("short") in ("resize", "assign") and is_node(y.get("recv")) and peel(y["recv"])["k"] == "Member"
                        and peel(y["recv"])["name"] == a_ and order.get(id(c_), 0) < order.get(id(y), 0) < order.get(id(lp), 0)
                        for y in walk(fn["body"]))
                    ok = a_ in touched or resized_between
                    n6 += 1
                    chk.instance(R6, ok=ok, sample={"fn": fn["name"], "counter": counter, "rederived_by": c_.get("fn"), "array": a_})
                    if not ok:
                        chk.violation("R15.6", "C15/R15.6:%s:%s:%s" % (fn["name"], a_, counter), where(fn, lp),
                                      "%s indexes `%s` by a loop bounded by `%s`, but %s has just re-derived that counter from other "
                                      "data without resizing `%s`: a reference redirected to a block with more elements reads past "
                                      "the array" % (fn["name"], a_, counter, c_.get("fn"), a_))
    chk.floor(R6, 1)

    chk.assumptions += [
        "pointers handed out by block payload classes (HasX()/XRef() pairs, index-tested accessors) follow those classes' own "
        "invariants and are not lookup results",
        "a local that is not address-taken keeps its nullness between a test and a use unless assigned",
        "pointer parameters of public entry points are the caller's contract",
    ]
    chk.extra["explanation"] = ("necessary structural conditions for crash-freedom under corrupted references, exhaustively "
                                "checked over every dereference, downcast, recursive edge, graph-walk loop and header-table "
                                "subscript in scope; heap safety of arbitrary index arithmetic elsewhere is not decided")


def header_range_guards(F):
    """(fn, node, index, kind, ok, note) for every subscript in NiHeader methods by a caller-supplied, reference-derived or
    file-table-derived index"""
    for fid in sorted(F.fns):
        fn = F.fns[fid]
        owner = fn
        while owner is not None and owner.get("lambda_parent"):
            owner = F.fns.get(owner["lambda_parent"])  # a helper lambda inside a NiHeader method is part of that method
        if owner is None or owner.get("cls") != "nifly::NiHeader" or fn.get("tmpl") == "pattern":
            continue
        pids = {p["id"] for p in fn.get("params", [])} if owner is fn else set()
        # locals that hold a value read out of a header table (file-derived): `t = blockTypeIndices[i]`, `t = GetBlockTypeIndex(i)`
        derived = {}
        for d in walk(fn.get("body") or {}):
            if d["k"] == "Decl":
                for v in d.get("vars", []):
                    i0 = peel(v.get("init")) if is_node(v.get("init")) else None
                    if not is_node(i0):
                        continue
                    if i0["k"] == "Subscript" and _hdr_table(i0["base"]):
                        derived[v["id"]] = show(i0)
                    elif i0["k"] == "Call" and i0.get("cls") == "nifly::NiHeader" and i0.get("short") in ("GetBlockTypeIndex",):
                        derived[v["id"]] = show(i0)
        subs = []
        for n in walk(fn.get("body") or {}):
            idx = None
            if n["k"] == "Subscript":
                idx = n["idx"]
            elif n["k"] == "Call" and n.get("short") == "at" and n.get("args"):
                idx = n["args"][0]
            if idx is None:
                continue
            i = peel(idx)
            kind = None
            if is_node(i) and i["k"] == "Ref" and i.get("id") in pids:
                kind = "param"
            elif is_node(i) and i["k"] == "Member" and i.get("name") == "index" and i.get("owner") == "nifly::NiRef":
                kind = "ref"
            elif is_node(i) and i["k"] == "Ref" and i.get("id") in derived:
                kind = "table-derived"
            if kind == "param" and not fn.get("const") and fn["short"] not in ("SetBlockOrder", "BlockDeleted"):
                # index parameters of editing operations (DeleteBlock, ReplaceBlock, …) are the caller's contract:
                # edits are outside C15's quantifier (loading, querying, saving)
                yield fn, n, show(i), kind, True, "caller-contract index parameter, not checked: %s `%s`" % (fn["name"], show(i))
                continue
            if kind:
                subs.append((n, i, kind))
        if not subs:
            continue
        ids = {id(n) for n, _, _ in subs}
        col = flow.Collect(F, fn, lambda n: id(n) in ids)
        col.run()
        info = {id(n): (i, kind) for n, i, kind in subs}
        for n, sts in col.by_node():
            i, kind = info[id(n)]
            s = show(i)
            ok = all(_upper_bounded(st, s) for st in sts)
            yield fn, n, s, kind, ok, None


def _index_bounded(st, idx, bounds):
    """a guard `idx (+c) < / <= bound` for one of the accepted bound expressions of the same container"""
    if st is None:
        return True
    import re
    for f in st:
        if f[0] != "G" or not (f[1].startswith("(") and " < " in f[1]):
            continue
        a, b = f[1][1:-1].split(" < ", 1)
        lo, hi = (a, b) if f[2] else (b, a)   # f true: a < b ; f false: b <= a
        if re.search(r"\b%s\b" % re.escape(idx), lo) and any(bd in hi for bd in bounds):
            return True
    return False


def _hdr_table(e):
    while is_node(e):
        k = e["k"]
        if k == "Member":
            if e.get("owner") == "nifly::NiHeader" and e.get("name") in ("blockTypeIndices", "blockSizes", "blocks", "blockTypes", "strings"):
                return True
            e = e.get("base")
        elif k == "Unary" and e["op"] == "*":
            e = e["e"]
        elif k == "Cast":
            e = e["e"]
        elif k == "OpCall" and e.get("args"):
            e = e["args"][0]
        else:
            return False
    return False


def _type_tested(st, obj, tgt, F):
    if st is None:
        return True
    for f in st:
        if f[0] != "G" or not f[2]:
            continue
        k = f[1]
        if k.startswith(obj + ".HasType<") and k.endswith(">()"):
            t = k[len(obj) + 9:-3].replace("const ", "").strip()
            if t == tgt or F.derives_from(t, tgt):
                return True
        if k.startswith("dynamic_cast<") and k.endswith("(%s)" % obj):
            t = k[13:k.index(">(")].replace("const ", "").replace("*", "").strip()
            if t == tgt or F.derives_from(t, tgt):
                return True
    return False


def _edges_on_cycles(edges):
    """edges: f -> [(t, node)]; returns set of (f, t, id(node)) that lie on a cycle of the remaining graph"""
    nodes = set(edges)
    for f in list(edges):
        for t, _ in edges[f]:
            nodes.add(t)

    def reach(a):
        seen, work = set(), [a]
        while work:
            x = work.pop()
            for t, _ in edges.get(x, []):
                if t not in seen:
                    seen.add(t)
                    work.append(t)
        return seen

    bad = set()
    for f in edges:
        for t, n in edges[f]:
            if f == t or f in reach(t):
                bad.add((f, t, id(n)))
    return bad


def _ptr_walk_vars(F, N, loop):
    """pointer locals tested by the loop condition and re-assigned inside the loop from a graph accessor call"""
    cond_vars = {}
    for x in walk(loop["cond"]):
        if x["k"] == "Ref" and x.get("rk") in ("local", "param") and (x.get("ct") or x.get("t") or "").rstrip().endswith("*"):
            cond_vars[x["id"]] = x["name"]
    if not cond_vars:
        return set()
    out = set()
    parts = [loop.get("body"), loop.get("inc")]
    for part in parts:
        if not is_node(part):
            continue
        for x in walk(part):
            if x["k"] == "Assign" and x["op"] == "=" and is_node(x["l"]) and x["l"]["k"] == "Ref" and \
                    x["l"].get("id") in cond_vars and is_node(x["r"]):
                r = peel(x["r"])
                if r["k"] == "Call" or N.is_source(r):
                    out.add(cond_vars[x["l"]["id"]])
    return out


def _loop_bounded(loop):
    """the condition has a conjunct `counter < bound` whose counter is incremented in the loop, or the body tests /
    inserts into a visited container"""
    conj = []

    def split(e):
        if is_node(e) and e["k"] == "Binary" and e["op"] == "&&":
            split(e["l"])
            split(e["r"])
        else:
            conj.append(e)

    split(loop["cond"])
    incs = set()
    for part in (loop.get("inc"), loop.get("body")):
        if is_node(part):
            for x in walk(part):
                if x["k"] == "Unary" and x["op"] in ("++",) and is_node(x["e"]) and x["e"]["k"] == "Ref":
                    incs.add(x["e"]["id"])
                if x["k"] == "Assign" and x["op"] == "+=" and is_node(x["l"]) and x["l"]["k"] == "Ref":
                    incs.add(x["l"]["id"])
    decs = set()
    for part in (loop.get("inc"), loop.get("body")):
        if is_node(part):
            for x in walk(part):
                if x["k"] == "Unary" and x["op"] in ("--",) and is_node(x["e"]) and x["e"]["k"] == "Ref":
                    decs.add(x["e"]["id"])
                if x["k"] == "Assign" and x["op"] == "-=" and is_node(x["l"]) and x["l"]["k"] == "Ref":
                    decs.add(x["l"]["id"])
    for c in conj:
        # a count-down budget: `remaining != 0` / `remaining > 0` / `remaining` with remaining decremented in the loop
        cc = peel(c) if is_node(c) else c
        if is_node(cc) and cc["k"] == "Ref" and cc.get("id") in decs and cc.get("id") not in incs:
            return True
        if is_node(c) and c["k"] == "Binary" and c["op"] in ("!=", ">"):
            l, r = peel(c["l"]), peel(c["r"])
            if is_node(l) and l["k"] == "Ref" and l.get("id") in decs and l.get("id") not in incs and is_node(r) and r.get("val") == 0:
                return True
        if is_node(c) and c["k"] == "Binary" and c["op"] in ("!=", "<"):
            l, r = peel(c["l"]), peel(c["r"])
            if is_node(r) and r["k"] == "Ref" and r.get("id") in decs and r.get("id") not in incs and is_node(l) and l.get("val") == 0:
                return True
    for c in conj:
        if is_node(c) and c["k"] == "Binary" and c["op"] in ("<", "<=", "!="):
            l = peel(c["l"])
            if is_node(l) and l["k"] == "Ref" and l.get("id") in incs:
                return True
        if is_node(c) and c["k"] == "Binary" and c["op"] in (">", ">="):
            r = peel(c["r"])
            if is_node(r) and r["k"] == "Ref" and r.get("id") in incs:
                return True
    if is_node(loop.get("body")):
        for x in walk(loop["body"]):
            if x["k"] == "Call" and x.get("ext") and x.get("short") in ("insert", "count", "find", "emplace") and \
                    "set" in ((x.get("recv") or {}).get("ct") or (x.get("recv") or {}).get("t") or ""):
                return True
    return False


def _upper_bounded(st, s):
    if st is None:
        return True
    for f in st:
        if f[0] == "G" and f[1].startswith("(%s < " % s) and f[2]:
            return True
        # !(bound < idx) does not bound strictly; (bound <= idx) false  ==  idx < bound:  key "(idx < bound)" true only
        if f[0] == "G" and f[1].endswith(" < %s)" % s) and False:
            return True
    return False
