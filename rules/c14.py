"""C14 — cloning a shape yields a self-contained copy and leaves the source untouched (DESIGN §5 C14)."""
from facts import is_node, walk, where, show
import flow
import report
import c11

NIF = "nifly::NifFile"
STD_MUT = {"resize", "clear", "push_back", "emplace_back", "erase", "insert", "pop_back", "assign", "swap", "reserve", "append",
           "emplace", "sort", "remove"}


def may_modify_receiver(F):
    """fids of methods that (transitively) write through `this`"""
    direct = set()
    for fid, fn in F.fns.items():
        if not fn.get("cls") or fn.get("ctor"):
            continue
        for n in walk(fn.get("body") or {}):
            tgt = None
            if n["k"] == "Assign":
                tgt = n["l"]
            elif n["k"] == "Unary" and n["op"] in ("++", "--"):
                tgt = n["e"]
            elif n["k"] == "Call" and n.get("ext") and n.get("short") in STD_MUT and is_node(n.get("recv")):
                tgt = n["recv"]
            if is_node(tgt) and _rooted_at_this(tgt):
                direct.add(fid)
                break
    mod = set(direct)
    changed = True
    while changed:
        changed = False
        for fid, fn in F.fns.items():
            if fid in mod or not fn.get("cls"):
                continue
            for n, ts in F.calls_in(fn):
                if n["k"] != "Call":
                    continue
                r = n.get("recv")
                on_self = r is None or (is_node(r) and _rooted_at_this(r))
                if on_self and any(t in mod for t in ts):
                    mod.add(fid)
                    changed = True
                    break
    return mod


def _rooted_at_this(e):
    while is_node(e):
        k = e["k"]
        if k == "This":
            return True
        if k in ("Member", "DepMember"):
            b = e.get("base")
            if b is None:
                return True
            e = b
        elif k == "Subscript":
            e = e["base"]
        elif k == "Unary" and e["op"] in ("*", "&"):
            e = e["e"]
        elif k == "Cast":
            e = e["e"]
        elif k == "OpCall" and e.get("op") in ("*", "->") and e.get("args"):
            e = e["args"][0]
        elif k == "Call" and e.get("short") in ("get", "at", "front", "back", "data") and e.get("recv") is not None:
            e = e["recv"]
        else:
            return False
    return False


def _root_ref(e):
    """the local/param at the root of an access path, or None"""
    while is_node(e):
        k = e["k"]
        if k == "Ref":
            return e if e.get("rk") in ("local", "param") else None
        if k in ("Member", "DepMember"):
            e = e.get("base")
        elif k == "Subscript":
            e = e["base"]
        elif k == "Unary" and e["op"] in ("*", "&"):
            e = e["e"]
        elif k == "Cast":
            e = e["e"]
        elif k == "OpCall" and e.get("op") in ("*", "->") and e.get("args"):
            e = e["args"][0]
        elif k == "Call" and e.get("recv") is not None and e.get("short") in ("get", "at", "front", "back", "data", "begin", "end"):
            e = e["recv"]
        else:
            return None
    return None


def run(F, chk):
    R1 = chk.rule("R14.1", "in CloneShape / CloneChildren / CloneNamedNode (and their lambdas) nothing reached from the source model "
                           "(srcNif, srcShape and values derived from them) is assigned to or has a modifying method called on it")
    R2 = chk.rule("R14.2", "every Clone() of a shape in NifFile is followed on all paths by SetGeomData with a block looked up in the "
                           "destination header")
    R4 = chk.rule("R14.4", "a reference or index read from a source-model object is never resolved against the destination header")
    R3 = chk.rule("R14.3", "CloneChildren consults all three enumerators of the cloned block and rewrites references to ids returned "
                           "by this header's AddBlock, re-registers strings with this header and rebinds pointers")

    mod = may_modify_receiver(F)
    anchors = ["nifly::NifFile::CloneShape", "nifly::NifFile::CloneChildren", "nifly::NifFile::CloneNamedNode"]
    fns = []
    for a in anchors:
        for fn in F.fn_named(a):
            fns.append(fn)
            for g in F.fns.values():
                if g.get("lambda_parent") == fn["id"]:
                    fns.append(g)
    # ---------------------------------------------------------------- R14.1 taint
    for fn in fns:
        parent = F.fns.get(fn.get("lambda_parent")) if fn.get("lambda_parent") else None
        tainted = {}
        src_params = [p for p in (parent or fn).get("params", []) if p["name"].lower().startswith("src")]
        for p in src_params:
            tainted[p["id"]] = p["name"]
        # in the parent too (captured by reference in lambdas)
        scopes = [parent, fn] if parent else [fn]
        # which local of the parent holds this lambda (to bind the lambda's parameters at its call sites)
        lam_var = None
        if parent:
            for n in walk(parent.get("body") or {}):
                if n["k"] == "Decl":
                    for v in n.get("vars", []):
                        if any(x["k"] == "Lambda" and x.get("fid") == fn["id"] for x in walk(v.get("init") or {})):
                            lam_var = v["id"]
        changed = True
        while changed:
            changed = False
            if lam_var is not None:
                for sc in scopes:
                    for n in walk(sc.get("body") or {}):
                        if n["k"] == "OpCall" and n.get("op") == "()" and n.get("args") and is_node(n["args"][0]) and \
                                n["args"][0]["k"] == "Ref" and n["args"][0].get("id") == lam_var:
                            for i, a in enumerate(n["args"][1:]):
                                if i < len(fn.get("params", [])) and fn["params"][i]["id"] not in tainted and \
                                        is_node(a) and _derives_from_source(a, tainted):
                                    tainted[fn["params"][i]["id"]] = fn["params"][i]["name"]
                                    changed = True
            for sc in scopes:
                for n in walk(sc.get("body") or {}):
                    cands = []
                    if n["k"] == "Decl":
                        cands = [(v["id"], v["name"], v.get("init")) for v in n.get("vars", [])]
                    elif n["k"] in ("If", "While") and n.get("var"):
                        cands = [(n["var"]["id"], n["var"]["name"], n["var"].get("init"))]
                    elif n["k"] == "RangeFor":
                        cands = [(n["var"]["id"], n["var"]["name"], n["range"])]
                    elif n["k"] == "Assign" and n["op"] == "=" and is_node(n["l"]) and n["l"]["k"] == "Ref" and n["l"].get("rk") == "local":
                        cands = [(n["l"]["id"], n["l"]["name"], n["r"])]
                    for vid, name, init in cands:
                        if vid in tainted or not is_node(init):
                            continue
                        if _derives_from_source(init, tainted):
                            tainted[vid] = name
                            changed = True
        checked = 0
        # R14.4: a reference / index taken from a source-model object is resolved against the *source* header
        for n in walk(fn.get("body") or {}):
            if n["k"] == "Call" and (n.get("short") or "").startswith(("GetBlock", "GetBlockTypeStringById", "IsBlockReferenced")) and \
                    n.get("cls") == "nifly::NiHeader" and is_node(n.get("recv")) and _rooted_at_this(n["recv"]) and n.get("args"):
                a = n["args"][0]
                root = _root_ref(a)
                bad = root is not None and root["id"] in tainted
                chk.instance(R4, ok=not bad, sample={"fn": fn["name"], "lookup": show(n)[:70], "source_derived_argument": bad})
                if bad:
                    chk.violation("R14.4", "C14/R14.4:%s:%s" % (fn["name"].split("@")[0], show(n)[:50]), where(fn, n),
                                  "`%s` looks up, in the destination header, a reference that was read from the source model "
                                  "(through `%s`): block indices of the two models are unrelated, so the wrong block or none is found" % (
                                      show(n)[:70], tainted[root["id"]]))
        for n in walk(fn.get("body") or {}):
            tgt, how = None, None
            if n["k"] == "Assign":
                tgt, how = n["l"], "assigned"
            elif n["k"] == "Unary" and n["op"] in ("++", "--"):
                tgt, how = n["e"], "modified"
            elif n["k"] == "Call" and is_node(n.get("recv")):
                ts = F.call_targets(n)
                if (n.get("ext") and n.get("short") in STD_MUT) or any(t in mod for t in ts):
                    tgt, how = n["recv"], "has the modifying method %s() called on it" % n.get("short")
            if tgt is None:
                continue
            root = _root_ref(tgt)
            if root is None:
                continue
            checked += 1
            # writing the variable itself (re-pointing a local) is not a write to the source object
            if is_node(tgt) and tgt["k"] == "Ref" and n["k"] != "Call":
                chk.instance(R1, ok=True, nontrivial=False)
                continue
            bad = root["id"] in tainted
            chk.instance(R1, ok=not bad, sample={"fn": fn["name"], "target": show(tgt)[:60], "source_derived": bad})
            if bad:
                chk.violation("R14.1", "C14/R14.1:%s:%s" % (fn["name"].split("@")[0], show(tgt)[:50]), where(fn, n),
                              "`%s` is reached from the source model (through `%s`) and %s in %s: cloning modifies the model it "
                              "copies from" % (show(tgt)[:60], tainted[root["id"]], how, fn["name"]))
    chk.floor(R1, 15)
    chk.floor(R4, 2)

    # ---------------------------------------------------------------- R14.2
    for fn in sorted(F.fns.values(), key=lambda f: f["id"]):
        if fn.get("cls") != NIF or fn.get("tmpl") == "pattern":
            continue
        clones = []
        for n in walk(fn.get("body") or {}):
            if n["k"] == "Call" and n.get("short") == "Clone" and is_node(n.get("recv")):
                rt = (n["recv"].get("ct") or n["recv"].get("t") or "").replace("*", "").replace("const ", "").strip()
                if rt in F.recs and F.derives_from(rt, "nifly::NiShape"):
                    clones.append(n)
        if not clones:
            continue

        class P(flow.Flow):
            def on_node(self, n, st):
                if st is None:
                    return st
                if n in clones:
                    return st | {("O", "relink")}
                if n["k"] == "Call" and n.get("short") == "SetGeomData":
                    return frozenset(f for f in st if f != ("O", "relink")) | {("D", "relinked")}
                if n["k"] == "Return" and False:
                    return st
                return st

        p = P(F, fn)
        p.run()
        # an early `return nullptr` before the clone is fine; after the clone every completing path must have relinked or
        # have found no geometry data to link (the SetGeomData call sits under `if (data)`): accept the conditional form
        relink_calls = [n for n in walk(fn["body"]) if n["k"] == "Call" and n.get("short") == "SetGeomData"]
        ok = bool(relink_calls)
        if ok:
            for rc in relink_calls:
                a = rc.get("args", [None])[0]
                # the argument must come from a lookup in *this* header (hdr.GetBlock…), not from the source
                src = _defining_init(fn, a)
                if not (is_node(src) and "hdr.GetBlock" in show(src) and "src" not in show(src).split("hdr.GetBlock")[0].lower()):
                    ok = False
        chk.instance(R2, ok=ok, sample={"fn": fn["name"], "clones": len(clones), "relink_calls": len(relink_calls)})
        if not ok:
            chk.violation("R14.2", "C14/R14.2:%s" % fn["name"], where(fn, clones[0]),
                          "%s clones a shape but does not re-link it (SetGeomData) to geometry data looked up in the destination "
                          "header: the clone keeps pointing at the source's geometry" % fn["name"])
    chk.floor(R2, 1)

    # ---------------------------------------------------------------- R14.3
    cc = F.fn1("nifly::NifFile::CloneChildren")
    lambdas = [g for g in F.fns.values() if g.get("lambda_parent") == cc["id"]]
    chk.require(len(lambdas) >= 1, "CloneChildren's cloning lambda not found")
    body_nodes = [n for g in lambdas for n in walk(g["body"])]
    called = {}
    for n in body_nodes:
        if n["k"] == "Call" and n.get("virt") and n.get("cls") == "nifly::NiObject":
            called.setdefault(n.get("short"), []).append(n)
    need = {
        "GetChildRefs": "references of the cloned block are not visited: children are not cloned and indices keep pointing into the source",
        "GetStringRefs": "string references are not re-registered with the destination header",
        "GetPtrs": "back pointers are not rebound to the clone's ancestors",
    }
    for m, why in need.items():
        ok = m in called
        chk.instance(R3, ok=ok, sample={"enumerator": m, "consulted": ok})
        if not ok:
            chk.violation("R14.3", "C14/R14.3:CloneChildren:%s" % m, where(cc), "CloneChildren no longer consults %s: %s" % (m, why))
    # refs rewritten to the id returned by this->hdr.AddBlock
    addblock = [n for n in body_nodes if n["k"] == "Call" and n.get("fn") == "nifly::NiHeader::AddBlock" and
                is_node(n.get("recv")) and show(n["recv"]) == "hdr"]
    rewrites = [n for n in body_nodes if n["k"] == "Assign" and show(n["l"]).endswith(".index")]
    ok = bool(addblock) and any(_value_from(lambdas, n["r"], addblock) for n in rewrites)
    chk.instance(R3, ok=ok, sample={"ref_rewritten_to_AddBlock_result": ok})
    if not ok:
        chk.violation("R14.3", "C14/R14.3:CloneChildren:rewrite", where(cc),
                      "CloneChildren does not rewrite each reference to the id returned by the destination header's AddBlock")
    strs = [n for n in body_nodes if n["k"] == "Call" and n.get("short") == "AddOrFindStringId" and is_node(n.get("recv"))
            and show(n["recv"]) == "hdr"]
    setidx = [n for n in body_nodes if n["k"] == "Call" and n.get("short") == "SetIndex"]
    ok = bool(strs) and bool(setidx)
    chk.instance(R3, ok=ok, sample={"strings_reregistered_with_this_header": ok})
    if not ok:
        chk.violation("R14.3", "C14/R14.3:CloneChildren:strings", where(cc),
                      "CloneChildren does not re-register the clone's strings with the destination header")
    # recursion into the clone (not the source child)
    # the local that holds the recursive lambda, and the locals that hold (a pointer into) a clone: `x = y->Clone()`, `p = x.get()`
    lam_vars = {v["id"] for d in walk(cc["body"]) if d["k"] == "Decl" for v in d.get("vars", [])
                if is_node(v.get("init")) and any(x["k"] == "Lambda" and x.get("fid") in {g["id"] for g in lambdas} for x in walk(v["init"]))}
    clone_vars = set()
    for _ in range(3):
        for d in body_nodes:
            if d["k"] == "Decl":
                for v in d.get("vars", []):
                    i0 = v.get("init")
                    if is_node(i0) and (any(x["k"] == "Call" and x.get("short") == "Clone" for x in walk(i0)) or
                                        any(x["k"] == "Ref" and x.get("id") in clone_vars for x in walk(i0))):
                        clone_vars.add(v["id"])
    rec = [n for n in body_nodes if n["k"] == "OpCall" and n.get("op") == "()" and n.get("args") and is_node(n["args"][0]) and
           any(x["k"] == "Ref" and x.get("id") in lam_vars for x in walk(n["args"][0]))]
    ok = bool(rec) and all(any(x["k"] == "Ref" and x.get("id") in clone_vars for x in walk(n["args"][1])) for n in rec if len(n["args"]) > 1)
    chk.instance(R3, ok=ok, sample={"recurses_into_clone": ok})
    if not ok:
        chk.violation("R14.3", "C14/R14.3:CloneChildren:recursion", where(cc), "CloneChildren must recurse into the cloned child")
    # the clone is taken from the *source* header lookup and added to *this* header
    src_params = {p_["id"] for p_ in cc.get("params", []) if "NifFile" in (p_.get("ct") or p_.get("t") or "")}
    look = [n for n in body_nodes if n["k"] == "Call" and (n.get("short") or "").startswith("GetBlock") and is_node(n.get("recv")) and
            any(x["k"] == "Ref" and x.get("id") in src_params for x in walk(n["recv"]))]
    ok = bool(look)
    chk.instance(R3, ok=ok, sample={"children_looked_up_in_source": ok})
    if not ok:
        chk.violation("R14.3", "C14/R14.3:CloneChildren:lookup", where(cc), "CloneChildren must look the children up in the source model")
    chk.floor(R3, 7)

    # ---------------------------------------------------------------- R14.5
    import c01
    R5 = chk.rule("R14.5", "a cloned block is registered in the destination header under its own type: CloneChildren/CloneShape add "
                           "clones through NiHeader::AddBlock, which takes the type name from GetBlockName(), and every registered "
                           "block class returns its own BlockName from it")
    addb = F.fn1("nifly::NiHeader::AddBlock")
    uses_name = any(n["k"] == "Call" and n.get("short") == "GetBlockName" for n in walk(addb.get("body") or {}))
    chk.instance(R5, ok=uses_name, sample={"AddBlock_registers_by": "GetBlockName()" if uses_name else "?"})
    if not uses_name:
        chk.violation("R14.5", "C14/R14.5:AddBlock", where(addb), "NiHeader::AddBlock no longer takes the type name from the block's GetBlockName()")
    for cls, ok, why, site in c01.registered_type_names(F):
        if cls is None:
            continue
        chk.instance(R5, ok=ok, sample={"class": cls})
        if not ok:
            chk.violation("R14.5", "C14/R14.5:%s" % cls, site,
                          "a clone of %s is registered in the destination under another type: %s %s — the destination saves and "
                          "reloads the clone as a block of that other type" % (cls, cls, why))
    chk.floor(R5, 290)

    # ---------------------------------------------------------------- R14.6
    R6 = chk.rule("R14.6", "a reference array that the clone functions clear and rebuild for the destination (bone pointers) is rebuilt "
                           "through a lookup of the class that declares the array, not of one of its subclasses: otherwise clones of "
                           "the sibling classes keep the source model's block numbers")
    clone_fns = [f for f in F.fns.values() if f.get("cls") == NIF and f["short"].startswith("Clone") and f.get("body") and f.get("tmpl") != "pattern"]
    clone_fns += [g for g in F.fns.values() if g.get("lambda_parent") in {f["id"] for f in clone_fns}]
    n6 = 0
    for fn in sorted(clone_fns, key=lambda f: f["id"]):
        vtypes = {}
        for d in walk(fn["body"]):
            vs = d.get("vars", []) if d["k"] == "Decl" else ([d["var"]] if d["k"] in ("If", "While") and d.get("var") else [])
            for v in vs:
                # only locals that hold the result of a block lookup: the type of the lookup decides which blocks are reached
                # (a reference to a block the function has just cloned has its exact type and is not a lookup)
                i0 = v.get("init")
                while is_node(i0) and i0["k"] == "Cast":
                    i0 = i0["e"]
                if is_node(i0) and i0["k"] == "Call" and (i0.get("short") or "").startswith("GetBlock"):
                    vtypes[v["id"]] = (v.get("ct") or v.get("t") or "").replace("const ", "").replace("*", "").replace("&", "").strip()
        seen6 = set()
        for n in walk(fn["body"]):
            if not (n["k"] == "Call" and n.get("short") in ("Clear", "AddBlockRef", "SetBlockRef") and is_node(n.get("recv"))):
                continue
            m = n["recv"]
            while is_node(m) and m["k"] == "Cast":
                m = m["e"]
            if not (is_node(m) and m["k"] == "Member" and "NiBlock" in (m.get("ct") or m.get("t") or "") and is_node(m.get("base"))):
                continue
            b = m["base"]
            while is_node(b) and b["k"] in ("Cast",):
                b = b["e"]
            if not (is_node(b) and b["k"] == "Ref" and b.get("id") in vtypes):
                continue
            owner, T = m.get("owner"), vtypes[b["id"]]
            if (owner, m["name"], T) in seen6 or T not in F.recs or owner not in F.recs:
                continue
            seen6.add((owner, m["name"], T))
            skipped = []
            if T != owner and F.derives_from(T, owner):
                skipped = [c for c in F.descendants(owner) if c != T and not F.derives_from(c, T) and not F.recs[c].get("abstract")
                           and c in set(c11.factory_types(F))]
            n6 += 1
            chk.instance(R6, ok=not skipped, sample={"fn": fn["name"].split("(")[0][-60:], "array": "%s::%s" % (owner, m["name"]),
                                                     "rebuilt_through": T})
            if skipped:
                chk.violation("R14.6", "C14/R14.6:%s::%s" % (owner, m["name"]), where(fn, n),
                              "%s rebuilds %s::%s only for blocks of type %s; clones of %s keep the source model's block numbers in "
                              "that array" % (fn["name"].split("(")[0], owner, m["name"], T, ", ".join(c.split("::")[-1] for c in skipped[:4])))
    chk.floor(R6, 1)

    # ---------------------------------------------------------------- R14.8
    R8 = chk.rule("R14.8", "a re-link call `shape->SetGeomData(p)` can re-point the cached geometry pointer of every shape class it "
                           "may be dispatched to: each override accepts its argument only through dynamic_cast<T*>, so the static "
                           "type of p must be related (base or derived) to the T of every override below the receiver's static "
                           "type (a lookup narrowed to NiTriBasedGeomData leaves a cloned NiLines pointing at the source's block)")
    accepts = {}  # class -> T its SetGeomData override casts to
    for fn in F.fns.values():
        if fn.get("short") == "SetGeomData" and fn.get("cls") and fn.get("body") and fn.get("params"):
            pid_ = fn["params"][0]["id"]
            for n in walk(fn["body"]):
                if n["k"] == "Cast" and n.get("ck") == "dynamic" and is_node(n.get("e")) and n["e"]["k"] == "Ref" and n["e"].get("id") == pid_:
                    accepts[fn["cls"]] = (n.get("t") or "").replace("*", "").replace("const ", "").strip()
    if len(accepts) < 4:
        raise report.Broken("R14.8: fewer than 4 SetGeomData overrides with a dynamic_cast found (%s)" % sorted(accepts))
    for fn in sorted(F.fns.values(), key=lambda f: f["id"]):
        if fn.get("cls") != NIF or fn.get("tmpl") == "pattern":
            continue
        for n in walk(fn.get("body") or {}):
            if not (n["k"] == "Call" and n.get("short") == "SetGeomData" and is_node(n.get("recv")) and n.get("args")):
                continue
            rt = (n["recv"].get("ct") or n["recv"].get("t") or "").replace("*", "").replace("const ", "").strip()
            a = n["args"][0]
            while is_node(a) and a["k"] == "Cast" and a.get("ck") != "dynamic":
                a = a["e"]
            at = ((a.get("ct") or a.get("t") or "") if is_node(a) else "").replace("*", "").replace("const ", "").strip()
            if is_node(a) and a["k"] == "Call" and a.get("short") == "get":
                at = at  # unique_ptr::get(): the pointee type is already the static type
            if rt not in F.recs or at not in F.recs:
                continue
            for cls, t in sorted(accepts.items()):
                if not F.derives_from(cls, rt):
                    continue
                ok = F.derives_from(t, at) or F.derives_from(at, t)
                chk.instance(R8, ok=ok, sample={"fn": fn["name"], "receiver": rt, "argument": at, "override": cls, "accepts": t})
                if not ok:
                    chk.violation("R14.8", "C14/R14.8:%s:%s" % (fn["name"], cls), where(fn, n),
                                  "%s re-links a `%s` with a `%s*`, which %s::SetGeomData (dynamic_cast<%s*>) can never accept: a "
                                  "cloned %s keeps the geometry pointer copied from the source shape" %
                                  (fn["name"], rt, at, cls, t, cls.split("::")[-1]))
    chk.floor(R8, 8)

    # ---------------------------------------------------------------- R14.9
    R9 = chk.rule("R14.9", "a block that a NifFile function clones into the destination without handing it to CloneChildren (the bone "
                           "nodes of CloneNamedNode) keeps no reference from the source model: every reference member its class "
                           "reports through GetChildRefs / GetPtrs is cleared or reassigned on the clone before it is added — a block "
                           "number copied from the source designates an unrelated (or no) block of the destination")
    import c05 as _c05, paths as _paths9
    E9 = _paths9.Summarizer(F, _c05.enum_primitive)

    def _roots_at(e, vid):
        hops = 0
        while is_node(e) and hops < 12:
            hops += 1
            k = e["k"]
            if k == "Ref":
                return e.get("id") == vid
            if k == "Member":
                e = e.get("base")
            elif k == "Cast":
                e = e["e"]
            elif k == "Unary" and e["op"] in ("*", "&"):
                e = e["e"]
            elif k == "OpCall" and e.get("op") in ("->", "*") and e.get("args"):
                e = e["args"][0]
            elif k == "Call" and e.get("short") in ("get",) and is_node(e.get("recv")):
                e = e["recv"]
            elif k == "Subscript":
                e = e["base"]
            else:
                return False
        return False

    def _first_member(e, vid):
        """name of the member of the clone (variable vid) that the access chain e goes through first"""
        chain = []
        hops = 0
        while is_node(e) and hops < 12:
            hops += 1
            k = e["k"]
            if k == "Member":
                chain.append(e["name"])
                e = e.get("base")
            elif k == "Cast":
                e = e["e"]
            elif k == "Unary" and e["op"] in ("*", "&"):
                e = e["e"]
            elif k == "OpCall" and e.get("op") in ("->", "*") and e.get("args"):
                e = e["args"][0]
            elif k == "Call" and e.get("short") in ("get",) and is_node(e.get("recv")):
                e = e["recv"]
            elif k == "Subscript":
                e = e["base"]
            elif k == "Ref":
                return chain[-1] if chain and e.get("id") == vid else None
            else:
                return None
        return None

    n9 = 0
    for fn in sorted(F.fns.values(), key=lambda f: f["id"]):
        if fn.get("cls") != NIF or fn.get("tmpl") == "pattern" or not fn.get("body"):
            continue
        for d in walk(fn["body"]):
            if d["k"] != "Decl":
                continue
            for v in d.get("vars", []):
                i0 = v.get("init")
                while is_node(i0) and i0["k"] in ("Cast", "Construct") and (i0.get("e") is not None or len(i0.get("args", [])) == 1):
                    i0 = i0["e"] if i0.get("e") is not None else i0["args"][0]
                if not (is_node(i0) and i0["k"] == "Call" and i0.get("short") == "Clone" and is_node(i0.get("recv"))):
                    continue
                rt = (i0["recv"].get("ct") or i0["recv"].get("t") or "").replace("*", "").replace("const ", "").strip()
                if rt not in F.recs or not F.derives_from(rt, "nifly::NiObject"):
                    continue
                vid = v["id"]
                # `NiNode& dest = *destNode;` / `auto p = destNode.get();` stand for the clone as well
                vids = {vid}
                for _ in range(3):
                    for d2 in walk(fn["body"]):
                        if d2["k"] == "Decl":
                            for v2 in d2.get("vars", []):
                                if v2["id"] not in vids and is_node(v2.get("init")) and any(_roots_at(v2["init"], x_) for x_ in vids):
                                    vids.add(v2["id"])
                added = any(n["k"] == "Call" and n.get("short") == "AddBlock" and any(_roots_at(a, vid) or any(
                    x["k"] == "Ref" and x.get("id") == vid for x in walk(a)) for a in n.get("args", [])) for n in walk(fn["body"]))
                through_children = any(n["k"] == "Call" and n.get("short") == "CloneChildren" for n in walk(fn["body"]))
                if not added or through_children:
                    continue
                refs = {}
                for short in ("GetChildRefs", "GetPtrs"):
                    m = F.method(rt, short)
                    f_ = m[0] if m else None
                    for ev in (E9.events(f_["id"]) if f_ else []):
                        if ev.path and ev.path[0][0] == "this" and len(ev.path) > 1:
                            refs.setdefault(ev.path[1], short)
                handled = set()
                for n in walk(fn["body"]):
                    tgt = None
                    if n["k"] == "Call" and is_node(n.get("recv")) and n.get("short") in ("Clear", "clear", "SetSize", "resize"):
                        tgt = n["recv"]
                    elif n["k"] == "Assign":
                        tgt = n["l"]
                    elif n["k"] == "OpCall" and n.get("op") == "=" and n.get("args"):
                        tgt = n["args"][0]
                    if tgt is not None:
                        for x_ in vids:
                            m_ = _first_member(tgt, x_)
                            if m_:
                                handled.add(m_)
                for m_, via in sorted(refs.items()):
                    n9 += 1
                    ok = m_ in handled
                    chk.instance(R9, ok=ok, sample={"fn": fn["name"], "clone_of": rt, "reference": m_, "reported_by": via})
                    if not ok:
                        chk.violation("R14.9", "C14/R14.9:%s:%s" % (fn["name"].split("(")[0], m_), where(fn, d),
                                      "%s clones a %s into the destination without CloneChildren and does not clear `%s` (reported by %s): "
                                      "the copied node keeps the source model's block numbers, which designate unrelated or no blocks "
                                      "of the destination, also after save and reload" % (fn["name"], rt.split("::")[-1], m_, via))
    chk.floor(R9, 4)

    # ---------------------------------------------------------------- R14.7
    chk.share(F, "c05", ["R5.1", "R5.2", "R5.5"], "R14.7",
              "CloneChildren finds what to clone, re-index and rebind only through GetChildRefs / GetStringRefs / GetPtrs: a "
              "serialised reference that an enumerator leaves out keeps the source model's number in the clone")
    chk.floor("R14.7", 600)

    # ---------------------------------------------------------------- R14.10
    chk.share(F, "c06", ["R6.10"], "R14.10",
              "the clone functions re-parent and detach nodes through the reference arrays: a block number handed to a positional "
              "array operation detaches an unrelated child of the destination and leaves the intended reference in place")
    chk.floor("R14.10", 6)

    chk.assumptions += ["taint is tracked through locals, range-for variables and lambda captures; distinct objects are assumed not to "
                        "alias (Appendix A); a same-model clone (srcNif == this) necessarily adds blocks to that model",
                        "bone-list content and equality of cloned block content (= C11 clone wiring) are not decided here"]
    chk.extra["explanation"] = ("source immutability by effects, clone=>re-link pairing and three-enumerator coverage of CloneChildren; "
                                "which ancestor ids the recursion carries (value-level) is not decided")


def _derives_from_source(e, tainted):
    """the value is obtained by a call on / member of / element of a source-tainted object (not merely passing one as argument)"""
    e0 = e
    while is_node(e0) and e0["k"] == "Cast":
        e0 = e0["e"]
    if not is_node(e0):
        return False
    if e0["k"] == "Ref":
        return e0.get("id") in tainted
    if e0["k"] == "Call":
        r = e0.get("recv")
        if is_node(r):
            root = _root_ref(r)
            if root is not None and root["id"] in tainted:
                # Clone() produces a fresh object
                return e0.get("short") not in ("Clone",)
            return _derives_from_source(r, tainted) and e0.get("short") not in ("Clone",)
        return False
    if e0["k"] in ("Member", "Subscript", "Unary", "OpCall"):
        root = _root_ref(e0)
        return root is not None and root["id"] in tainted
    return False


def _defining_init(fn, a):
    while is_node(a) and a["k"] == "Cast":
        a = a["e"]
    if is_node(a) and a["k"] == "Ref":
        for n in walk(fn["body"]):
            if n["k"] == "Decl":
                for v in n.get("vars", []):
                    if v["id"] == a["id"]:
                        return v.get("init")
            elif n["k"] in ("If", "While", "Switch") and isinstance(n.get("var"), dict) and n["var"].get("id") == a["id"]:
                return n["var"].get("init")  # `if (auto p = lookup)`
    return a


def _value_from(lambdas, e, sources):
    """is e (a Ref to a local) initialised from one of the source call nodes?"""
    while is_node(e) and e["k"] == "Cast":
        e = e["e"]
    if not (is_node(e) and e["k"] == "Ref"):
        return any(e is s for s in sources)
    for g in lambdas:
        for n in walk(g["body"]):
            if n["k"] == "Decl":
                for v in n.get("vars", []):
                    if v["id"] == e["id"] and is_node(v.get("init")):
                        if any(s in list(walk(v["init"])) for s in sources):
                            return True
    return False
