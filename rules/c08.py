"""C08 — wire format stays compatible with the reference release for all types/versions (DESIGN §5 C08).

Translation validation: the wire schema (ordered stream operations with member paths, widths, loops and data gates) of
every registered block class, the header and the hand-written reader/writer pairs is computed for the current tree and
for the vendored reference sources by the same extractor and the same rules, partially evaluated over every version
region, and compared."""
import os
import re
from facts import Facts, is_node, walk, where, show, AnalysisBroken
import schema
import versions
import c11

REF_ROOT = os.path.join(os.path.dirname(os.path.dirname(os.path.abspath(__file__))), "reference")


def layout(F, name):
    r = F.recs.get(name)
    if not r:
        return None
    return (r.get("size"), tuple((f.get("offset"), f.get("size"), f.get("ct")) for f in r.get("fields", [])))


def signature_groups(builder, VE, regions):
    """group regions by the truth values of all version guards met in the summaries: within a group every class has
    the same schema"""
    import versions as _v
    oldv = _v.VERSION_LOCALS
    _v.VERSION_LOCALS = builder.vlocals
    try:
        keys = [k for k, node in builder.registry.items()
                if VE.is_version_expr(node[1] if isinstance(node, tuple) else node)]
    finally:
        _v.VERSION_LOCALS = oldv
    groups = {}
    for r in regions:
        rv = schema.RegionView(builder, VE, r)
        sig = tuple(rv.guard_value(k) for k in keys)
        groups.setdefault(sig, []).append(r)
    return groups


def field_names(F, cls):
    return set(f["name"] for _, f in F.fields(cls, inherited=True))


def try_rename(cur, ref, Fc, Fr, cls):
    """positional alignment; accept iff the only differences are consistent member renames (DESIGN C08 rename
    tolerance).  -> (ok, mapping)"""
    if len(cur) != len(ref):
        return False, {}
    cur_names, ref_names = field_names(Fc, cls), field_names(Fr, cls)
    mapping = {}
    for a, b in zip(cur, ref):
        if a == b:
            continue
        if a[0] != b[0] or a[2] != b[2] or a[3] != b[3] and False:
            return False, {}
        ra, rb = a[1].split(".")[0].split("[")[0], b[1].split(".")[0].split("[")[0]
        if ra == rb:
            continue
        if rb in cur_names or ra in ref_names:
            return False, {}
        if mapping.get(rb, ra) != ra:
            return False, {}
        mapping[rb] = ra
    if not mapping:
        return False, {}
    if len(set(mapping.values())) != len(mapping):
        return False, {}

    def ren(s):
        for old, new in mapping.items():
            s = re.sub(r"(?<![\w.])%s\b" % re.escape(old), new, s)
        return s

    for a, b in zip(cur, ref):
        b2 = (b[0], ren(b[1]), ren(str(b[2])) if isinstance(b[2], str) else b[2], tuple(ren(x) for x in b[3]),
              tuple(sorted(ren(x) for x in b[4])))
        a2 = (a[0], a[1], a[2], a[3], tuple(sorted(a[4])))
        if a2 != b2:
            return False, {}
    return True, mapping


def run(F, chk):
    R1 = chk.rule("R8.1", "for every class with serialised state and every version region, the wire schema of the current tree "
                          "equals that of the reference sources in both directions (fields by member path, order, width, loops, data gates)")
    R2 = chk.rule("R8.2", "every raw-synced value type and every trivially copyable record has the same size and field offsets "
                          "as in the reference")
    R3 = chk.rule("R8.3", "the set of registered (block class, block name) pairs equals the reference; version acceptance of Load "
                          "is unchanged")

    Fr = Facts.load(REF_ROOT)
    chk.extra["reference"] = {"root": REF_ROOT, "functions": len(Fr.fns), "records": len(Fr.recs)}
    Bc, Br = schema.SchemaBuilder(F), schema.SchemaBuilder(Fr)
    VEc, VEr = versions.VersionEval(F), versions.VersionEval(Fr)

    # ---------------- classes
    reg_c, reg_r = set(c11.factory_types(F)), set(c11.factory_types(Fr))
    classes = sorted((reg_c | reg_r) | {"nifly::NiHeader", "nifly::NiUnknown"})
    chk.require(len(reg_c) >= 290 and len(reg_r) >= 290, "factory registry shrank (current %d, reference %d)" % (len(reg_c), len(reg_r)))

    # ---------------- R8.3 registry + acceptance
    def names(FF, reg):
        out = {}
        for c in reg:
            own = None
            for k in [c] + FF.ancestors(c):
                g = [x for x in FF.globals.values() if x["name"] == k + "::BlockName"]
                if g:
                    own = g[0].get("sval")
                    break
            out[c] = own
        return out

    nc, nr = names(F, reg_c), names(Fr, reg_r)
    for c in sorted(reg_c | reg_r):
        ok = c in nc and c in nr and nc[c] == nr[c]
        chk.instance(R3, ok=ok, sample={"class": c, "name": nc.get(c), "reference": nr.get(c)})
        if not ok:
            if c not in nc:
                msg = "block type %s (\"%s\") is registered in the reference but not in the current tree: files containing it load it as an unknown block" % (c, nr.get(c))
            elif c not in nr:
                msg = "block type %s is newly registered (not in the reference)" % c
            else:
                msg = "block type %s is written as \"%s\" but the reference writes \"%s\"" % (c, nc[c], nr[c])
            chk.violation("R8.3", "C08/R8.3:%s" % c, "src/Factory.cpp", msg)
    dup = {}
    for c, n in nc.items():
        dup.setdefault(n, []).append(c)
    for n, cs in dup.items():
        if len(cs) > 1:
            chk.violation("R8.3", "C08/R8.3:dup:%s" % n, "src/Factory.cpp", "block name \"%s\" is registered for several classes: %s" % (n, cs))

    # ---------------- regions
    if chk.tier == "quick":
        regs = sorted(set(VEc.named_versions().values()) | set(VEr.named_versions().values()))
    else:
        regs = sorted(set(VEc.regions(extra_facts=(Fr,))) | set(VEr.regions(extra_facts=(F,))))
    acc_diff = []
    all_points = regs
    if chk.tier != "quick":
        # acceptance compared on every cell of the cut space (not only accepted ones)
        pass
    for r in regs:
        a, b = VEc.accepted(r), VEr.accepted(r)
        chk.instance(R3, ok=(a == b), sample={"version": "%08x/%d/%d" % r, "accepted": a}, nontrivial=False)
        if a != b:
            chk.violation("R8.3", "C08/R8.3:accept:%08x/%d/%d" % r, "src/NifFile.cpp",
                          "version %08x user %d stream %d is %s by Load but %s by the reference" % (
                              r[0], r[1], r[2], "accepted" if a else "rejected", "accepted" if b else "rejected"))
    chk.extra["regions"] = len(regs)
    chk.require(len(regs) >= 10, "only %d version regions" % len(regs))

    # ---------------- R8.1 schemas
    # collect events first (fills the guard registries), then group regions by guard signature
    ev = {}
    for cls in classes:
        for d in ("read", "write"):
            ev[(cls, d, "c")] = Bc.events(cls, d) if cls in F.recs else None
            ev[(cls, d, "r")] = Br.events(cls, d) if cls in Fr.recs else None
    gc = signature_groups(Bc, VEc, regs)
    gr = signature_groups(Br, VEr, regs)
    # joint grouping: regions equal under both signatures
    joint = {}
    sig_of_c = {r: s for s, rs in gc.items() for r in rs}
    sig_of_r = {r: s for s, rs in gr.items() for r in rs}
    for r in regs:
        joint.setdefault((sig_of_c[r], sig_of_r[r]), []).append(r)
    chk.extra["distinct_version_behaviours"] = len(joint)
    programs = 0
    renames = []
    reported = set()
    for (sc, sr), rs in sorted(joint.items(), key=lambda kv: kv[1][0]):
        rep = rs[0]
        rvc, rvr = schema.RegionView(Bc, VEc, rep), schema.RegionView(Br, VEr, rep)
        for cls in classes:
            for d in ("read", "write"):
                ec, er = ev[(cls, d, "c")], ev[(cls, d, "r")]
                if ec is None or er is None:
                    continue
                pce, pre = rvc.project(ec, with_events=True), rvr.project(er, with_events=True)
                pc, pr = [e for e, _ in pce], [e for e, _ in pre]
                programs += len(rs)
                same = pc == pr
                mapping = {}
                if not same:
                    same, mapping = try_rename(pc, pr, F, Fr, cls)
                    if same:
                        renames.append({"class": cls, "renamed": mapping})
                chk.instance(R1, ok=same, sample={"class": cls, "direction": d, "version": "%08x/%d/%d" % rep, "ops": len(pc)},
                             nontrivial=len(pc) > 1)
                if not same:
                    i = 0
                    while i < min(len(pc), len(pr)) and pc[i] == pr[i]:
                        i += 1
                    cur_e = schema.fmt(pc[i]) if i < len(pc) else "<end of block>"
                    ref_e = schema.fmt(pr[i]) if i < len(pr) else "<end of block>"
                    # attribute the difference to the function that performs the differing transfer (one report per site,
                    # not one per class that inherits it)
                    # is the first difference a field missing from the current tree (present in the reference only)?
                    import difflib
                    ops = [o for o in difflib.SequenceMatcher(a=pr, b=pc, autojunk=False).get_opcodes() if o[0] != "equal"]
                    missing = bool(ops) and ops[0][0] == "delete"
                    if missing:
                        xe, FF = pre[ops[0][1]][1], Fr
                    else:
                        xe = pce[i][1] if i < len(pce) else (pre[i][1] if i < len(pre) else None)
                        FF = F if i < len(pce) else Fr
                    inner = None
                    if xe is not None and xe.chain:
                        inner = FF.fns.get(xe.chain[-1][0])
                        if inner is not None and inner.get("cls") in schema.STREAMS and len(xe.chain) > 1:
                            inner = FF.fns.get(xe.chain[-2][0])
                        # the frame just above the stream primitive / ref-type helper that belongs to a block class
                        for fid, loc in reversed(xe.chain):
                            f = FF.fns.get(fid)
                            if f and f.get("cls") and not f["cls"].startswith(("nifly::NiStream", "nifly::NiIStream", "nifly::NiOStream")):
                                inner = f
                                site_loc = loc
                                break
                    if not missing and i < len(pc) and i < len(pr) and pc[i][:3] == pr[i][:3] and pc[i][3] != pr[i][3] and xe is not None:
                        # only the enclosing loops differ: attribute to the function that contains the differing loop
                        dl = [a_ for a_, b_ in zip(pc[i][3], pr[i][3]) if a_ != b_] or list(pc[i][3][len(pr[i][3]):]) or [None]
                        if dl[0] and dl[0].startswith("each "):
                            cont = dl[0][5:].split(" sized ")[0]
                            for fid, loc in xe.chain:
                                f = F.fns.get(fid)
                                hit = [x for x in walk((f or {}).get("body") or {}) if x["k"] == "RangeFor" and show(x["range"]) == cont]
                                if hit:
                                    import flow as _flow
                                    rsz = _flow.range_sizes(f.get("body"))
                                    exact = [x for x in hit if "each %s%s" % (cont, (" sized " + rsz[id(x)]) if id(x) in rsz else "") == dl[0]]
                                    hit = exact or hit
                                    inner, site_loc = f, hit[0].get("loc") or loc
                                    break
                    where_name = c08_strip(inner["name"]) if inner else cls
                    fld = (pc[i][1] if i < len(pc) else pr[i][1]) if (i < len(pc) or i < len(pr)) else "?"
                    if missing:
                        fld = pr[ops[0][1]][1]
                        cur_e = "<nothing: the field is no longer transferred>"
                        ref_e = schema.fmt(pr[ops[0][1]])
                    key = "C08/R8.1:%s:%s:%s" % (where_name, d, fld)
                    if key in reported:
                        continue
                    reported.add(key)
                    site = "%s:%s" % (inner["file"], (site_loc or "").split(":")[0]) if inner else "?"
                    chk.violation("R8.1", key, site,
                                  "%s %s schema differs from the reference in version %08x/%d/%d (and %d more regions) at operation #%d: "
                                  "current `%s` vs reference `%s`" % (cls, d, rep[0], rep[1], rep[2], len(rs) - 1, i, cur_e, ref_e),
                                  {"current": [schema.fmt(x) for x in pc[max(0, i - 2):i + 3]],
                                   "reference": [schema.fmt(x) for x in pr[max(0, i - 2):i + 3]],
                                   "regions": ["%08x/%d/%d" % r for r in rs[:12]]})
    chk.extra["programs"] = programs
    chk.extra["renames_tolerated"] = renames[:20]
    chk.extra["disagreements_checked"] = len(reported) + len(renames)
    chk.floor(R1, 600, "(class x direction x distinct version behaviour)")

    # ---------------- R8.2 layouts
    n = 0
    for name in sorted(set(F.recs) | set(Fr.recs)):
        rc, rr = F.recs.get(name), Fr.recs.get(name)
        if (rc or rr).get("tmpl") is not None:
            continue
        if not name.startswith("nifly::"):
            continue
        triv = (rc or {}).get("trivial") or (rr or {}).get("trivial")
        if not triv:
            continue
        if rc is None or rr is None:
            continue
        lc, lr = layout(F, name), layout(Fr, name)
        ok = lc == lr
        n += 1
        chk.instance(R2, ok=ok, sample={"record": name, "size": lc[0] if lc else None})
        if not ok:
            chk.violation("R8.2", "C08/R8.2:%s" % name, "%s:%s" % (rc["file"], rc["loc"].split(":")[0]),
                          "value type %s is transferred as raw bytes but its layout changed: size %s -> %s, fields %s -> %s" % (
                              name, lr[0], lc[0], [(o, s) for o, s, t in lr[1]], [(o, s) for o, s, t in lc[1]]))
    # sizes of enum / scalar template arguments of the primitives
    for fid, fn in F.fns.items():
        if fn.get("cls") in schema.STREAMS and fn.get("targs") and fid in Fr.fns:
            a, b = fn["targs"][0].get("size"), Fr.fns[fid]["targs"][0].get("size")
            ok = a == b
            chk.instance(R2, ok=ok, sample={"primitive": fn["name"], "width": a}, nontrivial=False)
            if not ok:
                chk.violation("R8.2", "C08/R8.2:%s" % fn["name"], where(fn), "primitive %s transfers %s bytes, reference %s" % (fn["name"], a, b))
    for en in sorted(set(F.enums) & set(Fr.enums)):
        a, b = F.enums[en], Fr.enums[en]
        ok = a.get("size") == b.get("size")
        va = {e["name"]: e["val"] for e in a["enumerators"]}
        vb = {e["name"]: e["val"] for e in b["enumerators"]}
        changed = [k for k in va if k in vb and va[k] != vb[k]]
        ok = ok and not changed
        chk.instance(R2, ok=ok, sample={"enum": en, "size": a.get("size")}, nontrivial=False)
        if not ok:
            chk.violation("R8.2", "C08/R8.2:enum:%s" % en, "%s:%s" % (a["file"], a["loc"].split(":")[0]),
                          "enum %s changed its underlying size or the value of %s: the value is written to / compared with file data" % (en, changed[:4]))
    chk.floor(R2, 40)

    chk.assumptions += [
        "the reference is the vendored snapshot of the pinned sources (/verif/reference), extracted by the same tool on every run",
        "data gates are compared after canonicalisation (comparison orientation, commutative operands, proxy locals replaced by "
        "the member they stand for); an algebraically equal but differently shaped data gate would be reported",
        "semantics of the primitive layer (SyncHalf rounding, endianness) are compared only through R8.2",
    ]
    chk.extra["explanation"] = "translation validation of the wire schema: programs = class x version region x direction"


def c08_strip(name):
    out, depth = "", 0
    for ch in name:
        if ch == "<":
            depth += 1
        elif ch == ">":
            depth -= 1
        elif depth == 0:
            out += ch
    return out


def _owner_of(F, cls, path):
    root = path.split(".")[0].split("[")[0]
    owner, _ = F.find_field(cls, root)
    return owner or cls


def _site(F, events, projected, i):
    # locate the source position of the i-th live entry: re-walk events in order
    return None
