"""C07 — saved header tables describe the written file exactly (DESIGN §5 C07)."""
from facts import is_node, walk, where, show
import flow
import report
import pairing

OST = "nifly::NiOStream"
NIF = "nifly::NifFile"
HDR = "nifly::NiHeader"
OSTREAM_READS = {"tellp", "good", "fail", "bad", "eof", "operator bool", "operator!", "rdstate", "seekp", "flush", "precision",
                 "width", "fill", "flags", "setf", "unsetf", "imbue", "getloc", "rdbuf", "clear", "exceptions", "tie"}


def terms(e):
    """flatten a sum into (symbolic terms sorted, constant)"""
    syms, const = [], 0
    work = [e]
    while work:
        x = work.pop()
        while is_node(x) and x["k"] == "Cast":
            x = x["e"]
        if is_node(x) and x["k"] == "Binary" and x["op"] == "+":
            work += [x["l"], x["r"]]
        elif is_node(x) and x.get("val") is not None and x["k"] in ("Lit", "Sizeof", "Ref", "Cast", "Binary", "Unary"):
            const += int(x["val"])
        else:
            syms.append(show(x))
    return sorted(syms), const


def is_ostream_type(t):
    t = (t or "").replace("const ", "")
    return ("basic_ostream<char" in t or "std::ostream" in t or "basic_ofstream<char" in t or "std::ofstream" in t) \
        and "stringstream" not in t


def run(F, chk):
    R1 = chk.rule("R7.1", "in every NiOStream method the bytes handed to std::ostream::write equal the increment applied to blockSize")
    R2 = chk.rule("R7.2", "no function other than NiOStream members writes to a std::ostream; NifFile::Save only seeks / reads state")
    R3 = chk.rule("R7.3", "save protocol: FinalizeData before the header; byte counter reset after the header and after every block; "
                          "each block's Put is followed by capturing GetBlockSize into the slot of the same index; footer after "
                          "the loop; the size table is back-patched with exactly GetNumBlocks() 4-byte sizes at the recorded position")
    R5 = chk.rule("R7.5", "string table: every length change of `strings` is paired with numStrings; an existing string is found "
                          "before appending; UpdateHeaderStrings refreshes the maximum length on every completing path")

    # ------------------------------------------------------------------ R7.1
    counted_methods = set()
    omethods = [f for f in F.fns.values() if f.get("cls") == OST and f.get("tmpl") != "pattern" and not f.get("ctor")]
    for fn in sorted(omethods, key=lambda f: f["id"]):
        written_s, written_c, counted_s, counted_c = [], 0, [], 0
        unaccountable = []
        touches = False
        for n in walk(fn.get("body") or {}):
            if n["k"] == "Call" and n.get("ext") and is_node(n.get("recv")) and \
                    is_ostream_type(n["recv"].get("ct") or n["recv"].get("t")):
                sh = n.get("short")
                if sh == "write" and len(n.get("args", [])) == 2:
                    s, c = terms(n["args"][1])
                    written_s += s
                    written_c += c
                    touches = True
                elif sh == "put":
                    written_c += 1
                    touches = True
                elif sh not in OSTREAM_READS:
                    unaccountable.append(n)
                    touches = True
            elif n["k"] == "OpCall" and n.get("op") == "<<" and n.get("args") and \
                    is_ostream_type(n["args"][0].get("ct") or n["args"][0].get("t")):
                unaccountable.append(n)
                touches = True
            elif n["k"] == "Assign" and n["op"] in ("+=",) and is_node(n["l"]) and n["l"]["k"] == "Member" and \
                    n["l"]["name"] == "blockSize":
                s, c = terms(n["r"])
                counted_s += s
                counted_c += c
                touches = True
            elif n["k"] == "Assign" and n["op"] not in ("+=",) and is_node(n["l"]) and n["l"]["k"] == "Member" and \
                    n["l"]["name"] == "blockSize" and fn["short"] != "InitBlockSize":
                unaccountable.append(n)
                touches = True
        if not touches:
            continue
        ok = sorted(written_s) == sorted(counted_s) and written_c == counted_c and not unaccountable
        chk.instance(R1, ok=ok, sample={"method": fn["name"], "written": written_s + [written_c], "counted": counted_s + [counted_c]})
        if ok:
            counted_methods.add(fn["id"])
        else:
            chk.violation("R7.1", "C07/R7.1:%s" % fn["name"].split("<")[0], where(fn),
                          "%s hands %s byte(s) to the stream but adds %s to blockSize%s: the size table entry of a block "
                          "written through it is wrong" % (fn["name"], " + ".join(written_s + [str(written_c)]),
                                                           " + ".join(counted_s + [str(counted_c)]),
                                                           "; unaccountable: " + ", ".join(show(u)[:50] for u in unaccountable) if unaccountable else ""))
    chk.floor(R1, 3)

    # ------------------------------------------------------------------ R7.2
    n_sites = 0
    save_fns = [f["id"] for f in F.fn_named("nifly::NifFile::Save")]
    save_reach = F.reachable(save_fns)
    for fn in sorted(F.fns.values(), key=lambda f: f["id"]):
        if fn.get("tmpl") == "pattern" or fn.get("cls") == OST:
            continue
        if fn["id"] not in save_reach:
            continue  # other exporters (e.g. BSClothExtraData::ToHKX) write their own files, not the NIF being saved
        for n in walk(fn.get("body") or {}):
            tgt = None
            sh = None
            if n["k"] == "Call" and n.get("ext") and is_node(n.get("recv")) and \
                    is_ostream_type(n["recv"].get("ct") or n["recv"].get("t")):
                tgt, sh = n["recv"], n.get("short")
            elif n["k"] == "OpCall" and n.get("op") == "<<" and n.get("args") and \
                    is_ostream_type(n["args"][0].get("ct") or n["args"][0].get("t")):
                tgt, sh = n["args"][0], "operator<<"
            if tgt is None:
                continue
            n_sites += 1
            ok = sh in OSTREAM_READS
            chk.instance(R2, ok=ok, sample={"fn": fn["name"], "op": sh})
            if not ok:
                chk.violation("R7.2", "C07/R7.2:%s:%s" % (fn["name"], sh), where(fn, n),
                              "%s writes to a std::ostream directly (%s): bytes that bypass NiOStream are not counted in any block size" % (fn["name"], sh))
    chk.extra["ostream_operations_outside_NiOStream"] = n_sites
    chk.floor(R2, 1)

    # ------------------------------------------------------------------ R7.3
    save = [f for f in F.fn_named("nifly::NifFile::Save") if "ostream" in f["id"]]
    chk.require(len(save) == 1, "NifFile::Save(std::ostream&) not found")
    save = F.inl(save[0])  # private helpers of Save (PutBlocks, PutBlockSizes, ...) are read as part of it
    problems = []
    seen = {"hdrput": 0, "blockput": 0, "capture": 0, "init": 0, "footer": 0, "seekp": 0, "patch": 0}

    def is_stream_write(n):
        return n["k"] == "OpCall" and n.get("op") == "<<" and n.get("cls") == OST

    class Proto(flow.Flow):
        def on_node(self, n, st):
            if st is None:
                return st
            k = n["k"]
            if k == "Call" and n.get("fn") == "nifly::NifFile::FinalizeData":
                return st | {("D", "finalize")}
            if k == "Call" and n.get("short") == "InitBlockSize" and n.get("cls") == OST:
                if not self.muted:
                    seen["init"] += 1
                st = frozenset(f for f in st if not (f[0] == "D" and (f[1].startswith("dirty:") or f[1] == "captured")))
                return st | {("D", "fresh")}
            if k == "Call" and n.get("short") == "Put" and n.get("virt") and n.get("cls") == "nifly::NiObject":
                idx = _subscript_index(n.get("recv"))
                if not self.muted:
                    seen["blockput"] += 1
                    if ("D", "fresh") not in st:
                        problems.append((n, "block Put without a fresh byte counter (InitBlockSize must follow the header and every block)"))
                    if ("D", "hdrput") not in st:
                        problems.append((n, "block written before the header"))
                st = frozenset(f for f in st if f != ("D", "fresh"))
                return st | {("D", "dirty:%s" % idx)}
            if k == "Call" and n.get("fn") == "nifly::NiHeader::Put":
                if not self.muted:
                    seen["hdrput"] += 1
                    if ("D", "finalize") not in st:
                        problems.append((n, "hdr.Put is not dominated by FinalizeData (derived header data would be stale)"))
                st = frozenset(f for f in st if f != ("D", "fresh"))
                return st | {("D", "hdrput"), ("D", "dirty:hdr")}
            if k in ("Assign",) or (k == "OpCall" and n.get("op") == "="):
                tgt = n["l"] if k == "Assign" else n["args"][0]
                src = n["r"] if k == "Assign" else n["args"][1]
                if is_node(src) and any(x["k"] == "Call" and x.get("short") == "GetBlockSize" and x.get("cls") == OST for x in walk(src)):
                    idx = _subscript_index(tgt)
                    if not self.muted:
                        seen["capture"] += 1
                        if ("D", "dirty:%s" % idx) not in st:
                            problems.append((n, "size captured into slot [%s] does not follow the Put of block [%s]" % (idx, idx)))
                    return st | {("D", "captured"), ("D", "sizes:" + show(_subscript_base(tgt)))}
            if is_stream_write(n) and not self.muted:
                if any(f[0] == "D" and f[1] == "seekp" for f in st):
                    seen["patch"] += 1
                elif ("D", "hdrput") in st and not any(f[0] == "D" and f[1].startswith("inloop") for f in st):
                    seen["footer"] += 1
            if k == "Call" and n.get("short") == "seekp":
                if not self.muted:
                    seen["seekp"] += 1
                    a = n.get("args", [None])[0]
                    if not (is_node(a) and "blockSizePos" in show(a) or "GetBlockSizeStreamPos" in show(a)):
                        problems.append((n, "seekp target is not the recorded block-size position"))
                return st | {("D", "seekp")}
            return st

    Proto(F, save).run()
    # structural details that need the loop shapes
    loops = [n for n in walk(save["body"]) if n["k"] in ("For", "RangeFor")]
    put_loop = [l for l in loops if any(x["k"] == "Call" and x.get("short") == "Put" and x.get("virt") for x in walk(l["body"]))]
    patch_loop = [l for l in loops if l not in put_loop and any(is_stream_write(x) for x in walk(l["body"]))]
    # the back-patch is what follows the seek; a loop that writes the footer words from a small table comes before it
    order_ = {id(x): i_ for i_, x in enumerate(walk(save["body"]))}
    seeks_ = [order_[id(x)] for x in walk(save["body"]) if x["k"] == "Call" and x.get("short") == "seekp"]
    if seeks_ and len(patch_loop) > 1:
        patch_loop = [l for l in patch_loop if order_[id(l)] > min(seeks_)]
    # locals that are defined once stand for their initialiser (a hoisted `numBlocks`, a helper's parameter bound to the
    # caller's vector, the vector a helper returned)
    assigned_ = {x["l"]["id"] for x in walk(save["body"]) if x["k"] == "Assign" and is_node(x["l"]) and x["l"]["k"] == "Ref"}
    def_of = {}
    for d_ in walk(save["body"]):
        if d_["k"] == "Decl":
            for v_ in d_.get("vars", []):
                if is_node(v_.get("init")) and v_["id"] not in assigned_:
                    def_of[v_["id"]] = v_["init"]

    def resolve(e, depth=0):
        while is_node(e) and e["k"] in ("Cast", "Construct") and (e.get("e") is not None or (len(e.get("args", [])) == 1 and e.get("copy"))):
            e = e["e"] if e.get("e") is not None else e["args"][0]
        if depth < 6 and is_node(e) and e["k"] == "Ref" and e.get("id") in def_of:
            return resolve(def_of[e["id"]], depth + 1)
        return e

    captured_vec = None
    for n_ in walk(save["body"]):
        if n_["k"] == "Assign" and any(x["k"] == "Call" and x.get("short") == "GetBlockSize" for x in walk(n_["r"])):
            captured_vec = _subscript_base(n_["l"])

    def bound_is_numblocks(l):
        if l["k"] == "RangeFor":
            # a range loop over the vector the sizes were captured into (one entry per block by construction)
            r_ = resolve(l["range"])
            return is_node(captured_vec) and is_node(r_) and show(r_) == show(resolve(captured_vec))
        c = l.get("cond")
        return is_node(c) and c["k"] == "Binary" and c["op"] == "<" and "GetNumBlocks" in show(resolve(c["r"]))

    checks = [
        ("header written once", seen["hdrput"] == 1),
        ("byte counter reset after the header and after each block (>=2 InitBlockSize sites)", seen["init"] >= 2),
        ("one block-Put loop bounded by GetNumBlocks()", len(put_loop) == 1 and bound_is_numblocks(put_loop[0])),
        ("size captured after Put", seen["capture"] >= 1),
        ("footer: written through NiOStream after the block loop and before the back-patch", _footer_ok(save, put_loop)),
        ("back-patch seeks to the recorded position", seen["seekp"] == 1),
        ("back-patch loop writes GetNumBlocks() 4-byte sizes from the captured vector", len(patch_loop) == 1 and
         bound_is_numblocks(patch_loop[0]) and _patch_ok(patch_loop[0], save)),
    ]
    for what, ok in checks:
        chk.instance(R3, ok=ok, sample={"save_protocol": what})
        if not ok:
            chk.violation("R7.3", "C07/R7.3:Save:%s" % what.split(":")[0].split("(")[0].strip(), where(save),
                          "NifFile::Save protocol broken: " + what)
    for n, msg in problems:
        chk.instance(R3, ok=False, sample={"save_protocol": msg})
        chk.violation("R7.3", "C07/R7.3:Save:%s" % msg.split("(")[0].strip()[:60], where(save, n), "NifFile::Save: " + msg)
    # the back-patch sits on every path to `return 0` when a position was recorded: it is not inside a data condition
    # other than the position test
    # NiHeader::Put records the position immediately before the size loop
    put = F.inl(F.fn1("nifly::NiHeader::Put"))
    ok_pos = False
    for comp in walk(put["body"]):
        if comp["k"] != "Compound":
            continue
        b = comp["body"]
        for i, s in enumerate(b):
            tgt, src = None, None
            if s["k"] == "Assign":
                tgt, src = s["l"], s["r"]
            elif s["k"] == "OpCall" and s.get("op") == "=" and len(s.get("args", [])) == 2:
                tgt, src = s["args"]
            if tgt is not None and show(tgt) == "blockSizePos" and "tellp" in show(src):
                nxt = b[i + 1] if i + 1 < len(b) else None
                if is_node(nxt) and nxt["k"] == "For" and any(is_stream_write(x) and "blockSizes" in show(x) for x in walk(nxt["body"])) \
                        and "numBlocks" in show(nxt.get("cond")):
                    ok_pos = True
    chk.instance(R3, ok=ok_pos, sample={"hdr_put": "blockSizePos = tellp() immediately before the numBlocks size loop"})
    if not ok_pos:
        chk.violation("R7.3", "C07/R7.3:NiHeader::Put:blockSizePos", where(put),
                      "NiHeader::Put must record tellp() immediately before it writes the numBlocks block sizes")
    chk.floor(R3, 7)

    # ------------------------------------------------------------------ R7.5
    n5 = 0
    for fn in sorted(F.fns.values(), key=lambda f: f["id"]):
        if fn.get("cls") != HDR or fn.get("tmpl") == "pattern":
            continue
        lo = [o for o in pairing.length_ops(fn, HDR, {"strings"})]
        co = [o for o in pairing.counter_ops(fn, HDR, {"numStrings"})]
        if not lo and not co:
            continue
        sig = pairing.guard_sig(F, fn, [o[0] for o in lo + co], ("strings", "numStrings"))
        used = set()
        for n, m, kind, arg in lo:
            match = None
            for j, (cn, cm, ckind, carg) in enumerate(co):
                if j in used:
                    continue
                if (kind == ckind or (kind == "=N" and ckind in ("=read", "=copy")) or (kind == "=copy" and ckind == "=copy")) \
                        and sig.get(id(n)) == sig.get(id(cn)):
                    match = j
                    break
            if kind == "=N" and arg == "numStrings":
                match = match if match is not None else -1
            ok = match is not None
            if match is not None and match >= 0:
                used.add(match)
            n5 += 1
            chk.instance(R5, ok=ok, sample={"fn": fn["name"], "strings": kind, "paired": ok})
            if not ok:
                chk.violation("R7.5", "C07/R7.5:%s:strings%s" % (fn["name"], kind), where(fn, n),
                              "%s changes the length of `strings` (%s) without the matching change of numStrings under the same "
                              "condition: the header's string count no longer describes the table" % (fn["name"], kind))
        for j, (cn, cm, ckind, carg) in enumerate(co):
            if j in used or ckind == "=read":
                continue
            n5 += 1
            chk.instance(R5, ok=False, sample={"fn": fn["name"], "numStrings": ckind})
            chk.violation("R7.5", "C07/R7.5:%s:numStrings%s" % (fn["name"], ckind), where(fn, cn),
                          "%s changes numStrings (%s) without the matching change of `strings`" % (fn["name"], ckind))
    # UpdateMaxStringLength on every completing path of UpdateHeaderStrings that may have changed the table
    uhs = F.fn1("nifly::NiHeader::UpdateHeaderStrings")

    class M(flow.Flow):
        def on_node(self, n, st):
            if st is None:
                return st
            if n["k"] == "Call" and n.get("fn") == "nifly::NiHeader::UpdateMaxStringLength":
                return frozenset(f for f in st if f != ("O", "maxlen")) | {("D", "maxlen")}
            if n["k"] == "Call" and n.get("fn") in ("nifly::NiHeader::AddOrFindStringId",):
                return frozenset(f for f in st if f != ("D", "maxlen")) | {("O", "maxlen")}
            return st

    m = M(F, uhs)
    m.run()
    ok = bool(m.exits) and all(("O", "maxlen") not in st for _, _, st in m.exits)
    chk.instance(R5, ok=ok, sample={"fn": "UpdateHeaderStrings", "refreshes_max_length_after_adding": ok})
    if not ok:
        chk.violation("R7.5", "C07/R7.5:UpdateHeaderStrings:maxlen", where(uhs),
                      "UpdateHeaderStrings can complete after adding strings without refreshing the maximum string length")
    # UpdateMaxStringLength covers every string: a range-for over `strings` taking the max
    uml = F.fn1("nifly::NiHeader::UpdateMaxStringLength")
    ok = any(n["k"] == "RangeFor" and show(n["range"]) == "strings" for n in walk(uml["body"])) and \
        any(n["k"] == "Assign" and show(n["l"]) == "maxStringLen" for n in walk(uml["body"]))
    chk.instance(R5, ok=ok, sample={"fn": "UpdateMaxStringLength", "scans_all_strings": ok})
    if not ok:
        chk.violation("R7.5", "C07/R7.5:UpdateMaxStringLength", where(uml), "UpdateMaxStringLength no longer scans every string")
    # Save path reaches UpdateHeaderStrings before the header is written (via FinalizeData)
    fin = F.fn1("nifly::NifFile::FinalizeData")
    ok = uhs["id"] in F.reachable([fin["id"]])
    chk.instance(R5, ok=ok, sample={"FinalizeData_reaches": "UpdateHeaderStrings"})
    if not ok:
        chk.violation("R7.5", "C07/R7.5:FinalizeData", where(fin), "FinalizeData no longer rebuilds the header strings before a save")
    chk.floor(R5, 5)

    # ------------------------------------------------------------------ R7.6 type table describes the blocks
    import c06
    R6 = chk.rule("R7.6", "the type table keeps describing the blocks: a type name is dropped only after the users of the type were "
                          "counted on the unchanged table, and stored blocks are registered under their own GetBlockName()")
    for fn, bad in c06.type_refcount_order(F):
        chk.instance(R6, ok=not bad, sample={"fn": fn["name"], "counts_before_changing_table": not bad})
        for n in bad[:1]:
            chk.violation("R7.6", "C07/R7.6:%s" % fn["name"], where(fn, n),
                          "%s changes blockTypeIndices %s: the saved type table names a type for a block that is of another type" % (
                              fn["name"], "between counting the users of the old type and dropping its name" if n.get("short") == "erase"
                              else "before counting the remaining users of the old type"))
    chk.floor(R6, 2)

    # ------------------------------------------------------------------ R7.7 length prefixes cannot wrap
    import intervals
    R7 = chk.rule("R7.7", "a length or count prefix that a writer computes in a fixed-width unsigned local and adjusts arithmetically "
                          "before streaming it cannot wrap (interval analysis of the local: the adjustment is dominated by a test that "
                          "keeps it inside the type's range); otherwise the prefix no longer describes the bytes that follow it")
    STREAMS = ("nifly::NiStreamReversible", "nifly::NiIStream", "nifly::NiOStream")
    analysed = 0
    for fn in sorted(F.fns.values(), key=lambda f: f["id"]):
        if fn.get("tmpl") == "pattern" or not fn.get("body"):
            continue
        if not any(any(s_ in (p_.get("ct") or p_.get("t") or "") for s_ in ("NiOStream", "NiStreamReversible")) for p_ in fn.get("params", [])):
            continue
        decl = {}
        for x in walk(fn["body"]):
            if x["k"] == "Decl":
                for v in x.get("vars", []):
                    b = intervals.type_bits(v.get("t")) or intervals.type_bits(v.get("ct"))
                    if b:
                        decl[v["id"]] = (b, v)
        if not decl:
            continue
        def uses(x, decl=decl):
            out = []
            if x["k"] in ("Call", "OpCall") and x.get("cls") in STREAMS:
                for a in x.get("args", []):
                    while is_node(a) and (a["k"] == "Cast" or (a["k"] == "Unary" and a["op"] == "&")):
                        a = a["e"]
                    if is_node(a) and a["k"] == "Ref" and a.get("id") in decl:
                        out.append(a["id"])
            return out

        streamed = set()
        for x in walk(fn["body"]):
            streamed |= set(uses(x))
        if not streamed:
            continue
        tracked = {vid: decl[vid][0] for vid in decl}  # every fixed-width unsigned local carries bounds; wraps are reported for the streamed ones
        analysed += 1
        A = intervals.Intervals(fn, tracked, use=uses, report=streamed)
        wraps = A.run()
        reached = {}
        for un, vid, wi in A.tainted_uses:
            reached.setdefault(id(wraps[wi][0]), un)
        for x in walk(fn["body"]):
            t_ = x["l"] if x["k"] == "Assign" and x["op"] in ("+=", "-=") else (x["e"] if x["k"] == "Unary" and x["op"] in ("++", "--") else None)
            if not (is_node(t_) and t_["k"] == "Ref" and t_.get("id") in streamed):
                continue
            vid = t_["id"]
            w = [w_ for w_ in wraps if w_[0] is x]
            un = reached.get(id(x))
            bad = bool(w) and un is not None
            v = decl[vid][1]
            chk.instance(R7, ok=not bad, sample={"fn": fn["name"], "local": v["name"], "type": v.get("t"), "update": show(x),
                                                 "can_wrap": bool(w), "wrapped_value_streamed": bad})
            if bad:
                chk.violation("R7.7", "C07/R7.7:%s:%s:%s" % (fn["name"], v["name"], v.get("t")), where(fn, x),
                              "%s streams the %s local `%s` as a length/count (%s), but `%s` can take it from %s to %s, outside "
                              "the type's range: the prefix wraps and no longer describes the bytes written after it, so a reader "
                              "loses its place in the file" % (fn["name"], v.get("t"), v["name"], where(fn, un), show(x),
                                                               list(w[0][2]), list(w[0][3])))
    chk.extra["R7.7_functions_analysed"] = analysed
    chk.floor(R7, 3)

    # ------------------------------------------------------------------ R7.8
    chk.share(F, "c06", ["R6.1"], "R7.8",
              "the header tables written by Put stay parallel to the block list through every header function that changes their "
              "length (a table left behind by Clear / AddBlock / DeleteBlock is written against a rebuilt type table)")
    chk.floor("R7.8", 15)

    # ------------------------------------------------------------------ R7.10
    chk.share(F, "c05", ["R5.1"], "R7.10",
              "the header string table is rebuilt on every save from what GetStringRefs reports: a string reference that a block "
              "serialises but reports only under an extra condition (or not at all) is written with a stale index that the rebuilt "
              "table does not cover")
    chk.floor("R7.10", 600)

    # ------------------------------------------------------------------ R7.11
    chk.share(F, "c04", ["R4.3"], "R7.11",
              "a reorder (every sorted save) moves the per-block header tables with the blocks, in every version that carries them: "
              "a type index table left behind labels the written blocks with each other's types")
    chk.floor("R7.11", 6)

    # ------------------------------------------------------------------ R7.9
    R9 = chk.rule("R7.9", "the place of the size table recorded while a header is written (NiHeader::blockSizePos, set by Put only for "
                          "the versions that have the table) never survives the save that recorded it: every NifFile function that "
                          "writes the header returns with the position reset or known to be unset — a later save of a version "
                          "without the table would patch block sizes over its type table at the stale offset")
    posw = [g for g in F.fns.values() if g.get("cls") == "nifly::NiHeader" and g.get("body") and any(
        x["k"] in ("Assign", "OpCall") and (x.get("op") == "=") and is_node((x.get("l") if x["k"] == "Assign" else (x.get("args") or [None])[0])) and
        (x.get("l") if x["k"] == "Assign" else x["args"][0]).get("k") == "Member" and
        (x.get("l") if x["k"] == "Assign" else x["args"][0]).get("name") == "blockSizePos" for x in walk(g["body"]))]
    resetters, setters = set(), set()
    for g in posw:
        for x in walk(g["body"]):
            tgt = x.get("l") if x["k"] == "Assign" else ((x.get("args") or [None])[0] if x["k"] == "OpCall" and x.get("op") == "=" else None)
            if is_node(tgt) and tgt.get("k") == "Member" and tgt.get("name") == "blockSizePos":
                src = x.get("r") if x["k"] == "Assign" else x["args"][1]
                while is_node(src) and src["k"] in ("Cast",):
                    src = src["e"]
                if is_node(src) and src["k"] == "Construct" and not src.get("args"):
                    resetters.add(g["id"])
                else:
                    setters.add(g["id"])
    resetters -= setters
    if not setters or not resetters:
        raise report.Broken("R7.9: no function records / resets NiHeader::blockSizePos (setters %s, resetters %s)" % (sorted(setters), sorted(resetters)))

    def _pos_expr(fn):
        ids = set()
        for d in walk(fn["body"]):
            if d["k"] == "Decl":
                for v in d.get("vars", []):
                    i = v.get("init")
                    while is_node(i) and i["k"] in ("Cast", "Construct") and (i.get("e") is not None or len(i.get("args", [])) == 1):
                        i = i["e"] if i.get("e") is not None else i["args"][0]
                    if is_node(i) and i["k"] == "Call" and i.get("short") == "GetBlockSizeStreamPos":
                        ids.add(v["id"])
        return ids

    n9 = 0
    for fn in sorted(F.fns.values(), key=lambda f: f["id"]):
        if fn.get("cls") != "nifly::NifFile" or not fn.get("body") or fn.get("tmpl") == "pattern":
            continue
        def _sets_pos(n_):
            if n_["k"] != "Call":
                return False
            if n_.get("cls") != "nifly::NiHeader":
                return False  # (a virtual `block->Put(stream)` also lists NiHeader::Put among its possible targets)
            ts_ = [t for t in (F.call_targets(n_) or []) if t in F.fns and F.fns[t].get("cls") == "nifly::NiHeader"]
            return any(t in setters or (F.reachable([t]) & setters) for t in ts_)

        if not any(_sets_pos(n) for n in walk(fn["body"])):
            continue
        fn = F.inl(fn)  # the back-patch (test + reset) may live in a private helper
        pos_ids = _pos_expr(fn)

        def is_pos(e):
            while is_node(e) and e["k"] == "Cast":
                e = e["e"]
            return is_node(e) and ((e["k"] == "Ref" and e.get("id") in pos_ids) or (e["k"] == "Call" and e.get("short") == "GetBlockSizeStreamPos"))

        def is_unset(e):
            while is_node(e) and e["k"] == "Cast":
                e = e["e"]
            return is_node(e) and e["k"] == "Construct" and not e.get("args")

        class PosState(flow.Flow):
            def on_node(self, n, st):
                if st is None or n["k"] != "Call":
                    return st
                if n.get("fid") in setters or _sets_pos(n):
                    return st | {("O", "blockSizePos recorded")}
                if n.get("fid") in resetters:
                    return frozenset(f for f in st if f != ("O", "blockSizePos recorded"))
                return st

            def cond(self, e, st):
                t, f = flow.Flow.cond(self, e, st)
                op, a, b = None, None, None
                if is_node(e) and e["k"] == "Binary" and e["op"] in ("==", "!="):
                    op, a, b = e["op"], e["l"], e["r"]
                elif is_node(e) and e["k"] == "OpCall" and e.get("op") in ("==", "!=") and len(e.get("args", [])) == 2:
                    op, (a, b) = e["op"], e["args"]
                if op and ((is_pos(a) and is_unset(b)) or (is_pos(b) and is_unset(a))):
                    clear = lambda s_: s_ if s_ is flow.BOT or s_ is None else frozenset(x for x in s_ if x != ("O", "blockSizePos recorded"))
                    if op == "==":
                        t = clear(t)
                    else:
                        f = clear(f)
                return t, f

        ps = PosState(F, fn)
        ps.run()
        bad = [(k_, n_) for k_, n_, st in ps.exits if st is not None and st is not flow.BOT and ("O", "blockSizePos recorded") in st]
        n9 += 1
        chk.instance(R9, ok=not bad, sample={"fn": fn["name"], "exits": len(ps.exits), "position_tests": len(pos_ids)})
        if bad:
            chk.violation("R7.9", "C07/R7.9:%s" % fn["name"], where(fn, bad[0][1]),
                          "%s writes the header (which records where the size table is) and can return without "
                          "ResetBlockSizeStreamPos or a test that the position is unset: the next save of a version without a "
                          "size table patches block sizes at the stale offset, over its type table" % fn["name"])
    chk.floor(R9, 1)

    chk.assumptions += ["sizes are re-measured on every save and never taken from the model, so R7.1 + R7.3 decide the size table "
                        "clause up to uint32 overflow", "header Get/Put layout agreement is decided under C01 (R1.3)"]
    chk.extra["explanation"] = ("byte-accounting pairing in NiOStream, single-writer census, save-protocol typestate and string-"
                                "table pairing; numeric overflow of 32-bit sizes is not decided")


def _subscript_index(e):
    while is_node(e):
        if e["k"] == "Subscript":
            return show(e["idx"])
        if e["k"] in ("OpCall",) and e.get("args"):
            e = e["args"][0]
        elif e["k"] in ("Unary", "Cast"):
            e = e["e"]
        elif e["k"] == "Call" and e.get("recv") is not None:
            e = e["recv"]
        elif e["k"] == "Member":
            e = e.get("base")
        else:
            return "?"
    return "?"


def _subscript_base(e):
    while is_node(e):
        if e["k"] == "Subscript":
            return e["base"]
        if e["k"] in ("Unary", "Cast"):
            e = e["e"]
        else:
            return e
    return e


def _footer_ok(save, put_loop):
    if len(put_loop) != 1:
        return False
    order = list(walk(save["body"]))
    pos = {id(n): i for i, n in enumerate(order)}
    end_of_loop = max(pos[id(x)] for x in walk(put_loop[0]))
    seek = [pos[id(n)] for n in order if n["k"] == "Call" and n.get("short") == "seekp"]
    lim = min(seek) if seek else len(order)
    writes = [n for n in order if n["k"] == "OpCall" and n.get("op") == "<<" and n.get("cls") == OST
              and end_of_loop < pos[id(n)] < lim]
    # the footer is written through NiOStream after the last block and before the back-patch (its value is not decided)
    return len(writes) >= 1


def _patch_ok(loop, save):
    ws = [x for x in walk(loop["body"]) if x["k"] == "OpCall" and x.get("op") == "<<" and x.get("cls") == OST]
    if len(ws) != 1:
        return False
    w = ws[0]
    if "unsigned int" not in str(w.get("targs")):
        return False
    # the vector written is the one the sizes were captured into
    captured = None
    for n in walk(save["body"]):
        if n["k"] == "Assign" and any(x["k"] == "Call" and x.get("short") == "GetBlockSize" for x in walk(n["r"])):
            captured = show(_subscript_base(n["l"]))
    arg = w["args"][1]
    if loop["k"] == "RangeFor":
        return captured is not None and any(x["k"] == "Ref" and x.get("id") == loop["var"]["id"] for x in walk(arg))
    if captured is not None and captured in show(arg):
        return True
    # the vector may have been handed on: `const auto blockSizes = writeBlocks();` where the helper returns the captured vector
    assigned_ = {x["l"]["id"] for x in walk(save["body"]) if x["k"] == "Assign" and is_node(x["l"]) and x["l"]["k"] == "Ref"}
    def_of = {}
    for d_ in walk(save["body"]):
        if d_["k"] == "Decl":
            for v_ in d_.get("vars", []):
                if is_node(v_.get("init")) and v_["id"] not in assigned_:
                    def_of[v_["id"]] = v_["init"]

    def _res(e, depth=0):
        while is_node(e) and (e["k"] == "Cast" or (e["k"] == "Construct" and e.get("copy"))) and \
                (e.get("e") is not None or len(e.get("args", [])) == 1):
            e = e["e"] if e.get("e") is not None else e["args"][0]
        if is_node(e) and e["k"] == "Ref" and show(e) == captured:
            return e
        if depth < 6 and is_node(e) and e["k"] == "Ref" and e.get("id") in def_of:
            return _res(def_of[e["id"]], depth + 1)
        return e

    return captured is not None and any(x["k"] == "Ref" and show(_res(x)) == captured for x in walk(arg))
