"""C19 — texture path clean-up is canonical and idempotent (DESIGN §5 C19, thin partial).

Decided: sibling agreement of the texture-slot walkers — every string slot the accessor (GetTexturePathRefs) reaches is
reached by the clean-up (TrimTexturePaths) under no stronger guard — and the clean-up sits on the load path.
The regex pipeline's canonical form, idempotence and termination are string semantics and are not decided."""
import re
from facts import is_node, walk, where, show
import flow

NIF = "nifly::NifFile"


class Walker:
    """reduces a texture-slot walker to {slot key: [guard atom sets]}"""

    def __init__(self, F, fn, kind):
        self.F, self.fn, self.kind = F, fn, kind
        self.inits = {}
        self.shape_ids = set()
        self.lambdas = {}
        self.param_pos = {}
        for i_, p in enumerate(fn.get("params", [])):
            if "NiShape" in (p.get("ct") or p.get("t") or ""):
                self.shape_ids.add(p["id"])
            elif fn.get("lambda_parent"):
                self.param_pos[p["id"]] = "<arg%d>" % i_  # helper lambdas of the two walkers may name their parameters differently
        self.inner_atoms = {}  # id(call node of a helper lambda) -> guard atoms the lambda itself puts in front of the slot
        for n in walk(fn["body"]):
            if n["k"] == "Decl":
                for v in n.get("vars", []):
                    if is_node(v.get("init")):
                        if v["init"]["k"] == "Lambda":
                            self.lambdas[v["id"]] = v["init"].get("fid")
                        else:
                            self.inits[v["id"]] = v["init"]
            elif n["k"] in ("If", "While") and n.get("var") and is_node(n["var"].get("init")):
                self.inits[n["var"]["id"]] = n["var"]["init"]
            elif n["k"] == "RangeFor":
                if "GetShapes" in show(n["range"]):
                    self.shape_ids.add(n["var"]["id"])
                else:
                    self.inits[n["var"]["id"]] = {"k": "Subscript", "base": n["range"], "idx": {"k": "Lit", "lk": "int", "val": 0, "t": "int", "loc": ""},
                                                  "t": n["var"].get("t", ""), "loc": ""}

    def expand(self, e, depth=0):
        """rendering with locals replaced by what they were initialised from"""
        if not is_node(e) or depth > 8:
            return show(e)
        k = e["k"]
        if k == "Ref":
            if e.get("id") in self.shape_ids:
                return "<shape>"
            if e.get("id") in self.param_pos:
                return self.param_pos[e["id"]]
            if e.get("id") in self.inits:
                return self.expand(self.inits[e["id"]], depth + 1)
            return e["name"]
        if k == "Member":
            b = e.get("base")
            if b is None or b["k"] == "This":
                return e["name"]
            return self.expand(b, depth + 1) + "." + e["name"]
        if k == "Subscript":
            return self.expand(e["base"], depth + 1) + "[*]"
        if k == "Call":
            args = ", ".join(self.expand(a, depth + 1) for a in e.get("args", []))
            r = e.get("recv")
            nm = e.get("short") or "?"
            if is_node(r) and r["k"] != "This":
                return "%s.%s(%s)" % (self.expand(r, depth + 1), nm, args)
            return "%s(%s)" % (nm, args)
        if k == "Cast":
            if e.get("ck") == "dynamic":
                return "dynamic_cast<%s>(%s)" % (e["t"], self.expand(e["e"], depth + 1))
            return self.expand(e["e"], depth + 1)
        if k == "Unary":
            return e["op"] + self.expand(e["e"], depth + 1)
        if k == "Binary":
            return "(%s %s %s)" % (self.expand(e["l"], depth + 1), e["op"], self.expand(e["r"], depth + 1))
        return show(e)

    def slot_of(self, e):
        """(owner class, member) of the string member whose .get() is taken"""
        while is_node(e) and (e["k"] == "Cast" or (e["k"] == "Construct" and len(e.get("args", [])) == 1)):
            e = e["e"] if e["k"] == "Cast" else e["args"][0]
        if is_node(e) and e["k"] == "Call" and e.get("short") == "get" and is_node(e.get("recv")):
            r = e["recv"]
            if r["k"] == "Member":
                return "%s::%s" % (r.get("owner"), r["name"])
            if r["k"] == "Ref" and r.get("id") in self.inits:
                i = self.inits[r["id"]]
                # element of a container member
                base = i.get("base") if i["k"] == "Subscript" else None
                while is_node(base) and base["k"] == "Cast":
                    base = base["e"]
                if is_node(base) and base["k"] == "Member":
                    return "%s::%s[*]" % (base.get("owner"), base["name"])
        return None

    def slots_of(self, e):
        """like slot_of, but also resolves `p->get()` where p iterates over a local array of addresses of string members
        (`NiString* const a[] = {&x->m1, &x->m2}; for (NiString* p : a) ...`): one slot per array element"""
        s_ = self.slot_of(e)
        if s_:
            return [s_]
        x = e
        while is_node(x) and (x["k"] == "Cast" or (x["k"] == "Construct" and len(x.get("args", [])) == 1)):
            x = x["e"] if x["k"] == "Cast" else x["args"][0]
        if not (is_node(x) and x["k"] == "Call" and x.get("short") == "get" and is_node(x.get("recv"))):
            return []
        r = x["recv"]
        while is_node(r) and (r["k"] == "Cast" or (r["k"] == "Unary" and r["op"] == "*")):
            r = r["e"]
        if not (is_node(r) and r["k"] == "Ref" and r.get("id") in self.inits):
            return []
        i = self.inits[r["id"]]
        base = i.get("base") if is_node(i) and i["k"] == "Subscript" else None
        while is_node(base) and base["k"] == "Cast":
            base = base["e"]
        if not (is_node(base) and base["k"] == "Ref" and base.get("id") in self.inits):
            return []
        arr = self.inits[base["id"]]
        out = []
        for el in (arr.get("elems") or arr.get("inits") or arr.get("args") or []) if is_node(arr) and arr["k"] == "InitList" else []:
            m = el
            while is_node(m) and (m["k"] == "Cast" or (m["k"] == "Unary" and m["op"] == "&")):
                m = m["e"]
            if is_node(m) and m["k"] == "Member":
                out.append("%s::%s" % (m.get("owner"), m["name"]))
        return out

    def run(self):
        F, fn = self.F, self.fn
        sites = []
        for n in walk(fn["body"]):
            if self.kind == "access" and n["k"] == "Call" and n.get("short") == "push_back" and n.get("args"):
                for s in self.slots_of(n["args"][0]):
                    sites.append((n, s))
            if self.kind == "trim" and (n["k"] == "OpCall" and n.get("op") == "=" and len(n.get("args", [])) == 2):
                if any(x["k"] == "OpCall" and x.get("op") == "()" for x in walk(n["args"][1])):
                    for s in self.slots_of(n["args"][0]):
                        sites.append((n, s))
            if n["k"] == "OpCall" and n.get("op") == "()" and n.get("args") and is_node(n["args"][0]) and len(n["args"]) >= 2:
                lam = F.fns.get(n.get("fid")) if n.get("fid") in F.fns and F.fns[n["fid"]].get("lambda_parent") else None
                if lam is None and n["args"][0]["k"] == "Ref" and n["args"][0].get("id") in self.lambdas:
                    lam = F.fns.get(self.lambdas[n["args"][0]["id"]])
                if lam and self._param_slot_helper(lam):
                    # a helper that cleans / hands out the string slot it is given: the slot is the argument
                    s_ = self.slot_of({"k": "Call", "short": "get", "recv": n["args"][1], "args": []})
                    if s_:
                        sites.append((n, s_))
                elif lam and self._lambda_touches_slot(lam):
                    a = n["args"][1]
                    sites.append((n, "via " + self._typed_chain(a)))
                    inner = Walker(F, lam, self.kind).run()
                    sets = [atoms for lst in inner.values() for atoms, _ in lst]
                    if sets:
                        common = set(sets[0])
                        for x in sets[1:]:
                            common &= x
                        self.inner_atoms[id(n)] = frozenset(common)
        ids = {}
        for n, s in sites:
            ids.setdefault(id(n), []).append(s)
        col = flow.Collect(F, fn, lambda n: id(n) in ids)
        saved = flow.KEYNODE
        flow.KEYNODE = {}  # guard keys are resolved to *this* function's nodes (local names collide across walkers)
        try:
            col.run()
            registry = flow.KEYNODE
        finally:
            flow.KEYNODE = saved
        out = {}
        for n, sts in col.by_node():
            atoms = None
            for st in sts:
                a = set()
                for f in (st or ()):
                    if f[0] == "G" and f[2] is True:
                        node = registry.get(f[1])
                        if is_node(node) and not (node["k"] == "Binary" and node["op"] == "&&"):  # its conjuncts are facts of their own
                            a.add(self.expand(node))
                atoms = a if atoms is None else (atoms & a)
            for slot_ in ids[id(n)]:
                out.setdefault(slot_, []).append((frozenset(atoms or ()) | self.inner_atoms.get(id(n), frozenset()), n))
        return out

    def _lambda_touches_slot(self, lam):
        for n in walk(lam["body"]):
            if n["k"] == "Call" and n.get("short") == "get" and is_node(n.get("recv")) and n["recv"]["k"] == "Member":
                return True
            if n["k"] == "OpCall" and n.get("op") == "()" and len(n.get("args", [])) >= 2 and is_node(n["args"][1]) and \
                    n["args"][1]["k"] == "Member" and n.get("fid") in self.F.fns and self._param_slot_helper(self.F.fns[n["fid"]]):
                return True
        return False

    def _param_slot_helper(self, lam):
        """does the helper clean (kind trim) / hand out (kind access) the `.get()` of one of its own parameters?"""
        pids = {p["id"] for p in lam.get("params", [])}

        def on_param(e):
            while is_node(e) and (e["k"] == "Cast" or (e["k"] == "Construct" and len(e.get("args", [])) == 1)):
                e = e["e"] if e["k"] == "Cast" else e["args"][0]
            return is_node(e) and e["k"] == "Call" and e.get("short") == "get" and is_node(e.get("recv")) and \
                e["recv"]["k"] == "Ref" and e["recv"].get("id") in pids

        for n in walk(lam.get("body") or {}):
            if self.kind == "trim" and n["k"] == "OpCall" and n.get("op") == "=" and len(n.get("args", [])) == 2 and on_param(n["args"][0]):
                return True
            if self.kind == "access" and n["k"] == "Call" and n.get("short") == "push_back" and n.get("args") and on_param(n["args"][0]):
                return True
        return False

    def _typed_chain(self, a):
        parts = []
        while is_node(a):
            if a["k"] == "Member":
                parts.append(a["name"])
                owner = a.get("owner")
                a = a.get("base")
                if not is_node(a) or a["k"] != "Member":
                    parts.append(owner or "?")
                    break
            elif a["k"] == "Cast":
                a = a["e"]
            else:
                break
        return ".".join(reversed(parts))


def _run_alternatives(pat):
    """[set of chars] per top-level alternative when the pattern is `X+|Y+|...` with X, Y single (escaped) characters or
    bracket classes of literal characters; None for any other pattern (not decided)"""
    alts, i, n = [], 0, len(pat)
    while True:
        if i >= n:
            return None
        if pat[i] == "[":
            j, cs = i + 1, set()
            if j < n and pat[j] == "^":
                return None
            while j < n and pat[j] != "]":
                if pat[j] == "\\" and j + 1 < n:
                    if pat[j + 1].isalnum():
                        return None  # \s, \d, ... : a class escape
                    cs.add(pat[j + 1])
                    j += 2
                elif j + 2 < n and pat[j + 1] == "-" and pat[j + 2] != "]":
                    return None  # ranges are not needed here
                else:
                    cs.add(pat[j])
                    j += 1
            if j >= n:
                return None
            i = j + 1
        elif pat[i] == "\\" and i + 1 < n and not pat[i + 1].isalnum():
            cs = {pat[i + 1]}
            i += 2
        elif pat[i] not in "()|*+?{}^$.\\":
            cs = {pat[i]}
            i += 1
        else:
            return None
        if i >= n or pat[i] != "+":
            return None
        i += 1
        alts.append(cs)
        if i == n:
            return alts
        if pat[i] != "|":
            return None
        i += 1


def run(F, chk):
    R1 = chk.rule("R19.1", "every texture string slot GetTexturePathRefs can reach is cleaned by TrimTexturePaths under a guard set "
                           "that is a subset of the accessor's (the clean-up is never harder to reach than the slot it cleans)")
    R2 = chk.rule("R19.2", "PrepareData calls TrimTexturePaths on every path and Load reaches PrepareData on its success path")

    acc = F.fn1("nifly::NifFile::GetTexturePathRefs")
    trim = F.fn1("nifly::NifFile::TrimTexturePaths")
    A = Walker(F, acc, "access").run()
    T = Walker(F, trim, "trim").run()
    chk.extra["accessor_slots"] = sorted(A)
    chk.extra["cleanup_slots"] = sorted(T)
    chk.require(len(A) >= 5, "fewer than 5 texture slots recognised in GetTexturePathRefs (%d)" % len(A))
    for slot, sites in sorted(A.items()):
        for ga, n in sites:
            cands = T.get(slot, [])
            ok = any(gt <= ga for gt, _ in cands)
            chk.instance(R1, ok=ok, sample={"slot": slot, "accessor_guards": sorted(ga), "cleanup_guards": [sorted(g) for g, _ in cands][:2]})
            if not ok:
                if not cands:
                    msg = "texture slot %s is handed out by GetTexturePathRefs but never cleaned by TrimTexturePaths" % slot
                    w = where(trim)
                else:
                    extra = sorted(min((gt - ga for gt, _ in cands), key=len))
                    msg = ("texture slot %s is cleaned only under the additional condition(s) %s that the accessor does not need: "
                           "paths in that slot are never normalised when the condition is false" % (slot, extra))
                    w = where(trim, cands[0][1])
                chk.violation("R19.1", "C19/R19.1:%s" % slot, w, msg)
    # an early `continue` / `break` / `return` inside the per-shape loop of the clean-up makes every cleaning site after it
    # conditional on not taking it; the accessor has no such exit, so the slots after it are handed out but not cleaned
    def early_exits(fn):
        out = []
        for lp in walk(fn["body"]):
            if lp["k"] != "RangeFor" or "GetShapes" not in show(lp["range"]):
                continue
            order = [id(x) for x in walk(lp["body"])]
            for x in walk(lp["body"]):
                if x["k"] in ("Continue", "Break", "Return"):
                    # not inside a nested loop of its own (a continue of an inner loop is local to it)
                    inner = [l2 for l2 in walk(lp["body"]) if l2["k"] in ("For", "While", "Do", "RangeFor") and any(y is x for y in walk(l2["body"]))]
                    if x["k"] != "Return" and inner:
                        continue
                    out.append((lp, x, order.index(id(x)), order))
        return out

    acc_exits = early_exits(acc)
    for lp, x, pos, order in early_exits(trim):
        later = []
        for slot, sites in T.items():
            for _, n in sites:
                if id(n) in order and order.index(id(n)) > pos:
                    later.append(slot)
        ok = not later or bool(acc_exits)
        chk.instance(R1, ok=ok, sample={"early_exit_in_shape_loop": x["k"], "slots_after_it": sorted(set(later))[:6]})
        if not ok:
            chk.violation("R19.1", "C19/R19.1:early-exit:%s" % sorted(set(later))[0], where(trim, x),
                          "TrimTexturePaths leaves the iteration for a shape early (`%s`) before it has cleaned %s: for shapes that "
                          "take this exit those slots are handed out by the accessors but never normalised" % (
                              x["k"].lower(), ", ".join(sorted(set(later))[:4])))
    chk.floor(R1, 14)

    prep = F.fn1("nifly::NifFile::PrepareData")

    class P(flow.Flow):
        def on_node(self, n, st):
            if st is not None and n["k"] == "Call" and n.get("fn") == "nifly::NifFile::TrimTexturePaths":
                return st | {("D", "trim")}
            return st

    p = P(F, prep)
    p.run()
    ok = bool(p.exits) and all(("D", "trim") in (st or ()) for _, _, st in p.exits)
    chk.instance(R2, ok=ok, sample={"PrepareData_calls_TrimTexturePaths_on_all_paths": ok})
    if not ok:
        chk.violation("R19.2", "C19/R19.2:PrepareData", where(prep), "PrepareData can complete without calling TrimTexturePaths")
    load = [f for f in F.fn_named("nifly::NifFile::Load") if "istream" in f["id"]][0]

    class L(flow.Flow):
        def on_node(self, n, st):
            if st is not None and n["k"] == "Call" and n.get("fn") == "nifly::NifFile::PrepareData":
                return st | {("D", "prepare")}
            return st

    l = L(F, load)
    l.run()
    succ = [(k, n, st) for k, n, st in l.exits if k == "return" and is_node(n.get("e")) and n["e"].get("val") == 0]
    ok = bool(succ) and all(("D", "prepare") in (st or ()) for _, _, st in succ)
    chk.instance(R2, ok=ok, sample={"Load_success_path_runs_PrepareData": ok})
    if not ok:
        chk.violation("R19.2", "C19/R19.2:Load", where(load), "Load can return success without running PrepareData (texture paths stay uncleaned)")
    # what the clean-up reads of the model's own state must be in place when Load runs it: a member that Load takes from its
    # options and that TrimTexturePaths (or a helper lambda of it) reads is assigned before the PrepareData call on every path
    opt_ids = {p_["id"] for p_ in load.get("params", []) if "Options" in (p_.get("ct") or p_.get("t") or "")}
    trim_fns = [trim] + [g for g in F.fns.values() if g.get("lambda_parent") == trim["id"]]
    read_by_trim = {x["name"] for g in trim_fns for x in walk(g.get("body") or {}) if x["k"] == "Member" and x.get("owner") == NIF and
                    x.get("mk", "field") == "field"}
    nif_fields = {f_["name"] for f_ in (F.recs.get(NIF) or {}).get("fields", [])}
    for g in trim_fns:
        for x in walk(g.get("body") or {}):
            if x["k"] == "Lambda":
                read_by_trim |= {c_.get("name") for c_ in x.get("caps", []) if c_.get("name") in nif_fields}  # `[&isTerrain = isTerrain]`
    opt_members = {}
    for n in walk(load["body"]):
        if n["k"] == "Assign" and n["op"] == "=" and is_node(n["l"]) and n["l"]["k"] == "Member" and n["l"].get("owner") == NIF and \
                any(x["k"] == "Ref" and x.get("id") in opt_ids for x in walk(n["r"])):
            opt_members[n["l"]["name"]] = n
    for name, asg in sorted(opt_members.items()):
        if name not in read_by_trim:
            continue

        class O(flow.Flow):
            def on_node(self, n, st):
                if st is None:
                    return st
                if n is asg:
                    return st | {("D", "opt-set")}
                if n["k"] == "Call" and n.get("fn") == "nifly::NifFile::PrepareData" and ("D", "opt-set") not in st:
                    return st | {("D", "prepared-before-option")}
                return st

        o_ = O(F, load)
        o_.run()
        bad = any(("D", "prepared-before-option") in (st or ()) for _, _, st in o_.exits)
        chk.instance(R2, ok=not bad, sample={"option_member": name, "stored_before_PrepareData": not bad})
        if bad:
            chk.violation("R19.2", "C19/R19.2:Load:%s" % name, where(load, asg),
                          "Load stores the option `%s` only after PrepareData has run the texture clean-up, which reads it: the "
                          "paths of a freshly loaded file are cleaned as if the option were off, and a later explicit clean-up "
                          "changes them again" % name)
    chk.floor(R2, 3)

    # ---------------------------------------------------------------- R19.3
    R3 = chk.rule("R19.3", "a clean-up step that collapses runs (`regex_replace(path, regex(P), c)` with a one-character replacement c and "
                           "a pattern P made only of `+`-quantified single characters / classes) leaves no doubled c: P is one class "
                           "that contains c — with two alternatives (`/+|\\\\+`) a run that mixes them yields two adjacent matches, i.e. "
                           "`cc`, which is neither canonical ('single backslashes only') nor a fixed point of the clean-up")
    trim = F.fn1("nifly::NifFile::TrimTexturePaths")
    bodies = [trim] + [g for g in F.fns.values() if g.get("lambda_parent") == trim["id"]]
    n3 = undecided = 0
    for g in bodies:
        for n in walk(g.get("body") or {}):
            if not (n["k"] == "Call" and n.get("short") == "regex_replace" and len(n.get("args", [])) >= 3):
                continue
            pat = rep = None
            for x in walk(n["args"][1]):
                if x["k"] == "Lit" and x.get("lk") == "str" and pat is None:
                    pat = x.get("sval")
            r0 = n["args"][2]
            while is_node(r0) and r0["k"] == "Cast":
                r0 = r0["e"]
            if is_node(r0) and r0["k"] == "Lit" and r0.get("lk") == "str":
                rep = r0.get("sval")
            if pat is None or rep is None or len(rep) != 1:
                continue
            alts = _run_alternatives(pat)
            if alts is None:
                undecided += 1
                continue
            n3 += 1
            ok = len(alts) == 1 and rep in alts[0]
            chk.instance(R3, ok=ok, sample={"pattern": pat, "replacement": rep, "alternatives": [sorted(a) for a in alts]})
            if not ok:
                why = ("its %d alternatives match runs of different characters separately, so a mixed run becomes %d copies" % (len(alts), len(alts))
                       if len(alts) > 1 else "the replacement character itself is not part of the run, so a run next to it doubles it")
                chk.violation("R19.3", "C19/R19.3:%s" % pat, where(g, n),
                              "the clean-up replaces what `%s` matches by `%s`, but %s of `%s` in a row: the cleaned path is not "
                              "canonical and cleaning it again changes it" % (pat, rep, why, rep))
    chk.extra["R19.3_patterns_outside_the_run_subset"] = undecided
    chk.floor(R3, 1)

    # ---------------------------------------------------------------- R19.5
    R5 = chk.rule("R19.5", "the patterns of the clean-up span arbitrary path bytes only with constructs that match every byte: a bare `.` "
                           "(ECMAScript: any character except line terminators) is not among them — a path with a CR or LF inside "
                           "(trim_whitespace removes them only at the ends) keeps whatever the `.`-span was meant to strip")
    n5 = 0
    for g in bodies:
        for n in walk(g.get("body") or {}):
            if not (n["k"] == "Construct" and "basic_regex" in (n.get("ct") or n.get("t") or "") and n.get("args")):
                continue
            a0 = n["args"][0]
            while is_node(a0) and a0["k"] == "Cast":
                a0 = a0["e"]
            if not (is_node(a0) and a0["k"] == "Lit" and a0.get("lk") == "str" and a0.get("sval") is not None):
                continue
            pat = a0["sval"]
            bare, i_, in_class = False, 0, False
            while i_ < len(pat):
                ch = pat[i_]
                if ch == "\\":
                    i_ += 2
                    continue
                if ch == "[":
                    in_class = True
                elif ch == "]":
                    in_class = False
                elif ch == "." and not in_class:
                    bare = True
                i_ += 1
            n5 += 1
            chk.instance(R5, ok=not bare, sample={"pattern": pat})
            if bare:
                chk.violation("R19.5", "C19/R19.5:%s" % pat, where(g, n),
                              "the clean-up pattern `%s` spans path bytes with a bare `.`, which never matches CR or LF: for a path "
                              "with a line break inside, what the span should cover (everything before the textures folder) is "
                              "not matched and stays in the cleaned path" % pat)
    chk.floor(R5, 4)

    # ---------------------------------------------------------------- R19.4
    R4 = chk.rule("R19.4", "the clean-up never throws on a position: in TrimTexturePaths, its lambdas and the repository helpers they call, "
                           "a position handed to std::string::substr / erase / at / insert / replace is never the unchecked result of a "
                           "find-family search (which is npos when nothing is found — `substr(npos)` throws std::out_of_range for a path "
                           "made only of separators)")
    POS_TAKERS = ("substr", "erase", "at", "insert", "replace")
    scope4 = {g["id"] for g in bodies}
    for g in list(bodies):
        for t in F.reachable([g["id"]]):
            h = F.fns.get(t)
            if h and h.get("body") and (h.get("file") or "").startswith(("src/", "include/")) and not h.get("cls"):
                scope4.add(t)
    n4 = 0
    for gid in sorted(scope4):
        g = F.fns[gid]
        finds = {}  # local id -> name, for locals initialised by a find-family call
        for d in walk(g.get("body") or {}):
            if d["k"] == "Decl":
                for v in d.get("vars", []):
                    i0 = v.get("init")
                    while is_node(i0) and i0["k"] == "Cast":
                        i0 = i0["e"]
                    if is_node(i0) and i0["k"] == "Call" and (i0.get("short") or "").startswith(("find", "rfind")) and i0.get("ext"):
                        finds[v["id"]] = v["name"]
        tested = set()
        for x in walk(g.get("body") or {}):
            if x["k"] in ("Binary", "OpCall") and (x.get("op") in ("==", "!=")):
                sides = [x["l"], x["r"]] if x["k"] == "Binary" else list(x.get("args", []))
                txt = [show(y) for y in sides]
                if any("npos" in t_ for t_ in txt):
                    for y in sides:
                        for r_ in walk(y):
                            if r_["k"] == "Ref" and r_.get("id") in finds:
                                tested.add(r_["id"])
        for n in walk(g.get("body") or {}):
            if not (n["k"] == "Call" and n.get("ext") and n.get("short") in POS_TAKERS and is_node(n.get("recv")) and n.get("args")):
                continue
            rt = (n["recv"].get("ct") or n["recv"].get("t") or "")
            if "basic_string" not in rt and "std::string" not in rt:
                continue
            a0 = n["args"][0]
            bad = None
            wrapped = set()  # `s.find_last_not_of(x) + 1` is 0 when nothing is found (npos + 1 wraps): the usual right-trim idiom
            for y in walk(a0):
                if y["k"] == "Binary" and y["op"] == "+":
                    for u, w in ((y["l"], y["r"]), (y["r"], y["l"])):
                        u0 = u
                        while is_node(u0) and u0["k"] == "Cast":
                            u0 = u0["e"]
                        if is_node(w) and w.get("val") == 1 and is_node(u0) and u0["k"] == "Call":
                            wrapped.add(id(u0))
            for y in walk(a0):
                if id(y) in wrapped:
                    continue
                if y["k"] == "Call" and y.get("ext") and (y.get("short") or "").startswith(("find", "rfind")):
                    bad = "the result of `%s` directly" % show(y)
                elif y["k"] == "Ref" and y.get("id") in finds and y["id"] not in tested:
                    bad = "`%s`, a search result that is never compared with npos" % y["name"]
            n4 += 1
            chk.instance(R4, ok=bad is None, sample={"fn": g["name"], "call": show(n)[:80]})
            if bad:
                chk.violation("R19.4", "C19/R19.4:%s:%s" % (g["name"].split("@")[0], n.get("short")), where(g, n),
                              "the texture path clean-up calls %s with %s: when the search finds nothing the position is npos and the "
                              "call throws std::out_of_range (a path made only of separators, or ending at the textures folder)" %
                              (n.get("short"), bad))
    chk.floor(R4, 1)

    # ---------------------------------------------------------------- R19.6
    R6 = chk.rule("R19.6", "'no surrounding whitespace' means the C whitespace class: the helpers of the clean-up recognise whitespace "
                           "either through isspace() or through a character set that lists all six of its members (space, \\t, \\n, "
                           "\\v, \\f, \\r) — a hand-written set that leaves one out keeps that character around a path")
    WS = set(" \t\n\v\f\r")
    n6 = 0
    for gid in sorted(scope4):
        g = F.fns[gid]
        inits = {}
        for d in walk(g.get("body") or {}):
            if d["k"] == "Decl":
                for v in d.get("vars", []):
                    i0 = v.get("init")
                    while is_node(i0) and i0["k"] in ("Cast", "Construct") and (i0.get("e") is not None or len(i0.get("args", [])) == 1):
                        i0 = i0["e"] if i0.get("e") is not None else i0["args"][0]
                    if is_node(i0) and i0["k"] == "Lit" and i0.get("lk") == "str":
                        inits[v["id"]] = i0.get("sval")
        for n in walk(g.get("body") or {}):
            if n["k"] != "Call":
                continue
            if n.get("short") in ("isspace", "iswspace"):
                n6 += 1
                chk.instance(R6, ok=True, sample={"fn": g["name"], "recognises_whitespace_by": n["short"]})
                continue
            if not (n.get("ext") and n.get("short") in ("find_first_not_of", "find_last_not_of", "find_first_of", "find_last_of") and n.get("args")):
                continue
            a0 = n["args"][0]
            while is_node(a0) and a0["k"] in ("Cast", "Construct") and (a0.get("e") is not None or len(a0.get("args", [])) == 1):
                a0 = a0["e"] if a0.get("e") is not None else a0["args"][0]
            lit = None
            if is_node(a0) and a0["k"] == "Lit" and a0.get("lk") == "str":
                lit = a0.get("sval")
            elif is_node(a0) and a0["k"] == "Ref" and a0.get("id") in inits:
                lit = inits[a0["id"]]
            if not lit or len(lit) < 2 or not set(lit) <= WS:
                continue  # not a whitespace set
            n6 += 1
            missing = sorted(WS - set(lit))
            chk.instance(R6, ok=not missing, sample={"fn": g["name"], "set": repr(lit)})
            if missing:
                chk.violation("R19.6", "C19/R19.6:%s:%s" % (g["name"].split("(")[0], n["short"]), where(g, n),
                              "%s recognises whitespace through the set %r, which lacks %s of the C whitespace class: such a character "
                              "around a texture path survives the clean-up (and a path made only of it does not become empty)" %
                              (g["name"], lit, ", ".join(repr(c) for c in missing)))
    chk.floor(R6, 1)

    chk.assumptions += ["the regex pipeline's canonical form, idempotence, terrain prefix handling and termination are string "
                        "semantics: not decided (an observed candidate: a capitalised `Textures\\\\` path in terrain mode is "
                        "not a fixed point after one pass — value-level, outside this check)"]
    chk.extra["explanation"] = ("sibling agreement of the texture-slot walkers (coverage and guard inclusion) and presence of the "
                                "clean-up on the load path; what the clean-up computes is not decided")
