"""C16 — truncated files never crash the loader (DESIGN §5 C16): divisor guards, resize-before-index, loader checks."""
from facts import is_node, walk, where, show
import flow

INT_TYPES = ("int", "unsigned", "long", "short", "char", "uint", "size_t", "bool")


def is_integral(e):
    t = (e.get("ct") or e.get("t") or "")
    t = t.replace("const ", "").strip()
    if "float" in t or "double" in t or "half" in t:
        return False
    return any(x in t for x in INT_TYPES)


def run(F, chk):
    R1 = chk.rule("R16.1", "every integer division / modulo whose divisor is not a non-zero compile-time constant is "
                           "dominated by a test that makes the divisor non-zero")
    reach = None
    for fn in F.fns.values():
        if fn.get("tmpl") == "pattern":
            continue
        body = fn.get("body")
        if not is_node(body):
            continue
        divs = [n for n in walk(body) if n["k"] in ("Binary", "Assign") and n["op"] in ("/", "%", "/=", "%=")
                and is_node(n["r"]) and is_integral(n["r"]) and is_integral(n["l"])]
        if not divs:
            continue
        ids = set(id(n) for n in divs)
        col = flow.Collect(F, fn, lambda n: id(n) in ids)
        col.run()
        seen = set()
        for n, sts in col.by_node():
            seen.add(id(n))
            d = n["r"]
            if d.get("val") is not None:
                chk.instance(R1, ok=d["val"] != 0, nontrivial=False)
                if d["val"] == 0:
                    chk.violation("R16.1", "C16/R16.1:%s:%s" % (fn["name"], show(d)), where(fn, n), "division by constant zero")
                continue
            key = show(d)
            ok = all(flow.has_guard(st, key, True) or _pos_guard(st, d) for st in sts)
            chk.instance(R1, ok=ok, sample={"fn": fn["name"], "divisor": key, "guards": flow.guards(sts[0])[:4]})
            if not ok:
                chk.violation("R16.1", "C16/R16.1:%s:%s" % (fn["name"], key), where(fn, n),
                              "integer division by `%s` in %s is not dominated by a non-zero test of the divisor "
                              "(a truncated or crafted file leaves it 0 -> SIGFPE)" % (key, fn["name"]),
                              {"guards": flow.guards(sts[0])})
        for n in divs:
            if id(n) not in seen:
                chk.instance(R1, ok=True, nontrivial=False)  # unreachable under folded constants
    chk.floor(R1, 2)

    # ------------------------------------------------------------------ R16.2 resize before index (shared with C01 R1.4)
    R2 = chk.rule("R16.2", "in every Sync body and hand-written reader, every subscript of a member container by a counted loop and "
                           "every raw transfer into a container is dominated by a resize to the same count (a truncated count "
                           "cannot make the reader index past the array)")
    import arrays, versions
    import c08 as _c08
    import schema as _schema
    VE = versions.VersionEval(F)
    regs = sorted(set(VE.named_versions().values())) if chk.tier == "quick" else sorted(set(VE.regions()))
    # one representative region per distinct truth assignment of the version predicates used in the readers
    keyset = {}
    for r in regs:
        sig = tuple(VE.ev(b, r) for b in VE.pred_bodies.values()) + (r[0], min(r[2], 200))
        keyset.setdefault(sig, r)
    reps = sorted(keyset.values())
    for fn in sorted(F.fns.values(), key=lambda f: f["id"]):
        if fn.get("tmpl") == "pattern":
            continue
        is_sync = fn["short"] in ("Sync", "SyncData", "SyncByteArray") and any("NiStreamReversible" in (p.get("ct") or p.get("t") or "") for p in fn.get("params", []))
        is_reader = (fn["short"] == "Get" and fn.get("cls") == "nifly::NiHeader") or \
                    (fn["short"] == "Read" and any("NiIStream" in (p.get("ct") or p.get("t") or "") for p in fn.get("params", [])))
        if not (is_sync or is_reader):
            continue
        uses_version = any(VE.is_version_expr(n) for n in walk(fn.get("body") or {}) if n["k"] == "Call")
        checked, found = 0, {}
        for rep in (reps if uses_version else reps[:1]):
            a = arrays.ArrayCoherence(F, fn, flow.MODE_READ, VE, rep)
            a.run()
            checked = max(checked, a.checked)
            for n, msg in a.findings:
                found.setdefault(id(n), (n, msg, rep))
        for n, msg, rep in found.values():
            chk.instance(R2, ok=False, sample={"fn": fn["name"], "finding": msg})
            chk.violation("R16.2", "C16/R16.2:%s:%s" % (fn["name"], show(n.get("base") or n)[:60] if n["k"] == "Subscript" else show(n["args"][0])[:60]),
                          where(fn, n), "%s (version %08x/%d/%d): %s — a file cut after the count leaves the array shorter than the loop bound" % (
                              fn["name"], rep[0], rep[1], rep[2], msg))
        for _ in range(max(0, checked - len(found))):
            chk.instance(R2, ok=True)
    chk.floor(R2, 90)

    # ------------------------------------------------------------------ R16.5 arrays the library indexes by a count are sized with it
    R5 = chk.rule("R16.5", "for every (array, count) pair that a function on the load / query / save paths indexes by a loop bounded "
                           "by the count (without sizing the array itself), the reader sizes the array to that count under no data "
                           "condition that the indexing site does not test as well")
    import re
    import paths as _paths
    import c02 as _c02
    import c15 as _c15
    from paths import render as _render
    roots_q, Q = _c15.scope_Q(F)
    scope = Q | F.reachable([f["id"] for f in F.fns.values() if f.get("cls") == "nifly::NifFile" and f["short"] in ("Load", "Save", "CopyFrom")])
    getters = {}
    for g in F.fns.values():
        if g.get("cls") and not g.get("params") and g.get("tmpl") != "pattern":
            b = g.get("body")
            if is_node(b) and b["k"] == "Compound" and len(b["body"]) == 1 and b["body"][0]["k"] == "Return":
                r = b["body"][0].get("e")
                while is_node(r) and r["k"] == "Cast":
                    r = r["e"]
                if is_node(r) and r["k"] == "Member" and (r.get("base") is None or r["base"]["k"] == "This"):
                    getters[(g["cls"], g["short"])] = r["name"]

    def peel(e):
        while is_node(e) and e["k"] == "Cast":
            e = e["e"]
        return e

    beliefs = {}  # (array owner, array, count owner, count) -> [(fn, node, guard member names)]
    for fid in sorted(scope):
        fn = F.fns.get(fid)
        if not fn or fn.get("tmpl") == "pattern" or fn["short"] in ("Sync", "Get", "Put", "Read", "Write") or fn.get("ctor"):
            continue
        cands = []
        for loop in walk(fn.get("body") or {}):
            if loop["k"] != "For" or not is_node(loop.get("cond")) or loop["cond"]["k"] != "Binary" or loop["cond"]["op"] != "<":
                continue
            lv, bound = peel(loop["cond"]["l"]), peel(loop["cond"]["r"])
            if not (is_node(lv) and lv["k"] == "Ref"):
                continue
            N, O = None, None
            if is_node(bound) and bound["k"] == "Member" and bound.get("mk") == "field":
                N, O = (bound.get("owner"), bound["name"]), show(bound.get("base")) if bound.get("base") is not None else "this"
            elif is_node(bound) and bound["k"] == "Call" and bound.get("cls") and not bound.get("args"):
                for c in [bound["cls"]] + F.ancestors(bound["cls"]):
                    if (c, bound.get("short")) in getters:
                        N = (c, getters[(c, bound["short"])])
                        break
                O = show(bound.get("recv")) if bound.get("recv") is not None else "this"
            if not N:
                continue
            for sub in walk(loop["body"]):
                if sub["k"] == "Subscript" and is_node(peel(sub["idx"])) and peel(sub["idx"])["k"] == "Ref" and peel(sub["idx"])["id"] == lv["id"]:
                    base = peel(sub["base"])
                    if is_node(base) and base["k"] == "Member" and base.get("mk") == "field" and \
                            arrays._is_dyn_container(base.get("ct") or base.get("t")):
                        Ob = show(base.get("base")) if base.get("base") is not None else "this"
                        if Ob == O:
                            cands.append((sub, base, N))
        if not cands:
            continue
        ids = {id(n) for n, _, _ in cands}

        class Z(arrays.ArrayCoherence):
            def on_node(self, n, st):
                st2 = arrays.ArrayCoherence.on_node(self, n, st)
                if st2 is not None and not self.muted and id(n) in ids:
                    sites[id(n)] = st2
                return st2

            def _check_subscript(self, n, st):
                return

            def _check_raw(self, n, st):
                return

        sites = {}
        Z(F, fn).run()
        for n, base, N in cands:
            st = sites.get(id(n))
            if st is None:
                continue
            c = show(base)
            if any(f[0] == "Z" and f[1] == c for f in st):
                continue  # the function sized the array itself
            names = set()
            for f in st:
                if f[0] == "G":
                    names |= set(re.findall(r"[A-Za-z_]\w*", f[1]))
            beliefs.setdefault((base.get("owner"), base["name"], N[0], N[1]), []).append((fn, n, names))
    chk.extra["array_count_beliefs_on_load_query_save_paths"] = sorted("%s::%s[i < %s]" % (k[0], k[1], k[3]) for k in beliefs)
    S5 = _paths.Summarizer(F, _c02.make_primitive(F), mode=flow.MODE_READ, value_proxies=True,
                           node_kinds=("Call", "OpCall", "Construct", "Assign", "Unary"))
    for (aown, arr, nown, nname), sites in sorted(beliefs.items()):
        readers = [f for f in F.fns.values() if f.get("cls") == aown and f["short"] in ("Sync", "Get") and f.get("tmpl") != "pattern"]
        if not readers:
            continue
        sized = []
        for rd in readers:
            for ev in S5.events(rd["id"]):
                if ev.kind == "mut" and ev.info["op"] == "resize" and ev.path and ev.path[0][0] == "this" and len(ev.path) == 2 and \
                        ev.path[1] == arr and ev.info.get("size_path") and _render(ev.info["size_path"]).split(".")[-1] == nname:
                    gnames = set()
                    for g in ev.guards:
                        node = flow.KEYNODE.get(g[0])
                        expr = node[1] if isinstance(node, tuple) else node
                        if is_node(expr) and VE.is_version_expr(expr):
                            continue
                        if len(g) > 2 and g[2]:
                            continue
                        gnames |= set(re.findall(r"[A-Za-z_]\w*", g[0]))
                    sized.append((rd, ev, gnames - {nname, "stream", "GetVersion", "File", "Stream", "User", "nifly"}))
        if not sized:
            chk.instance(R5, ok=False, sample={"array": "%s::%s" % (aown, arr), "count": nname, "sized": False})
            fn0, n0, _ = sites[0]
            chk.violation("R16.5", "C16/R16.5:%s::%s:%s" % (aown, arr, nname), where(fn0, n0),
                          "%s indexes %s::%s by a loop bounded by %s, but the reader of %s never sizes the array to that count: a file "
                          "that only carries the count makes this loop read past the array" % (fn0["name"], aown, arr, nname, aown))
            continue
        for fn0, n0, cnames in sites:
            best = min((g - cnames for _, _, g in sized), key=len)
            ok = not best
            chk.instance(R5, ok=ok, sample={"array": "%s::%s" % (aown, arr), "count": nname, "consumer": fn0["name"],
                                            "reader_conditions_not_tested_by_consumer": sorted(best)})
            if not ok:
                chk.violation("R16.5", "C16/R16.5:%s::%s:%s" % (aown, arr, nname), where(sized[0][0], None),
                              "%s::%s is sized to %s only under the condition(s) on %s, but %s indexes it by a loop bounded by %s "
                              "without testing them: a truncated or crafted file with the count set and the condition false makes "
                              "that loop read past the array" % (aown, arr, nname, sorted(best), fn0["name"], nname))
                break
    chk.floor(R5, 10)

    # ------------------------------------------------------------------ R16.3 loader validity checks
    R3 = chk.rule("R16.3", "Load tests the header's validity and the version predicate (clearing and returning non-zero) before any "
                           "block is read; `valid = true` is the last statement of NiHeader::Get; on the load path every subscript "
                           "of a header table by a value read from another header table is range-guarded")
    import c15
    load = [f for f in F.fn_named("nifly::NifFile::Load") if "istream" in f["id"]]
    chk.require(len(load) == 1, "NifFile::Load(std::istream&) not found")
    load = load[0]

    class L(flow.Flow):
        def __init__(self, *a):
            super().__init__(*a)
            self.sites = []

        def on_node(self, n, st):
            if st is None:
                return st
            if n["k"] == "Call" and n.get("short") == "Load" and "NiFactory" in (n.get("cls") or "") and not self.muted:
                self.sites.append((n, st))
            if n["k"] == "Call" and n.get("short") == "make_unique" and any("NiUnknown" in str(t) for t in n.get("targs", [])) and not self.muted:
                self.sites.append((n, st))
            return st

    l = L(F, load)
    l.run()
    chk.require(len(l.sites) >= 2, "block construction sites in Load not recognised")
    for n, st in l.sites:
        valid = any(f[0] == "G" and "IsValid" in f[1] and f[2] is True for f in st)
        version_ok = any(f[0] == "G" and f[2] is True and "IsOB()" in f[1] and "||" in f[1] for f in st)
        ok = valid and version_ok
        chk.instance(R3, ok=ok, sample={"site": show(n)[:50], "after_IsValid": valid, "after_version_test": version_ok})
        if not ok:
            chk.violation("R16.3", "C16/R16.3:Load:%s" % ("valid" if not valid else "version"), where(load, n),
                          "Load reads a block without having %s first" % ("checked hdr.IsValid()" if not valid else "rejected unsupported versions"))
    get = F.fn1("nifly::NiHeader::Get")
    assigns = [n for n in walk(get["body"]) if n["k"] == "Assign" and show(n["l"]) == "valid"]
    last = get["body"]["body"][-1] if get["body"].get("body") else None
    ok = len(assigns) == 1 and last is assigns[0] and assigns[0]["r"].get("val") == 1
    chk.instance(R3, ok=ok, sample={"NiHeader::Get": "valid = true is the final statement", "ok": ok})
    if not ok:
        chk.violation("R16.3", "C16/R16.3:NiHeader::Get:valid", where(get),
                      "NiHeader::Get must mark the header valid only as its very last statement (a truncated header stays invalid)")
    load_reach = F.reachable([load["id"]])
    for fn, n, sidx, kind, ok, note in c15.header_range_guards(F):
        if note or kind != "table-derived" or fn["id"] not in load_reach:
            continue
        chk.instance(R3, ok=ok, sample={"fn": fn["name"], "index": sidx})
        if not ok:
            chk.violation("R16.3", "C16/R16.3:%s:%s" % (fn["name"], sidx), where(fn, n),
                          "%s (on the load path) subscripts a header table with `%s`, a value read from another header table, "
                          "without an upper-bound test: a file cut between the two tables leaves the second one empty" % (fn["name"], sidx))
    # the other half of "whatever was loaded can be saved": a reference index cut in the middle of its four bytes is neither empty
    # nor a block number, so header-table subscripts by a reference index on the save path need their upper-bound test too
    save_reach = set()
    for sv in [f for f in F.fns.values() if f.get("cls") == "nifly::NifFile" and f["short"] == "Save" and f.get("body")]:
        save_reach |= F.reachable([sv["id"]])
    for fn, n, sidx, kind, ok, note in c15.header_range_guards(F):
        if note or kind != "ref" or fn["id"] not in save_reach:
            continue
        chk.instance(R3, ok=ok, sample={"fn": fn["name"], "index": sidx, "path": "save"})
        if not ok:
            chk.violation("R16.3", "C16/R16.3:%s:%s" % (fn["name"], sidx), where(fn, n),
                          "%s (on the save path) subscripts a table with the reference index `%s` without an upper-bound test: a "
                          "reference cut in the middle of its bytes by a truncated file is neither empty nor a valid block number, so "
                          "saving what was loaded reads past the table" % (fn["name"], sidx))
    chk.floor(R3, 5)

    # ---------------------------------------------------------------- R16.4 (= C15 R15.1 on the same facts)
    chk.share(F, "c15", ["R15.1", "R15.5"], "R16.4",
              "a truncated file leaves references half read or pointing at blocks that were never read: every block lookup on the "
              "load / query / save paths is tested before it is dereferenced, and an index into a block's array is tested against "
              "that array (not against a sibling list that a cut can leave longer)")
    chk.floor("R16.4", 150)

    # ---------------------------------------------------------------- R16.6
    R6 = chk.rule("R16.6", "whatever a load leaves behind can be saved: on every path through the public NifFile functions that reset "
                           "the header (Load, Clear, Create, CopyFrom) the header's pointer to the model's block vector is re-established "
                           "after the last NiHeader::Clear (which nulls it) — Save and the string-table update dereference it")
    HDR = "nifly::NiHeader"
    memo6 = {}

    def ref_state(fn, depth=0):
        """set of possible final states {'set', 'null', 'same'} of the header's block pointer over the exits of fn"""
        if fn["id"] in memo6:
            return memo6[fn["id"]]
        memo6[fn["id"]] = {"same"}

        class T(flow.Flow):
            def on_node(self, n, st):
                if st is None or n["k"] != "Call":
                    return st
                if n.get("fn") == HDR + "::Clear":
                    return frozenset(f for f in st if f[0] != "D" or not f[1].startswith("ref:")) | {("D", "ref:null")}
                if n.get("fn") == HDR + "::SetBlockReference":
                    return frozenset(f for f in st if f[0] != "D" or not f[1].startswith("ref:")) | {("D", "ref:set")}
                g = F.fns.get(n.get("fid"))
                if g and g.get("cls") == "nifly::NifFile" and g.get("body") and depth < 4 and g["id"] != fn["id"] and \
                        (n.get("recv") is None or n["recv"]["k"] == "This"):
                    sub = ref_state(g, depth + 1)
                    if sub == {"set"}:
                        return frozenset(f for f in st if f[0] != "D" or not f[1].startswith("ref:")) | {("D", "ref:set")}
                    if "null" in sub:
                        return frozenset(f for f in st if f[0] != "D" or not f[1].startswith("ref:")) | {("D", "ref:null")}
                return st

        t = T(F, fn)
        t.run()
        out = set()
        for _, _, st in t.exits:
            tags = {f[1][4:] for f in (st or ()) if f[0] == "D" and f[1].startswith("ref:")}
            out |= tags or {"same"}
        memo6[fn["id"]] = out or {"same"}
        return memo6[fn["id"]]

    n6 = 0
    for fn in sorted(F.fns.values(), key=lambda f: f["id"]):
        if fn.get("cls") != "nifly::NifFile" or fn.get("access") != "public" or fn.get("tmpl") == "pattern" or not fn.get("body"):
            continue
        reach = F.reachable([fn["id"]]) | {fn["id"]}
        if not any(F.fns.get(r, {}).get("name") == HDR + "::Clear" for r in reach):
            continue
        memo6.clear()
        stt = ref_state(fn)
        ok = "null" not in stt
        n6 += 1
        chk.instance(R6, ok=ok, sample={"fn": fn["name"], "block_pointer_at_exits": sorted(stt)})
        if not ok:
            chk.violation("R16.6", "C16/R16.6:%s" % fn["name"], where(fn),
                          "%s can return with the header's block-vector pointer null (NiHeader::Clear was the last thing to touch "
                          "it): a Save of what the load left behind (an error exit leaves an empty model) dereferences the null "
                          "pointer in UpdateHeaderStrings" % fn["name"])
    chk.floor(R6, 3)

    # ---------------------------------------------------------------- R16.7
    R7 = chk.rule("R16.7", "one-sided size checks: in code reachable from Load / Save / CopyFrom, when a function tests the size of one of "
                           "its vector parameters, every other vector parameter it indexes by the variable of a counted loop is either "
                           "the one the loop is bounded by or has its own size tested before the loop — the arrays handed in come from "
                           "the loaded model, where a short read can leave one of a pair sized and the other empty")
    lroots = [f["id"] for f in F.fns.values() if f.get("cls") == "nifly::NifFile" and f["short"] in ("Load", "Save", "CopyFrom")]
    lscope = F.reachable(lroots)

    def _peel7(e):
        while is_node(e) and e["k"] == "Cast":
            e = e["e"]
        return e

    def _root_param(b, vp):
        b = _peel7(b)
        while is_node(b) and ((b["k"] == "Unary" and b["op"] == "*") or (b["k"] == "OpCall" and b.get("op") in ("*", "->") and b.get("args"))):
            b = _peel7(b["e"] if b["k"] == "Unary" else b["args"][0])
        return b["id"] if is_node(b) and b["k"] == "Ref" and b.get("id") in vp else None

    n7 = 0
    for fid in sorted(lscope):
        fn = F.fns.get(fid)
        if not fn or not fn.get("body") or fn.get("tmpl") == "pattern" or not (fn.get("file") or "").startswith(("src/", "include/")):
            continue
        vp = {p_["id"]: p_ for p_ in fn.get("params", []) if "std::vector<" in (p_.get("ct") or p_.get("t") or "")}
        if len(vp) < 2:
            continue
        render = F.expander(fn)[0]
        sized = {}  # param id -> location key of the first size comparison

        def _note_sizes(cond, at):
            for x in walk(cond):
                if x["k"] == "Binary" and x["op"] in ("==", "!=", "<", ">", "<=", ">="):
                    for a in (x["l"], x["r"]):
                        a = _peel7(a)
                        # through locals defined once: `const size_t n = tangents->size(); if (n != ...)`
                        for y in walk({"k": "Tuple", "args": [a]}):
                            pass
                        txt = render(a)
                        for pid_, p_ in vp.items():
                            if ("%s->size()" % p_["name"]) in txt or ("%s.size()" % p_["name"]) in txt:
                                sized.setdefault(pid_, at)

        order = list(walk(fn["body"]))
        pos = {id(x): i_ for i_, x in enumerate(order)}
        for x in order:
            if x["k"] == "If" and is_node(x.get("cond")):
                _note_sizes(x["cond"], pos[id(x)])
        if not sized:
            continue
        for lp in order:
            if lp["k"] != "For":
                continue
            bound = flow.counted_loop(lp)
            if bound is None:
                continue
            lv = lp["init"]["vars"][0]["id"]
            btxt = render(bound)
            for x in walk(lp.get("body") or {}):
                base = idx = None
                if x["k"] == "Subscript":
                    base, idx = x["base"], x["idx"]
                elif x["k"] == "OpCall" and x.get("op") == "[]" and len(x.get("args", [])) == 2:
                    base, idx = x["args"]
                elif x["k"] == "Call" and x.get("short") == "at" and is_node(x.get("recv")) and x.get("args"):
                    base, idx = x["recv"], x["args"][0]
                if base is None:
                    continue
                q = _root_param(base, vp)
                i_ = _peel7(idx)
                if q is None or not (is_node(i_) and i_["k"] == "Ref" and i_.get("id") == lv):
                    continue
                qn = vp[q]["name"]
                own = ("%s->size()" % qn) in btxt or ("%s.size()" % qn) in btxt
                tested = q in sized and sized[q] < pos[id(lp)]
                others = [vp[o]["name"] for o in sized if o != q]
                if not others:
                    continue
                n7 += 1
                ok = own or tested
                chk.instance(R7, ok=ok, sample={"fn": fn["name"], "indexed": qn, "loop_bound": btxt, "size_tested_params": others})
                if not ok:
                    chk.violation("R16.7", "C16/R16.7:%s:%s" % (fn["name"].split("(")[0], qn), where(fn, x),
                                  "%s tests the size of `%s` but indexes `%s` by a loop bounded by `%s` without testing its size: "
                                  "after a short read the two arrays of the pair can differ in length (one sized, one empty), and "
                                  "the save of what was loaded reads past the shorter one / throws" %
                                  (fn["name"], "`, `".join(others), qn, btxt))
    chk.floor(R7, 2)

    # ---------------------------------------------------------------- R16.8
    R8 = chk.rule("R16.8", "a Load that gives up leaves an empty model: once NiHeader::Get has filled the header (block count, type table) "
                           "every return of NifFile::Load with a non-zero code is preceded, on its path, by Clear() — a header that "
                           "announces N blocks over an empty block list makes the next query or Save index past it")
    loads8 = [f for f in F.fn_named("nifly::NifFile::Load") if "istream" in f["id"] and f.get("body")]
    if len(loads8) != 1:
        raise report.Broken("R16.8: NifFile::Load(std::istream&, ...) not found")
    ld = F.inl(loads8[0])

    class ErrExit(flow.Flow):
        def on_node(self, n, st):
            if st is None or n["k"] != "Call":
                return st
            if n.get("fn") == "nifly::NiHeader::Get":
                return st | {("D", "header read")}
            if n.get("fn") == "nifly::NifFile::Clear" and (n.get("recv") is None or n["recv"]["k"] == "This"):
                return frozenset(f for f in st if f != ("D", "header read"))
            return st

    ee = ErrExit(F, ld)
    ee.run()
    n8 = 0
    for kind, node, st in ee.exits:
        if kind != "return" or not is_node(node) or st is None or st is flow.BOT:
            continue
        rv = node.get("e")
        while is_node(rv) and rv["k"] == "Cast":
            rv = rv["e"]
        via_lambda = None
        if is_node(rv) and rv["k"] == "OpCall" and rv.get("op") == "()" and rv.get("args") and is_node(rv["args"][0]) and rv["args"][0]["k"] == "Ref":
            # `return fail(2);` with `auto fail = [&](int code) { Clear(); return code; };`
            for d_ in walk(ld["body"]):
                if d_["k"] == "Decl":
                    for v_ in d_.get("vars", []):
                        i_ = v_.get("init")
                        while is_node(i_) and i_["k"] in ("Cast", "Construct") and (i_.get("e") is not None or len(i_.get("args", [])) == 1):
                            i_ = i_["e"] if i_.get("e") is not None else i_["args"][0]
                        if v_["id"] == rv["args"][0].get("id") and is_node(i_) and i_["k"] == "Lambda" and i_.get("fid") in F.fns:
                            via_lambda = F.fns[i_["fid"]]
        if via_lambda is not None:
            n8 += 1
            ok = any(x["k"] == "Call" and x.get("fn") == "nifly::NifFile::Clear" for x in walk(via_lambda.get("body") or {})) or \
                ("D", "header read") not in st
            chk.instance(R8, ok=ok, sample={"fn": "NifFile::Load", "returns": "through a local lambda", "at": node.get("loc")})
            if not ok:
                chk.violation("R16.8", "C16/R16.8:Load:return via lambda", where(loads8[0], node),
                              "NifFile::Load returns an error code through a local lambda that does not clear the model, after "
                              "NiHeader::Get has filled the header")
            continue
        if not (is_node(rv) and isinstance(rv.get("val"), int) and rv["val"] != 0):
            continue
        n8 += 1
        ok = ("D", "header read") not in st
        chk.instance(R8, ok=ok, sample={"fn": "NifFile::Load", "returns": rv["val"], "at": node.get("loc")})
        if not ok:
            chk.violation("R16.8", "C16/R16.8:Load:return %s" % rv["val"], where(loads8[0], node),
                          "NifFile::Load returns %s after NiHeader::Get has filled the header without clearing the model: the header "
                          "keeps announcing blocks that were never read, and the next query or Save of what the load left behind "
                          "indexes the empty block list" % rv["val"])
    chk.floor(R8, 3)

    # ---------------------------------------------------------------- R16.9
    R9 = chk.rule("R16.9", "on the load path a text-to-number conversion that throws on malformed input (std::stoi and relatives) is applied "
                           "only to text a pattern has already validated — a match of a std::regex search — or inside a try block: a "
                           "header line cut in the middle of the version number must end in an error code, not in an exception leaving "
                           "Load")
    load_reach = F.reachable([loads8[0]["id"]]) | {loads8[0]["id"]}
    n9 = 0
    for fid in sorted(load_reach):
        g = F.fns.get(fid)
        if not g or not g.get("body") or not (g.get("file") or "").startswith(("src/", "include/")):
            continue
        tries = [t for t in walk(g["body"]) if t["k"] == "Try"]
        in_try = {id(x) for t in tries for x in walk(t.get("body") or {})}
        match_vars = set()
        for d in walk(g["body"]):
            if d["k"] == "Decl":
                for v in d.get("vars", []):
                    if "match_results" in (v.get("ct") or v.get("t") or "") or "smatch" in (v.get("t") or "") or "cmatch" in (v.get("t") or ""):
                        match_vars.add(v["id"])
        for n in walk(g["body"]):
            if not (n["k"] == "Call" and n.get("ext") and (n.get("short") or "") in ("stoi", "stol", "stoll", "stoul", "stoull", "stof", "stod", "stold")
                    and n.get("args")):
                continue
            n9 += 1
            validated = any(x["k"] == "Ref" and x.get("id") in match_vars for x in walk(n["args"][0]))
            ok = validated or id(n) in in_try
            chk.instance(R9, ok=ok, sample={"fn": g["name"], "call": show(n)[:60], "validated_by": "regex match" if validated else ("try" if ok else None)})
            if not ok:
                chk.violation("R16.9", "C16/R16.9:%s:%s" % (g["name"].split("(")[0], n["short"]), where(g, n),
                              "%s converts `%s` with std::%s on the load path; the text is not a regex match and the call is not inside "
                              "a try block: for a file cut inside that number the conversion throws (std::invalid_argument) and the "
                              "exception leaves Load" % (g["name"], show(n["args"][0])[:50], n["short"]))
    chk.floor(R9, 1)

    # ---------------------------------------------------------------- R16.10
    R10 = chk.rule("R16.10", "in code reachable from Load / Save / CopyFrom, `front()` / `back()` of a member container is taken only under a "
                             "test of that container's emptiness or size: a block that a short read left without elements (count 0, "
                             "presence flag still set) must not have its first element read when the model is saved")
    import pairing as _pairing10
    n10 = 0
    for fid in sorted(lscope):
        fn = F.fns.get(fid)
        if not fn or not fn.get("body") or fn.get("tmpl") == "pattern" or not (fn.get("file") or "").startswith(("src/", "include/")):
            continue
        calls = [n for n in walk(fn["body"]) if n["k"] == "Call" and n.get("ext") and n.get("short") in ("front", "back")
                 and is_node(n.get("recv")) and not n.get("args") and n["recv"]["k"] == "Member"]
        if not calls:
            continue
        sig = _pairing10.guard_sig(F, fn, calls)
        for n in calls:
            c = show(n["recv"])
            keys = [k for k, p_ in sig.get(id(n), ())]
            ok = any(c in k and ("empty()" in k or "size()" in k) for k in keys)
            n10 += 1
            chk.instance(R10, ok=ok, sample={"fn": fn["name"], "call": show(n)[:60]})
            if not ok:
                chk.violation("R16.10", "C16/R16.10:%s:%s" % (fn["name"].split("(")[0], c), where(fn, n),
                              "%s takes `%s` without a test of `%s.empty()` / its size on the path: for a block loaded from a "
                              "truncated file (no elements, flags still set) saving what was loaded reads the first element of an "
                              "empty container" % (fn["name"], show(n)[:50], c))
    chk.floor(R10, 2)


def _pos_guard(st, d):
    """divisor proven >= 1 by a comparison fact like (0 < d) or !(d < 1)"""
    if st is None:
        return True
    s = show(d)
    for f in st:
        if f[0] != "G":
            continue
        if f[1] == "(0 < %s)" % s and f[2]:
            return True
        if f[1] == "(%s < 1)" % s and not f[2]:
            return True
        if f[1] == "(0 == %s)" % s and not f[2]:
            return True
        if f[1] == "(%s == 0)" % s and not f[2]:
            return True
    return False
