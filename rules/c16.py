"""C16 — truncated files never crash the loader (DESIGN §5 C16): divisor guards, resize-before-index, loader checks."""
from facts import is_node, walk, where, show
import flow

INT_TYPES = ("int", "unsigned", "long", "short", "char", "uint", "size_t", "bool")


def is_integral(e):
    t = (e.get("ct") or e.get("t") or "")
    t = t.replace("const ", "").strip()
    if "float" in t or "double" in t or "half" in t:
        return False
    return any(x in t for x in INT_TYPES)


def run(F, chk):
    R1 = chk.rule("R16.1", "every integer division / modulo whose divisor is not a non-zero compile-time constant is "
                           "dominated by a test that makes the divisor non-zero")
    reach = None
    for fn in F.fns.values():
        if fn.get("tmpl") == "pattern":
            continue
        body = fn.get("body")
        if not is_node(body):
            continue
        divs = [n for n in walk(body) if n["k"] in ("Binary", "Assign") and n["op"] in ("/", "%", "/=", "%=")
                and is_node(n["r"]) and is_integral(n["r"]) and is_integral(n["l"])]
        if not divs:
            continue
        ids = set(id(n) for n in divs)
        col = flow.Collect(F, fn, lambda n: id(n) in ids)
        col.run()
        seen = set()
        for n, sts in col.by_node():
            seen.add(id(n))
            d = n["r"]
            if d.get("val") is not None:
                chk.instance(R1, ok=d["val"] != 0, nontrivial=False)
                if d["val"] == 0:
                    chk.violation("R16.1", "C16/R16.1:%s:%s" % (fn["name"], show(d)), where(fn, n), "division by constant zero")
                continue
            key = show(d)
            ok = all(flow.has_guard(st, key, True) or _pos_guard(st, d) for st in sts)
            chk.instance(R1, ok=ok, sample={"fn": fn["name"], "divisor": key, "guards": flow.guards(sts[0])[:4]})
            if not ok:
                chk.violation("R16.1", "C16/R16.1:%s:%s" % (fn["name"], key), where(fn, n),
                              "integer division by `%s` in %s is not dominated by a non-zero test of the divisor "
                              "(a truncated or crafted file leaves it 0 -> SIGFPE)" % (key, fn["name"]),
                              {"guards": flow.guards(sts[0])})
        for n in divs:
            if id(n) not in seen:
                chk.instance(R1, ok=True, nontrivial=False)  # unreachable under folded constants
    chk.floor(R1, 2)


def _pos_guard(st, d):
    """divisor proven >= 1 by a comparison fact like (0 < d) or !(d < 1)"""
    if st is None:
        return True
    s = show(d)
    for f in st:
        if f[0] != "G":
            continue
        if f[1] == "(0 < %s)" % s and f[2]:
            return True
        if f[1] == "(%s < 1)" % s and not f[2]:
            return True
        if f[1] == "(0 == %s)" % s and not f[2]:
            return True
        if f[1] == "(%s == 0)" % s and not f[2]:
            return True
    return False
