"""C16 — truncated files never crash the loader (DESIGN §5 C16): divisor guards, resize-before-index, loader checks."""
from facts import is_node, walk, where, show
import flow

INT_TYPES = ("int", "unsigned", "long", "short", "char", "uint", "size_t", "bool")


def is_integral(e):
    t = (e.get("ct") or e.get("t") or "")
    t = t.replace("const ", "").strip()
    if "float" in t or "double" in t or "half" in t:
        return False
    return any(x in t for x in INT_TYPES)


def run(F, chk):
    R1 = chk.rule("R16.1", "every integer division / modulo whose divisor is not a non-zero compile-time constant is "
                           "dominated by a test that makes the divisor non-zero")
    reach = None
    for fn in F.fns.values():
        if fn.get("tmpl") == "pattern":
            continue
        body = fn.get("body")
        if not is_node(body):
            continue
        divs = [n for n in walk(body) if n["k"] in ("Binary", "Assign") and n["op"] in ("/", "%", "/=", "%=")
                and is_node(n["r"]) and is_integral(n["r"]) and is_integral(n["l"])]
        if not divs:
            continue
        ids = set(id(n) for n in divs)
        col = flow.Collect(F, fn, lambda n: id(n) in ids)
        col.run()
        seen = set()
        for n, sts in col.by_node():
            seen.add(id(n))
            d = n["r"]
            if d.get("val") is not None:
                chk.instance(R1, ok=d["val"] != 0, nontrivial=False)
                if d["val"] == 0:
                    chk.violation("R16.1", "C16/R16.1:%s:%s" % (fn["name"], show(d)), where(fn, n), "division by constant zero")
                continue
            key = show(d)
            ok = all(flow.has_guard(st, key, True) or _pos_guard(st, d) for st in sts)
            chk.instance(R1, ok=ok, sample={"fn": fn["name"], "divisor": key, "guards": flow.guards(sts[0])[:4]})
            if not ok:
                chk.violation("R16.1", "C16/R16.1:%s:%s" % (fn["name"], key), where(fn, n),
                              "integer division by `%s` in %s is not dominated by a non-zero test of the divisor "
                              "(a truncated or crafted file leaves it 0 -> SIGFPE)" % (key, fn["name"]),
                              {"guards": flow.guards(sts[0])})
        for n in divs:
            if id(n) not in seen:
                chk.instance(R1, ok=True, nontrivial=False)  # unreachable under folded constants
    chk.floor(R1, 2)

    # ------------------------------------------------------------------ R16.3 loader validity checks
    R3 = chk.rule("R16.3", "Load tests the header's validity and the version predicate (clearing and returning non-zero) before any "
                           "block is read; `valid = true` is the last statement of NiHeader::Get; on the load path every subscript "
                           "of a header table by a value read from another header table is range-guarded")
    import c15
    load = [f for f in F.fn_named("nifly::NifFile::Load") if "istream" in f["id"]]
    chk.require(len(load) == 1, "NifFile::Load(std::istream&) not found")
    load = load[0]

    class L(flow.Flow):
        def __init__(self, *a):
            super().__init__(*a)
            self.sites = []

        def on_node(self, n, st):
            if st is None:
                return st
            if n["k"] == "Call" and n.get("short") == "Load" and "NiFactory" in (n.get("cls") or "") and not self.muted:
                self.sites.append((n, st))
            if n["k"] == "Call" and n.get("short") == "make_unique" and any("NiUnknown" in str(t) for t in n.get("targs", [])) and not self.muted:
                self.sites.append((n, st))
            return st

    l = L(F, load)
    l.run()
    chk.require(len(l.sites) >= 2, "block construction sites in Load not recognised")
    for n, st in l.sites:
        valid = any(f[0] == "G" and "IsValid" in f[1] and f[2] is True for f in st)
        version_ok = any(f[0] == "G" and f[2] is True and "IsOB()" in f[1] and "||" in f[1] for f in st)
        ok = valid and version_ok
        chk.instance(R3, ok=ok, sample={"site": show(n)[:50], "after_IsValid": valid, "after_version_test": version_ok})
        if not ok:
            chk.violation("R16.3", "C16/R16.3:Load:%s" % ("valid" if not valid else "version"), where(load, n),
                          "Load reads a block without having %s first" % ("checked hdr.IsValid()" if not valid else "rejected unsupported versions"))
    get = F.fn1("nifly::NiHeader::Get")
    assigns = [n for n in walk(get["body"]) if n["k"] == "Assign" and show(n["l"]) == "valid"]
    last = get["body"]["body"][-1] if get["body"].get("body") else None
    ok = len(assigns) == 1 and last is assigns[0] and assigns[0]["r"].get("val") == 1
    chk.instance(R3, ok=ok, sample={"NiHeader::Get": "valid = true is the final statement", "ok": ok})
    if not ok:
        chk.violation("R16.3", "C16/R16.3:NiHeader::Get:valid", where(get),
                      "NiHeader::Get must mark the header valid only as its very last statement (a truncated header stays invalid)")
    load_reach = F.reachable([load["id"]])
    for fn, n, sidx, kind, ok, note in c15.header_range_guards(F):
        if note or kind != "table-derived" or fn["id"] not in load_reach:
            continue
        chk.instance(R3, ok=ok, sample={"fn": fn["name"], "index": sidx})
        if not ok:
            chk.violation("R16.3", "C16/R16.3:%s:%s" % (fn["name"], sidx), where(fn, n),
                          "%s (on the load path) subscripts a header table with `%s`, a value read from another header table, "
                          "without an upper-bound test: a file cut between the two tables leaves the second one empty" % (fn["name"], sidx))
    chk.floor(R3, 4)


def _pos_guard(st, d):
    """divisor proven >= 1 by a comparison fact like (0 < d) or !(d < 1)"""
    if st is None:
        return True
    s = show(d)
    for f in st:
        if f[0] != "G":
            continue
        if f[1] == "(0 < %s)" % s and f[2]:
            return True
        if f[1] == "(%s < 1)" % s and not f[2]:
            return True
        if f[1] == "(0 == %s)" % s and not f[2]:
            return True
        if f[1] == "(%s == 0)" % s and not f[2]:
            return True
    return False
