"""C12 — LE<->SE conversion preserves geometry and skinning and yields a valid file (DESIGN §5 C12, thin partial).

Decided: transfer completeness (both conversion directions copy the same set of shape attributes, covering every
reference the shape's base classes enumerate) and the must-calls around block replacement.  Geometry, weight and colour
preservation and there-and-back equivalence are numeric and not decided."""
from facts import is_node, walk, where, show
import flow
import paths
import c05

NIF = "nifly::NifFile"


def _root_name(e):
    while is_node(e):
        k = e["k"]
        if k == "Ref":
            return e["name"]
        if k in ("Member",):
            e = e.get("base")
        elif k == "Subscript":
            e = e["base"]
        elif k in ("Cast",):
            e = e["e"]
        elif k == "Unary" and e["op"] in ("*", "&"):
            e = e["e"]
        elif k == "OpCall" and e.get("op") in ("*", "->") and e.get("args"):
            e = e["args"][0]
        elif k == "Call" and e.get("recv") is not None:
            e = e["recv"]
        else:
            return None
    return None


def _attr(e):
    """the attribute of the shape an access expression names: first member / accessor after the root"""
    chain = []
    while is_node(e):
        k = e["k"]
        if k == "Member":
            chain.append(e["name"])
            e = e.get("base")
        elif k == "Call" and e.get("recv") is not None:
            chain.append(e.get("short") + "()")
            e = e["recv"]
        elif k in ("Cast",):
            e = e["e"]
        elif k == "Unary" and e["op"] in ("*", "&"):
            e = e["e"]
        elif k == "OpCall" and e.get("op") in ("*", "->") and e.get("args"):
            e = e["args"][0]
        elif k == "Subscript":
            e = e["base"]
        else:
            break
    chain = [c for c in chain if c not in ("get()", "index")]
    return chain[-1] if chain else None


def _terrain_value(e, assume):
    """truth value of a condition built only from the model's isTerrain flag and literals, else None"""
    if not is_node(e):
        return None
    k = e["k"]
    if k == "Member" and e.get("name") == "isTerrain" and e.get("owner") == NIF:
        return assume
    if k == "Lit" and e.get("lk") in ("bool", "int"):
        return bool(e.get("val"))
    if k == "Cast":
        return _terrain_value(e["e"], assume)
    if k == "Unary" and e["op"] == "!":
        v = _terrain_value(e["e"], assume)
        return None if v is None else (not v)
    if k == "Binary" and e["op"] in ("==", "!="):
        a, b = _terrain_value(e["l"], assume), _terrain_value(e["r"], assume)
        if a is None or b is None:
            return None
        return (a == b) if e["op"] == "==" else (a != b)
    return None


def run(F, chk):
    R1 = chk.rule("R12.1", "OptimizeFor copies the same set of shape attributes from the old shape to the new one in both conversion "
                           "directions, covering every reference enumerated by the shape's base classes and the shape's own "
                           "reference accessors (the data reference is rebuilt)")
    R2 = chk.rule("R12.2", "duplicate shape names are resolved before conversion on every non-terrain path; UpdateSkinPartitions "
                           "follows every replacement of a shape; unreferenced blocks are pruned after each conversion loop")
    fn = F.fn1("nifly::NifFile::OptimizeFor")
    transfers = []
    for n in walk(fn["body"]):
        tgt = src = None
        if n["k"] == "Assign" and n["op"] == "=":
            tgt, src = n["l"], n["r"]
        elif n["k"] == "OpCall" and n.get("op") == "=" and len(n.get("args", [])) == 2:
            tgt, src = n["args"]
        elif n["k"] == "Call" and (n.get("short") or "").startswith("Set") and is_node(n.get("recv")) and n.get("args"):
            if _root_name(n["recv"]) == "bsOptShape" and any(_root_name(a) == "shape" for a in n["args"]):
                a0 = [a for a in n["args"] if _root_name(a) == "shape"][0]
                transfers.append((n, n["short"][3:], _attr(a0)))
            continue
        if tgt is None:
            continue
        if _root_name(tgt) == "bsOptShape" and _root_name(src) == "shape":
            transfers.append((n, _attr(tgt), _attr(src)))
    ids = {id(n) for n, _, _ in transfers}
    col = flow.Collect(F, fn, lambda n: id(n) in ids)
    col.run()
    branch = {}
    for n, sts in col.by_node():
        b = None
        if all(flow.has_guard(st, "toSSE", True) for st in sts):
            b = "toSSE"
        elif all(flow.has_guard(st, "toLE", True) or flow.has_guard(st, "toSSE", False) for st in sts):
            b = "toLE"
        branch[id(n)] = b
    sets = {"toSSE": set(), "toLE": set()}
    for n, a, s in transfers:
        b = branch.get(id(n))
        if b:
            sets[b].add((a or "?").replace("()", ""))
    chk.extra["transferred"] = {k: sorted(v) for k, v in sets.items()}
    chk.require(len(sets["toSSE"]) >= 6 and len(sets["toLE"]) >= 6,
                "attribute transfers of OptimizeFor not recognised (toSSE %d, toLE %d)" % (len(sets["toSSE"]), len(sets["toLE"])))
    for a in sorted(sets["toSSE"] | sets["toLE"]):
        ok = a in sets["toSSE"] and a in sets["toLE"]
        chk.instance(R1, ok=ok, sample={"attribute": a, "toSSE": a in sets["toSSE"], "toLE": a in sets["toLE"]})
        if not ok:
            miss = "LE -> SE" if a not in sets["toSSE"] else "SE -> LE"
            chk.violation("R12.1", "C12/R12.1:%s:%s" % (a, "toSSE" if a not in sets["toSSE"] else "toLE"), where(fn),
                          "OptimizeFor transfers `%s` from the old shape in one conversion direction but not in the other (%s): "
                          "the converted shape loses it" % (a, miss))
    # coverage of the enumerated references of NiAVObject / NiObjectNET and the NiShape accessors
    E = paths.Summarizer(F, c05.enum_primitive)
    need = set()
    for q in ("nifly::NiAVObject::GetChildRefs", "nifly::NiAVObject::GetPtrs"):
        for f in F.fn_named(q, required=False):
            for ev in E.events(f["id"]):
                if ev.path and ev.path[0][0] == "this" and len(ev.path) > 1:
                    need.add(ev.path[1])
    shape = F.recs.get("nifly::NiShape") or {}
    for m in shape.get("methods", []):
        if m["short"].endswith("Ref") and m.get("virtual") and m["short"] != "DataRef":
            need.add(m["short"])
    for a in sorted(need):
        for b in ("toSSE", "toLE"):
            ok = a in sets[b]
            chk.instance(R1, ok=ok, sample={"reference": a, "direction": b})
            if not ok:
                chk.violation("R12.1", "C12/R12.1:ref:%s:%s" % (a, b), where(fn),
                              "the %s conversion does not carry the shape's `%s` over to the new shape: the referenced block is "
                              "orphaned and pruned" % (b, a))
    chk.floor(R1, 14)

    # ---------------------------------------------------------------- R12.3
    R3 = chk.rule("R12.3", "both conversion directions update the same members of the shape's skin blocks (derived state such as the "
                           "partition index convention must be re-established whichever way the shape is converted)")
    skin_classes = set(n for n, r in F.recs.items() if r.get("file") == "include/Skin.hpp" and r.get("tmpl") is None
                       and F.derives_from(n, "nifly::NiObject"))
    chk.require(len(skin_classes) >= 4, "skin block classes not found")
    sk = []
    for n in walk(fn["body"]):
        tgt = None
        if n["k"] == "Assign":
            tgt = n["l"]
        elif n["k"] == "OpCall" and n.get("op") == "=" and n.get("args"):
            tgt = n["args"][0]
        m = tgt
        while is_node(m) and m["k"] in ("Subscript", "Cast"):
            m = m.get("base") if m["k"] == "Subscript" else m["e"]
        if is_node(m) and m["k"] == "Member" and m.get("mk") == "field" and m.get("owner") in skin_classes:
            sk.append((n, "%s::%s" % (m["owner"], m["name"])))
    ids3 = {id(n) for n, _ in sk}
    col3 = flow.Collect(F, fn, lambda n: id(n) in ids3)
    col3.run()
    by = {"toSSE": set(), "toLE": set()}
    name_of = {id(n): nm for n, nm in sk}
    for n, sts in col3.by_node():
        if all(flow.has_guard(st, "toSSE", True) for st in sts):
            by["toSSE"].add(name_of[id(n)])
        elif all(flow.has_guard(st, "toLE", True) or flow.has_guard(st, "toSSE", False) for st in sts):
            by["toLE"].add(name_of[id(n)])
    chk.extra["skin_state_updated"] = {k: sorted(v) for k, v in by.items()}
    for mname in sorted(by["toSSE"] | by["toLE"]):
        ok = mname in by["toSSE"] and mname in by["toLE"]
        chk.instance(R3, ok=ok, sample={"member": mname, "toSSE": mname in by["toSSE"], "toLE": mname in by["toLE"]})
        if not ok:
            miss = "LE -> SE" if mname not in by["toSSE"] else "SE -> LE"
            chk.violation("R12.3", "C12/R12.3:%s:%s" % (mname, "toSSE" if mname not in by["toSSE"] else "toLE"), where(fn),
                          "OptimizeFor re-establishes %s when converting in one direction but not in the other (%s): the skin "
                          "block keeps the state of the source format" % (mname, miss))
    chk.floor(R3, 1)

    # ---------------------------------------------------------------- R12.2
    def make(assume_terrain):
        class M(flow.Flow):
            def const_cond(self, e):
                r = flow.Flow.const_cond(self, e)
                if r is not None:
                    return r
                return _terrain_value(e, assume_terrain)

            def on_node(self, n, st):
                if st is None or n["k"] != "Call":
                    return st
                if n.get("fn") == "nifly::NifFile::RenameDuplicateShapes":
                    return st | {("D", "renamed")}
                if n.get("fn") == "nifly::NiHeader::ReplaceBlock":
                    if not self.muted:
                        ok = ("D", "renamed") in st or assume_terrain
                        sites.append((n, ok))
                    return st | {("O", "partitions")}
                if n.get("fn") == "nifly::NifFile::UpdateSkinPartitions":
                    return frozenset(f for f in st if f != ("O", "partitions"))
                if (n.get("short") or "").startswith("DeleteUnreferencedBlocks"):
                    return st | {("D", "pruned")}
                return st
        return M

    # analysed once for each value of the model's terrain flag (the rename is required only for non-terrain models)
    sites = []
    m_terrain = make(True)(F, fn)
    m_terrain.run()
    sites = []
    m = make(False)(F, fn)
    m.run()
    chk.require(len(sites) >= 2, "fewer than 2 ReplaceBlock sites in OptimizeFor")
    for n, ok in sites:
        chk.instance(R2, ok=ok, sample={"ReplaceBlock_at": n.get("loc"), "after_rename": ok})
        if not ok:
            chk.violation("R12.2", "C12/R12.2:rename:%s" % show(n)[:40], where(fn, n),
                          "a shape is replaced before duplicate shape names were resolved on a non-terrain path")
    pend = any(("O", "partitions") in (st or ()) for _, _, st in m.exits)
    chk.instance(R2, ok=not pend, sample={"UpdateSkinPartitions_after_every_ReplaceBlock": not pend})
    if pend:
        chk.violation("R12.2", "C12/R12.2:partitions", where(fn),
                      "OptimizeFor can replace a shape without rebuilding its skin partitions afterwards")
    # pruning after each conversion loop: the loops that replace blocks are followed by a prune call in the same branch
    for comp in walk(fn["body"]):
        if comp["k"] != "Compound":
            continue
        b = comp["body"]
        for i, s in enumerate(b):
            if s["k"] == "RangeFor" and any(x["k"] == "Call" and x.get("fn") == "nifly::NiHeader::ReplaceBlock" for x in walk(s)):
                ok = any(x["k"] == "Call" and (x.get("short") or "").startswith("DeleteUnreferencedBlocks") for t in b[i + 1:] for x in walk(t))
                chk.instance(R2, ok=ok, sample={"conversion_loop_at": s.get("loc"), "followed_by_prune": ok})
                if not ok:
                    chk.violation("R12.2", "C12/R12.2:prune:%s" % ("toSSE" if i else "loop"), where(fn, s),
                                  "a conversion loop is not followed by DeleteUnreferencedBlocks: the replaced geometry data blocks stay in the file")
    chk.floor(R2, 5)
    # ---------------------------------------------------------------- R12.4 (= C09 R9.7 on the same facts)
    chk.share(F, "c09", ["R9.7"], "R12.4",
              "the conversion triangulates every strip partition before it re-derives the triangle-to-partition assignment: the "
              "per-partition conversion is not made from a short-circuiting accumulation or algorithm predicate")
    chk.floor("R12.4", 0)

    chk.assumptions += ["geometry, weight and colour arithmetic, partition index conventions (bMappedIndices) and there-and-back "
                        "equivalence are numeric and not decided"]
    chk.extra["explanation"] = "sibling agreement of both conversion directions and must-calls around block replacement only"
