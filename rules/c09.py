"""C09 — deleting vertices keeps a shape and its skin data consistent (DESIGN §5 C09)."""
from facts import is_node, walk, where, show
import flow
import report
import paths
from paths import Event, render
import c02

NOTIFY = "notifyVerticesDelete"


def _erase_primitive(n, env, fn, st):
    if n["k"] != "Call":
        return None
    sh = n.get("short") or ""
    if sh.startswith("EraseVectorIndices") and n.get("args"):
        p = env.path(n["args"][0])
        # `EraseVectorIndices(uvSets[0], ...)` erases one element of an array of per-vertex arrays, not all of them: the canonical
        # path (`uvSets[*]`) would claim the whole family
        if any(x["k"] == "Subscript" and is_node(x.get("idx")) and x["idx"].get("val") is not None for x in walk(n["args"][0])):
            return [Event(p, "erase-one", {"fn": fn["name"], "loc": n.get("loc"), "file": fn.get("file")})]
        return [Event(p, "erase", {"fn": fn["name"], "loc": n.get("loc"), "file": fn.get("file")})]
    if n.get("ext"):
        return []
    return None


def collapse_before_erase(F, counter_of=None):
    """(fn, call node, container leaf name, ok) for every GenerateIndexCollapseMap(I, N) whose N is the size / counter of a
    container the same function erases from"""
    out = []
    counter_leaf = {}
    for arr, cnt in (counter_of or {}).items():
        counter_leaf.setdefault(cnt.split(".")[-1], set()).add(arr.split(".")[-1].replace("[*]", ""))
    for fn in sorted(F.fns.values(), key=lambda f: f["id"]):
        if fn.get("tmpl") == "pattern":
            continue
        maps = [n for n in walk(fn.get("body") or {}) if n["k"] == "Call" and (n.get("short") or "").startswith("GenerateIndexCollapseMap")
                and len(n.get("args", [])) == 2]
        if not maps:
            continue
        ids = {id(n) for n in maps}

        class E(flow.Collect):
            def on_node(self, n, st):
                st = flow.Collect.on_node(self, n, st)
                if st is not None and n["k"] == "Call" and (n.get("short") or "").startswith("EraseVectorIndices") and n.get("args"):
                    a = n["args"][0]
                    leaf = show(a).split(".")[-1].split("->")[-1]
                    return st | {("D", "erased:" + leaf)}
                return st

        col = E(F, fn, lambda n: id(n) in ids)
        col.run()
        erased_any = set(show(x["args"][0]).split(".")[-1] for x in walk(fn["body"])
                         if x["k"] == "Call" and (x.get("short") or "").startswith("EraseVectorIndices") and x.get("args"))
        def _lc(x_):
            try:
                a_, b_ = (x_.get("loc") or "0:0").split(":")[:2]
                return (int(a_), int(b_))
            except ValueError:
                return (0, 0)

        for n, sts in col.by_node():
            size_expr = show(n["args"][1])
            # the size may have been taken into a local first (`const size_t oldCount = vertData.size();`): then the moment that
            # counts is the local's definition, not the call
            a1 = n["args"][1]
            while is_node(a1) and a1["k"] == "Cast":
                a1 = a1["e"]
            if is_node(a1) and a1["k"] == "Ref" and a1.get("rk") == "local":
                decl = [v for d in walk(fn["body"]) if d["k"] == "Decl" for v in d.get("vars", []) if v["id"] == a1["id"] and is_node(v.get("init"))]
                if len(decl) == 1:
                    taken = show(decl[0]["init"])
                    for leaf in sorted(erased_any):
                        if ("%s.size()" % leaf) in taken:
                            before = any(x["k"] == "Call" and (x.get("short") or "").startswith("EraseVectorIndices") and x.get("args")
                                         and show(x["args"][0]).split(".")[-1] == leaf and _lc(x) < _lc(decl[0]) for x in walk(fn["body"]))
                            out.append((fn, n, leaf, not before))
                    continue
            conts = set()
            for leaf in erased_any:
                if ("%s.size()" % leaf) in size_expr:
                    conts.add(leaf)
            for cnt, arrs in counter_leaf.items():
                import re
                if re.search(r"\b%s\b" % re.escape(cnt), size_expr):
                    conts |= (arrs & erased_any)
            for c in sorted(conts):
                ok = all(st is None or ("D", "erased:" + c) not in st for st in sts)
                out.append((fn, n, c, ok))
    return out


def run(F, chk):
    R1 = chk.rule("R9.1", "every member array that a class's Sync sizes to its vertex count is erased (EraseVectorIndices) by the "
                          "class's notifyVerticesDelete or a base implementation it calls")
    R2 = chk.rule("R9.2", "every notifyVerticesDelete override calls its direct base's implementation exactly once on every path")
    R3 = chk.rule("R9.3", "NifFile::DeleteVertsForShape notifies every class in scope (triangle geometry data, BSTriShape family, "
                          "skin data, skin partition) through a receiver type that dispatches to it")
    R4 = chk.rule("R9.4", "after erasing per-vertex arrays the vertex counter is re-derived from an erased array's size on every path")

    # ---------------------------------------------------------------- vertex arrays per class (from the write-mode resizes)
    S = paths.Summarizer(F, c02.make_primitive(F), mode=flow.MODE_READ, value_proxies=True,
                         node_kinds=("Call", "OpCall", "Construct", "Assign", "Unary"))
    E = paths.Summarizer(F, _erase_primitive)
    overriders = [f for f in F.fns.values() if f["short"] == NOTIFY and f.get("cls") and f.get("tmpl") != "pattern"
                  and f["cls"] != "nifly::NiObject"]
    chk.require(len(overriders) >= 9, "only %d notifyVerticesDelete overrides found" % len(overriders))
    over_cls = {f["cls"]: f for f in overriders}
    classes = [c for c in F.block_classes() if any(a in over_cls for a in [c] + F.ancestors(c))]
    reported = set()
    for c in sorted(classes):
        r = F.recs[c]
        if r.get("abstract") and not any(d for d in F.descendants(c)):
            continue
        gets = F.method(c, "Get")
        if not gets:
            continue
        fields = {f["name"]: owner for owner, f in F.fields(c, inherited=True)}
        if "numVertices" not in fields:
            continue
        if not any(F.derives_from(c, r) for r in ("nifly::NiTriBasedGeomData", "nifly::BSTriShape", "nifly::NiSkinPartition")):
            # the property quantifies over NiTriShape / NiTriStrips / BSTriShape kinds and their skin blocks
            chk.note("per-vertex arrays of %s are outside the property's geometry kinds (not checked)" % c)
            continue
        varrays = {}
        for ev in S.events(gets[0]["id"]):
            if ev.kind == "mut" and ev.info["op"] == "resize" and ev.path is not None and ev.path[0][0] == "this":
                sp = ev.info.get("size_path")
                if sp is not None and render(sp) == "numVertices":
                    varrays[ev.path] = ev
        if not varrays:
            continue
        final = F.method(c, NOTIFY)
        erased = set()
        if final:
            for ev in E.events(final[0]["id"]):
                if ev.path is not None and ev.kind == "erase":
                    erased.add(ev.path)
        for p, ev in sorted(varrays.items(), key=lambda x: render(x[0])):
            ok = p in erased
            owner, _ = F.find_field(c, p[1])
            chk.instance(R1, ok=ok, sample={"class": c, "array": render(p), "owner": owner})
            key = "C09/R9.1:%s:%s" % (owner, render(p))
            if not ok and key not in reported:
                reported.add(key)
                nf = final[0] if final else None
                chk.violation("R9.1", key, where(nf) if nf else "?",
                              "%s::%s is sized to the vertex count by Sync but is not erased when vertices are deleted (%s): after "
                              "DeleteVertsForShape the array keeps entries of deleted vertices and no longer lines up with the others" % (
                                  owner, render(p), nf["name"] if nf else "no notifyVerticesDelete"))
    chk.floor(R1, 20, "(class x per-vertex array)")

    # ---------------------------------------------------------------- R9.2
    for fn in sorted(overriders, key=lambda f: f["id"]):
        cls = fn["cls"]
        base = None
        for a in F.ancestors(cls):
            ra = F.recs.get(a)
            if ra and any(m["short"] == NOTIFY for m in ra.get("methods", [])):
                base = a
                break
        if base is None:
            continue
        base_impl = [f for f in F.fns.values() if f.get("cls") == base and f["short"] == NOTIFY]
        if base_impl and not [x for x in walk(base_impl[0]["body"]) if x is not base_impl[0]["body"]]:
            chk.instance(R2, ok=True, sample={"fn": fn["name"], "base": base, "note": "base implementation is empty"}, nontrivial=False)
            continue

        class B(flow.Flow):
            def on_node(self, n, st):
                if st is None:
                    return st
                if n["k"] == "Call" and n.get("short") == NOTIFY and n.get("qualified") and is_node(n.get("recv")) and n["recv"]["k"] == "This":
                    cnt = sum(1 for f in st if f[0] == "D" and f[1].startswith("base:"))
                    return st | {("D", "base:%s:%d" % (n.get("cls"), cnt))}
                return st

        b = B(F, fn)
        b.run()
        ok = bool(b.exits)
        for _, _, st in b.exits:
            calls = [f[1] for f in (st or ()) if f[0] == "D" and f[1].startswith("base:")]
            if len(calls) != 1 or not calls[0].startswith("base:%s:" % base):
                ok = False
        chk.instance(R2, ok=ok, sample={"fn": fn["name"], "base": base})
        if not ok:
            chk.violation("R9.2", "C09/R9.2:%s" % fn["name"], where(fn),
                          "%s does not call %s::notifyVerticesDelete exactly once on every path: the arrays owned by the base class "
                          "keep (or lose twice) the deleted vertices" % (fn["name"], base))
    chk.floor(R2, 8)

    # ---------------------------------------------------------------- R9.3
    orch = F.fn1("nifly::NifFile::DeleteVertsForShape")
    recv_types = []
    for n in walk(F.inl(orch)["body"]):  # inline view: the skin part may live in a local lambda or private helper
        if n["k"] == "Call" and n.get("short") == NOTIFY and n.get("virt"):
            t = (n["recv"].get("ct") or n["recv"].get("t") or "").replace("*", "").replace("const ", "").strip()
            recv_types.append(t)
    chk.extra["orchestrator_receivers"] = recv_types
    scope_roots = ("nifly::NiTriBasedGeomData", "nifly::BSTriShape", "nifly::NiSkinData", "nifly::NiSkinPartition")
    for fn in sorted(overriders, key=lambda f: f["id"]):
        cls = fn["cls"]
        in_scope = any(F.derives_from(cls, r) for r in scope_roots)
        if not in_scope:
            chk.note("outside the property's geometry kinds, not required to be reached by DeleteVertsForShape: " + cls)
            continue
        ok = any(F.derives_from(cls, t) or cls == t for t in recv_types)
        chk.instance(R3, ok=ok, sample={"class": cls, "reached_via": [t for t in recv_types if F.derives_from(cls, t)]})
        if not ok:
            chk.violation("R9.3", "C09/R9.3:%s" % cls, where(orch),
                          "DeleteVertsForShape never calls notifyVerticesDelete through a type that dispatches to %s" % cls)
    chk.floor(R3, 7)

    # ---------------------------------------------------------------- R9.4
    # array -> counter pairs, discovered from the resizes in the Sync bodies (array.resize(counter))
    counter_of = {}
    for c in sorted(set(f["cls"] for f in overriders)):
        gets = F.method(c, "Get")
        if not gets:
            continue
        for ev in S.events(gets[0]["id"]):
            if ev.kind == "mut" and ev.info["op"] == "resize" and ev.path is not None and ev.path[0][0] == "this":
                sp = ev.info.get("size_path")
                if sp is not None and sp[0][0] == "this":
                    counter_of[render(ev.path)] = render(sp)
    chk.extra["array_counter_pairs"] = len(counter_of)
    recounts = {}  # class -> counters its notifyVerticesDelete re-derives on every path (used at base calls)
    for fn in sorted(overriders, key=lambda f: len(F.ancestors(f["cls"]))):
        env = paths.PathEnv(F, fn)
        erases = [n for n in walk(fn["body"]) if n["k"] == "Call" and (n.get("short") or "").startswith("EraseVectorIndices")]

        def counter_for(n):
            p = env.path(n["args"][0]) if n.get("args") else None
            return counter_of.get(render(p)) if p is not None else None

        class C(flow.Flow):
            def on_node(self, n, st):
                if st is None:
                    return st
                if n["k"] == "Call" and (n.get("short") or "").startswith("EraseVectorIndices"):
                    cn = counter_for(n)
                    if cn and ("D", "recount:" + cn) not in st:
                        return st | {("O", "need:" + cn)}
                    return st
                if n["k"] == "Call" and n.get("short") == NOTIFY and n.get("qualified"):
                    add = set(("D", "recount:" + cn) for cn in recounts.get(n.get("cls"), ()))
                    return frozenset(f for f in st if not (f[0] == "O" and ("D", "recount:" + f[1][5:]) in add)) | add
                if n["k"] == "Assign" and n["op"] == "=" and ".size()" in show(n["r"]):
                    lp = env.path(n["l"])
                    if lp is not None:
                        cn = render(lp)
                        return frozenset(f for f in st if f != ("O", "need:" + cn)) | {("D", "recount:" + cn)}
                return st

            def loop(self, s, st):
                # per-iteration facts about the element's own counter do not carry over to the next element
                res = flow.Flow.loop(self, s, st)
                return res

        cf = C(F, fn)
        cf.run()
        done = None
        for _, _, st in cf.exits:
            d = set(f[1][8:] for f in (st or ()) if f[0] == "D" and f[1].startswith("recount:"))
            done = d if done is None else (done & d)
        recounts[fn["cls"]] = done or set()
        if not erases:
            continue
        counters = sorted(set(counter_for(n) for n in erases if counter_for(n)))
        pending = set(f[1][5:] for _, _, st in cf.exits for f in (st or ()) if f[0] == "O" and f[1].startswith("need:"))
        for cn in counters:
            ok = cn not in pending
            chk.instance(R4, ok=ok, sample={"fn": fn["name"], "counter": cn})
            if not ok:
                chk.violation("R9.4", "C09/R9.4:%s:%s" % (fn["name"], cn), where(fn),
                              "%s erases arrays counted by `%s` but can return without re-deriving that counter from an array size: "
                              "the count written on save disagrees with the arrays" % (fn["name"], cn))
    chk.floor(R4, 4)

    # ---------------------------------------------------------------- R9.5
    R5 = chk.rule("R9.5", "an index-collapse map sized by a container's element count is generated before that container is erased "
                          "(the map must cover the old indices)")
    for fn, n, cont, ok in collapse_before_erase(F, counter_of):
        if cont == "partitions":
            continue  # reported under C10
        chk.instance(R5, ok=ok, sample={"fn": fn["name"], "map_sized_by": cont})
        if not ok:
            chk.violation("R9.5", "C09/R9.5:%s:%s" % (fn["name"], cont), where(fn, n),
                          "%s builds its index-collapse map from the size of `%s` after erasing from it: the map is too short and "
                          "indices at or above the new size are left unmapped" % (fn["name"], cont))
    chk.floor(R5, 1)

    # ---------------------------------------------------------------- R9.6
    R6 = chk.rule("R9.6", "a member array that the class's reader (Sync) sizes only under a data flag (`if (hasPoints) points.resize(...)`) "
                          "is indexed by the vertex-deletion code only under that flag, under a test of the array's own size, or inside "
                          "a loop bounded by it — a loop over a sibling array's length reads past an array the file did not carry")
    import re as _re
    import arrays as _arrays
    import versions as _versions
    VE6 = _versions.VersionEval(F)
    S6 = paths.Summarizer(F, c02.make_primitive(F), mode=flow.MODE_READ, value_proxies=True,
                          node_kinds=("Call", "OpCall", "Construct", "Assign", "Unary"))
    gated = {}
    for fn in F.fns.values():
        if fn.get("short") != "Sync" or fn.get("tmpl") == "pattern" or not fn.get("cls"):
            continue
        for ev in S6.events(fn["id"]):
            if ev.kind == "mut" and ev.info.get("op") == "resize" and ev.path and ev.path[0][0] == "this" and len(ev.path) == 2 \
                    and len(ev.chain) == 1:
                gn = set()
                for g in ev.guards:
                    node = flow.KEYNODE.get(g[0])
                    expr = node[1] if isinstance(node, tuple) else node
                    if is_node(expr) and VE6.is_version_expr(expr):
                        continue
                    if len(g) > 2 and g[2]:
                        continue
                    if g[1] is True and _re.fullmatch(r"[A-Za-z_]\w*", g[0]):
                        gn.add(g[0])
                own, _ = F.find_field(fn["cls"], ev.path[1])
                gated.setdefault((own, ev.path[1]), []).append(gn)
    gated = {k: set.intersection(*v) for k, v in gated.items() if set.intersection(*v)}
    chk.extra["flag_gated_arrays"] = sorted("%s::%s if %s" % (k[0], k[1], "/".join(sorted(v))) for k, v in gated.items())
    if len(gated) < 10:
        raise report.Broken("R9.6: fewer than 10 flag-gated arrays discovered in the Sync bodies (%d)" % len(gated))

    def _peel6(e):
        while is_node(e) and e["k"] == "Cast":
            e = e["e"]
        return e

    n6 = 0
    del_fns = [f for f in F.fns.values() if f.get("short") == "notifyVerticesDelete" and f.get("body") and f.get("tmpl") != "pattern"]
    for fn in sorted(del_fns, key=lambda f: f["id"]):
        cands = []
        for x in walk(fn["body"]):
            if x["k"] != "Subscript":
                continue
            b = _peel6(x["base"])
            if is_node(b) and b["k"] == "Member" and (b.get("owner"), b["name"]) in gated:
                cands.append((x, b))
        if not cands:
            continue
        ids = {id(x) for x, _ in cands}
        sites = {}

        class Z6(_arrays.ArrayCoherence):
            def on_node(self, n, st):
                st2 = _arrays.ArrayCoherence.on_node(self, n, st)
                if st2 is not None and not self.muted and id(n) in ids:
                    sites[id(n)] = (st2, list(self.loops))
                return st2

            def _check_subscript(self, n, st):
                return

            def _check_raw(self, n, st):
                return

        Z6(F, fn).run()
        for x, b in cands:
            if id(x) not in sites:
                continue
            st, loops = sites[id(x)]
            c = show(b)
            if any(f[0] == "Z" and f[1] == c for f in st):
                continue
            names = set()
            for f in st:
                if f[0] == "G":
                    names |= set(_re.findall(r"[A-Za-z_]\w*", f[1]))
            for li in loops:
                if li:
                    names |= set(_re.findall(r"[A-Za-z_]\w*", li[4] if len(li) > 4 else li[1]))
            gate = gated[(b["owner"], b["name"])]
            ok = bool(gate & names) or b["name"] in names
            n6 += 1
            chk.instance(R6, ok=ok, sample={"fn": fn["name"], "array": c, "flag": sorted(gate)})
            if not ok:
                chk.violation("R9.6", "C09/R9.6:%s:%s" % (fn["name"].split("(")[0], b["name"]), where(fn, x),
                              "%s indexes `%s`, which %s::Sync sizes only under `%s`, inside a loop that is not bounded by that array "
                              "and without testing the flag or the array's size: for a block stored without it (the library reads "
                              "and writes such blocks) deleting vertices reads past the empty array" %
                              (fn["name"], c, b["owner"].split("::")[-1], "/".join(sorted(gate))))
    chk.floor(R6, 0)  # (the discovery of flag-gated arrays has its own floor; a restructured deletion path may index none of them)

    # ---------------------------------------------------------------- R9.7
    R7 = chk.rule("R9.7", "work that has to happen for every element is not placed where short-circuit evaluation can skip it: a call of a "
                          "non-const method of a block part is neither the right operand of `acc = acc || call` / `acc && call`, nor "
                          "made from the predicate of std::any_of / all_of / none_of / find_if (which stop at the first hit) — the "
                          "strip-to-triangle conversion of the skin partitions in front of a vertex deletion is such work")
    SHORT_ALGOS = ("any_of", "all_of", "none_of", "find_if", "find_if_not")

    def _mutating_calls(e):
        out = []
        for x in walk(e):
            if x["k"] == "Call" and not x.get("ext") and x.get("fid") in F.fns and is_node(x.get("recv")):
                g = F.fns[x["fid"]]
                if g.get("cls") and not g.get("const") and not g.get("static") and g.get("short") not in ("begin", "end", "size"):
                    out.append(x)
        return out

    n7 = 0
    for fn in sorted(F.fns.values(), key=lambda f: f["id"]):
        if not fn.get("body") or fn.get("tmpl") == "pattern" or not ((fn.get("file") or "").startswith("src/") or fn.get("lambda_parent")):
            continue
        if not (fn.get("cls") or fn.get("lambda_parent")):
            continue
        for n in walk(fn["body"]):
            if n["k"] == "Assign" and n["op"] == "=" and is_node(n["r"]) and n["r"]["k"] == "Binary" and n["r"]["op"] in ("||", "&&") \
                    and is_node(n["l"]) and n["l"]["k"] == "Ref":
                lhs, left = n["l"], n["r"]["l"]
                while is_node(left) and left["k"] == "Cast":
                    left = left["e"]
                if is_node(left) and left["k"] == "Ref" and left.get("id") == lhs.get("id"):
                    calls = _mutating_calls(n["r"]["r"])
                    n7 += 1
                    chk.instance(R7, ok=not calls, sample={"fn": fn["name"], "accumulates": show(n)[:80]})
                    for c in calls[:1]:
                        chk.violation("R9.7", "C09/R9.7:%s:%s" % (fn["name"].split("(")[0], c.get("short")), where(fn, n),
                                      "%s accumulates with `%s`: once `%s` is true the call of %s is skipped for every later element, "
                                      "although it changes the element it is called on" % (fn["name"], show(n)[:70], lhs["name"], c.get("fn")))
            if n["k"] == "Call" and n.get("ext") and n.get("short") in SHORT_ALGOS:
                for a in n.get("args", []):
                    b = a
                    while is_node(b) and b["k"] in ("Cast", "Construct") and (b.get("e") is not None or len(b.get("args", [])) == 1):
                        b = b["e"] if b.get("e") is not None else b["args"][0]
                    if is_node(b) and b["k"] == "Lambda" and b.get("fid") in F.fns:
                        lam = F.fns[b["fid"]]
                        pids = {p_["id"] for p_ in lam.get("params", [])}
                        calls = [c for c in _mutating_calls(lam.get("body") or {}) if any(
                            y["k"] == "Ref" and y.get("id") in pids for y in walk(c["recv"]))]
                        n7 += 1
                        chk.instance(R7, ok=not calls, sample={"fn": fn["name"], "algorithm": n["short"]})
                        for c in calls[:1]:
                            chk.violation("R9.7", "C09/R9.7:%s:%s:%s" % (fn["name"].split("(")[0], n["short"], c.get("short")), where(fn, n),
                                          "%s calls %s, which changes the element, from the predicate of std::%s: the algorithm stops at "
                                          "the first element for which the predicate decides, so the remaining elements are never "
                                          "processed" % (fn["name"], c.get("fn"), n["short"]))
    chk.floor(R7, 0)

    chk.assumptions += ["order preservation inside EraseVectorIndices, triangle re-indexing and partition re-fitting are value-level (C18-style) and not decided"]
    chk.extra["explanation"] = ("coverage of every per-vertex array by the deletion notification, override chain, orchestrator "
                                "coverage and counter refresh; index-collapse arithmetic is not decided")
