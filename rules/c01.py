"""C01 — load/save round trip is exact and reaches a byte-level fixed point (DESIGN §5 C01).

Decided: read/write symmetry of the code — CRTP wiring, reader/writer schema agreement per version region, count<->array
coherence, factory completeness, pruning fixpoint.  Byte equality itself is not decided."""
from facts import AnalysisBroken, is_node, walk, where, show
import flow
import schema
import versions
import arrays
import c08
import c11
import c04

STREAMABLE = ("nifly::NiStreamable", "nifly::NiCloneableStreamable")
CLONEABLE = ("nifly::NiCloneable",)

# mode-specific serialisation that is intentionally not symmetric, one symbol wide, with the reason
ACCEPTED_MODE_SPLIT = {
    "nifly::BSTriShape::Sync": "skinned SSE shapes keep vertex/triangle data in the skin partition: the writer emits an empty "
                               "vertex section (2+2+4 bytes) that the reader consumes as numTriangles/numVertices/dataSize; "
                               "PrepareData/FinalizeData move the data",
}


def member_only(entries):
    return [e for e in entries if not (e[0][1].startswith("$") or e[0][1].startswith("<"))]


def run(F, chk):
    R1 = chk.rule("R1.1", "CRTP wiring: a class that declares Sync is the Derived argument of its nearest streamable base; a class "
                          "whose direct base is a streamable wrapper declares its own Sync; no class declares Sync without being wired")
    R3 = chk.rule("R1.3", "for every block class, the header and the hand-written pairs, in every version region, the sequence of "
                          "member fields transferred by Get equals the sequence transferred by Put (path, width, loops, data gates); "
                          "mode-specific sections are limited to the triaged table")
    R4 = chk.rule("R1.4", "count<->array coherence: every subscript of a member container by a counted loop and every raw transfer "
                          "of a container is dominated by a resize to the same count")
    R5 = chk.rule("R1.5", "factory completeness: every registered type is concrete, declares its own BlockName, returns it from "
                          "GetBlockName(), and no two registered types share a name")
    R6 = chk.rule("R1.6", "the default save's pruning reaches its fixpoint in one save (scan restarts after each deletion)")

    # ------------------------------------------------------------------ R1.1
    blocks = [c for c in F.block_classes() if c != "nifly::NiObject"]
    for cls in blocks:
        r = F.recs[cls]
        has_sync = any(m["short"] == "Sync" and "NiStreamReversible" in m.get("sig", "") for m in r.get("methods", []))
        direct = r.get("bases", [])
        direct_streamable = [b for b in direct if b.get("template") in STREAMABLE]
        # nearest streamable wrapper among ancestors
        nearest = None
        for a in F.ancestors(cls):
            ra = F.recs.get(a)
            if ra and ra.get("template") in STREAMABLE:
                nearest = ra
                break
        ok, why = True, None
        if has_sync:
            d = (nearest or {}).get("targs", [{}])[0].get("ct") if nearest else None
            if nearest is None or d != cls:
                ok, why = False, "declares Sync but its nearest streamable base serialises `%s`: its own fields are never read or written" % d
        if direct_streamable and not has_sync:
            ok, why = False, "derives directly from a streamable wrapper but declares no Sync: the inherited Sync runs twice"
        if direct_streamable:
            d = direct_streamable[0].get("targs", [{}])[0].get("ct")
            if d != cls:
                ok, why = False, "its streamable wrapper is instantiated for `%s`" % d
        chk.instance(R1, ok=ok, sample={"class": cls, "has_sync": has_sync}, nontrivial=has_sync)
        if not ok:
            chk.violation("R1.1", "C01/R1.1:%s" % cls, "%s:%s" % (r["file"], r["loc"].split(":")[0]), "%s %s" % (cls, why))
    chk.floor(R1, 300)

    # ------------------------------------------------------------------ R1.3
    B = schema.SchemaBuilder(F)
    VE = versions.VersionEval(F)
    regs = sorted(set(VE.named_versions().values())) if chk.tier == "quick" else sorted(set(VE.regions()))
    classes = sorted(set(c11.factory_types(F)) | {"nifly::NiHeader", "nifly::NiUnknown"})
    ev = {(c, d): B.events(c, d) for c in classes for d in ("read", "write")}
    hand = hand_pairs(F, B)
    groups = c08.signature_groups(B, VE, regs)
    chk.extra["regions"] = len(regs)
    chk.extra["distinct_version_behaviours"] = len(groups)
    reported = set()
    modesplit_fns = set()
    for sig, rs in sorted(groups.items(), key=lambda kv: kv[1][0]):
        rv = schema.RegionView(B, VE, rs[0])
        for c in classes:
            if ev[(c, "read")] is None or ev[(c, "write")] is None:
                continue
            r = member_only(rv.project(ev[(c, "read")], drop_local_gates=True, with_events=True))
            w = member_only(rv.project(ev[(c, "write")], drop_local_gates=True, with_events=True))
            for e, x in r + w:
                if x.info.get("modesplit"):
                    modesplit_fns.add(x.info["modesplit"])
            re_, we = [e for e, _ in r], [e for e, _ in w]
            same = re_ == we
            accepted = None
            if not same:
                # differences confined to accepted mode-split sections?
                rn = [e for e, x in r if x.info.get("modesplit") not in ACCEPTED_MODE_SPLIT]
                wn = [e for e, x in w if x.info.get("modesplit") not in ACCEPTED_MODE_SPLIT]
                if rn == wn:
                    same = True
                    accepted = sorted(set(x.info["modesplit"] for _, x in r + w if x.info.get("modesplit") in ACCEPTED_MODE_SPLIT))
            chk.instance(R3, ok=same, sample={"class": c, "version": "%08x/%d/%d" % rs[0], "fields": len(re_),
                                              "accepted_mode_split": accepted}, nontrivial=len(re_) > 1)
            if not same:
                i = 0
                while i < min(len(re_), len(we)) and re_[i] == we[i]:
                    i += 1
                a = schema.fmt(re_[i]) if i < len(re_) else "<end of block>"
                b = schema.fmt(we[i]) if i < len(we) else "<end of block>"
                fld = (re_[i][1] if i < len(re_) else we[i][1])
                key = "C01/R1.3:%s:%s" % (c08._owner_of(F, c, fld), fld)
                if key in reported:
                    continue
                reported.add(key)
                xe = (r[i][1] if i < len(r) else w[i][1])
                site = "?"
                for fid, loc in reversed(xe.chain):
                    f = F.fns.get(fid)
                    if f:
                        site = "%s:%s" % (f["file"], (loc or "").split(":")[0])
                        break
                chk.violation("R1.3", key, site,
                              "%s: reader and writer disagree in version %08x/%d/%d at field #%d: Get transfers `%s`, Put transfers `%s` "
                              "— a file written by the library is not read back as written" % (c, rs[0][0], rs[0][1], rs[0][2], i, a, b),
                              {"read": [schema.fmt(x) for x in re_[max(0, i - 2):i + 3]],
                               "write": [schema.fmt(x) for x in we[max(0, i - 2):i + 3]]})
    chk.extra["mode_specific_functions_seen"] = sorted(modesplit_fns)
    chk.floor(R3, 600)

    # ------------------------------------------------------------------ R1.7 hand-written Read/Write pairs
    R7 = chk.rule("R1.7", "every hand-written Read/Write pair (string types), for every constant width it is called with and in every "
                          "version region, transfers the same sequence of primitive kinds and widths in both directions "
                          "(local names are not compared; transfers under a data gate such as the optional terminator are set aside)")
    for (cls, k), (rfn, wfn, revs, wevs) in sorted(hand.items()):
        seen_shapes = set()
        for sig, rs in sorted(groups.items(), key=lambda kv: kv[1][0]):
            rv = schema.RegionView(B, VE, rs[0])
            rsh = [(e[0], e[2] if isinstance(e[2], int) else None, e[3]) for e in rv.project(revs, drop_local_gates=True) if not e[4]]
            wsh = [(e[0], e[2] if isinstance(e[2], int) else None, e[3]) for e in rv.project(wevs, drop_local_gates=True) if not e[4]]
            shape = (tuple(rsh), tuple(wsh))
            if shape in seen_shapes:
                continue
            seen_shapes.add(shape)
            same = rsh == wsh
            chk.instance(R7, ok=same, sample={"pair": cls, "width_argument": k, "version": "%08x/%d/%d" % rs[0], "transfers": len(rsh)},
                         nontrivial=len(rsh) > 0)
            if not same:
                i = 0
                while i < min(len(rsh), len(wsh)) and rsh[i] == wsh[i]:
                    i += 1
                a = "%s[%s]" % rsh[i][:2] if i < len(rsh) else "<end>"
                b = "%s[%s]" % wsh[i][:2] if i < len(wsh) else "<end>"
                chk.violation("R1.7", "C01/R1.7:%s:%s" % (cls, k), where(wfn),
                              "%s::Read and %s::Write (width argument %s, version %08x/%d/%d) disagree at transfer #%d: Read does `%s`, "
                              "Write does `%s` — a string written by the library is not read back as written" % (
                                  cls, cls, k, rs[0][0], rs[0][1], rs[0][2], i, a, b),
                              {"read": ["%s[%s]" % x[:2] for x in rsh], "write": ["%s[%s]" % x[:2] for x in wsh]})
    chk.floor(R7, 6)

    # ------------------------------------------------------------------ R1.8 no layout decision on unresolved string text
    R8 = chk.rule("R1.8", "no stream function of a block class reads the resolved text of a NiStringRef (get()/length()/comparison): "
                          "while a file is being read the text is not resolved yet (Load fills the string refs after the last block), "
                          "so anything decided on it is decided differently by the reader and the writer")
    # the protocol fact the rule rests on: Load calls FillStringRefs after the block loop
    load_fn = [f for f in F.fn_named("nifly::NifFile::Load") if "istream" in f["id"]]
    fill_ids = {f["id"] for f in F.fns.values() if f.get("cls") == "nifly::NiHeader" and f["short"] == "FillStringRefs"}
    fills = [n for f in load_fn for n in walk(f["body"]) if n["k"] == "Call" and n.get("fid") and
             (n["fid"] in fill_ids or (F.reachable([n["fid"]]) & fill_ids))]
    in_loop = [n for f in load_fn for lp in walk(f["body"]) if lp["k"] in ("For", "While", "RangeFor") for n in walk(lp)
               if any(n is x for x in fills)]
    ok = bool(fills) and not in_loop
    chk.instance(R8, ok=ok, sample={"Load_resolves_strings_after_all_blocks": ok})
    if not ok:
        chk.violation("R1.8", "C01/R1.8:Load:FillStringRefs", where(load_fn[0]) if load_fn else "?",
                      "Load no longer resolves the string references once, after all blocks were read")
    nsf = 0
    for fn in sorted(F.fns.values(), key=lambda f: f["id"]):
        if fn.get("tmpl") == "pattern" or not fn.get("body") or fn.get("cls") in ("nifly::NiStringRef", "nifly::NiString", None):
            continue
        if fn["short"] not in ("Sync", "Get", "Put") or not any(
                any(t in (p_.get("ct") or p_.get("t") or "") for t in ("NiStreamReversible", "NiIStream", "NiOStream")) for p_ in fn.get("params", [])):
            continue
        nsf += 1
        bad = [x for x in walk(fn["body"]) if x["k"] in ("Call", "OpCall") and x.get("cls") == "nifly::NiStringRef" and
               (x.get("short") in ("get", "length") or x.get("op") in ("==", "!="))]
        chk.instance(R8, ok=not bad, sample={"fn": fn["name"]}, nontrivial=False)
        for x in bad[:1]:
            chk.violation("R1.8", "C01/R1.8:%s" % fn["name"], where(fn, x),
                          "%s consults the text of a string reference (`%s`) while transferring the block: the reader sees an empty "
                          "string there (references are resolved after the last block), the writer the real one — the two transfer "
                          "different fields" % (fn["name"], show(x)[:60]))
    chk.extra["stream_functions_checked_for_string_text"] = nsf
    chk.floor(R8, 300)

    # ------------------------------------------------------------------ R1.4
    total = 0
    for fn in sorted(F.fns.values(), key=lambda f: f["id"]):
        if fn.get("tmpl") == "pattern":
            continue
        is_sync = fn["short"] in ("Sync", "SyncData", "SyncByteArray") and any("NiStreamReversible" in (p.get("ct") or p.get("t") or "") for p in fn.get("params", []))
        is_reader = (fn["short"] == "Get" and fn.get("cls") == "nifly::NiHeader") or \
                    (fn["short"] == "Read" and any("NiIStream" in (p.get("ct") or p.get("t") or "") for p in fn.get("params", [])))
        if not (is_sync or is_reader):
            continue
        checked = 0
        found = {}
        uses_version = any(VE.is_version_expr(n) for n in walk(fn.get("body") or {}) if n["k"] == "Call")
        reps = [rs[0] for rs in groups.values()] if uses_version else [regs[0]]
        for rep in reps:
            a = arrays.ArrayCoherence(F, fn, flow.MODE_READ, VE, rep)
            a.run()
            checked = max(checked, a.checked)
            for n, msg in a.findings:
                found.setdefault(id(n), (n, msg, rep))
        total += checked
        for n, msg, rep in found.values():
            key = "C01/R1.4:%s:%s" % (fn["name"], show(n.get("base") or n)[:60] if n["k"] == "Subscript" else show(n["args"][0])[:60])
            chk.instance(R4, ok=False, sample={"fn": fn["name"], "finding": msg})
            chk.violation("R1.4", key, where(fn, n), "%s (version %08x/%d/%d): %s — the array and the count written next to it can disagree" % (
                fn["name"], rep[0], rep[1], rep[2], msg))
        for _ in range(max(0, checked - len(found))):
            chk.instance(R4, ok=True)
    chk.floor(R4, 90)

    # ------------------------------------------------------------------ R1.5
    for cls, ok, why, site in registered_type_names(F):
        if cls is None:
            chk.violation("R1.5", "C01/R1.5:dup:%s" % why[0], "src/Factory.cpp", "block name \"%s\" is shared by %s: a saved block is re-loaded as another class" % why)
            continue
        chk.instance(R5, ok=ok, sample={"class": cls})
        if not ok:
            chk.violation("R1.5", "C01/R1.5:%s" % cls, site, "registered block type %s %s" % (cls, why))
    chk.floor(R5, 290)

    # ------------------------------------------------------------------ R1.6
    prunes = [f for f in F.fns.values() if f.get("cls") == "nifly::NiHeader" and f["short"] == "DeleteUnreferencedBlocks" and f.get("tmpl") != "pattern"]
    for fn in prunes:
        ok = c04._restarts_after_delete(F, fn)
        chk.instance(R6, ok=ok, sample={"fn": fn["name"], "restarts": ok})
        if not ok:
            chk.violation("R1.6", "C01/R1.6:%s" % fn["name"].split("<")[0], where(fn),
                          "the pruner continues its scan forward after a deletion: blocks that became unreferenced at lower indices "
                          "survive, so repeated load/save needs more than two rounds to converge")
    chk.floor(R6, 1)

    # ------------------------------------------------------------------ R1.10
    R10 = chk.rule("R1.10", "the packed vertex layout that BSTriShape::CalcDataSizes computes (size and offsets written to the file) accounts "
                            "exactly for the attributes that the two readers/writers of packed vertices (BSTriShape::Sync, "
                            "NiSkinPartition::Sync) stream: every attribute predicate (HasX() / IsSkinned()) that reserves bytes in "
                            "CalcDataSizes guards a stream operation in both Sync bodies — bytes reserved for an attribute nobody streams "
                            "make the stored vertex size disagree with the data, and the file never reaches a fixed point")
    calc = F.fn1("nifly::BSTriShape::CalcDataSizes")

    def _preds(fn_, only_guarding_stream):
        out = set()
        for n in walk(fn_.get("body") or {}):
            if n["k"] != "If" or not is_node(n.get("cond")):
                continue
            if only_guarding_stream and not any(x["k"] in ("Call", "OpCall") and (x.get("cls") or "").startswith("nifly::NiStream")
                                                for x in walk(n.get("then") or {})):
                continue
            if not only_guarding_stream and not any(x["k"] == "Assign" and "attributeSizes" in show(x["l"]) for x in walk(n.get("then") or {})):
                continue
            for c in walk(n["cond"]):
                if c["k"] == "Call" and not c.get("args") and (c.get("short") or "").startswith(("Has", "Is")) and not c.get("ext") \
                        and (c.get("short") not in ("IsFullPrecision", "HasType")):
                    out.add(c["short"])
        return out

    reserved = _preds(calc, False)
    if len(reserved) < 6:
        # the layout is not computed by an if-chain over the attribute predicates (a table-driven CalcDataSizes, say): the
        # agreement is then not decided by this rule, which says so instead of guessing
        chk.note("R1.10 not evaluated: BSTriShape::CalcDataSizes does not reserve bytes under an if-chain of attribute predicates "
                 "(found %s)" % sorted(reserved))
        reserved = set()
    for sname in ("nifly::BSTriShape::Sync", "nifly::NiSkinPartition::Sync") if reserved else ():
        sfn = F.fn1(sname)
        streamed = _preds(sfn, True)
        for pr in sorted(reserved):
            ok = pr in streamed
            chk.instance(R10, ok=ok, sample={"attribute": pr, "sync": sname})
            if not ok:
                chk.violation("R1.10", "C01/R1.10:%s:%s" % (sname.split("::")[-2], pr), where(sfn),
                              "BSTriShape::CalcDataSizes reserves vertex bytes (and an offset) under %s(), but %s streams nothing under "
                              "that predicate: the vertex size written to the file does not describe the vertex data that follows, "
                              "and every load/save round changes the file" % (pr, sname))
    if reserved:
        chk.floor(R10, 12)

    # ------------------------------------------------------------------ R1.9
    chk.share(F, "c05", ["R5.1", "R5.5"], "R1.9",
              "the default save prunes and sorts by what the enumerators report: a serialised reference that GetChildRefs omits "
              "(while GetChildIndices keeps it) is pruned in one round and chased in the next, so the output never reaches a "
              "fixed point")
    chk.floor("R1.9", 600)

    chk.assumptions += ["value-level encode/decode inside one shared expression, PrepareData<->FinalizeData inverse-ness and the "
                        "two-round convergence bound are not decided",
                        "locals of hand-written readers (NiString buffers, header version locals) are not wire-visible names; "
                        "their widths are compared under C08"]
    chk.extra["explanation"] = ("read/write symmetry of the code for all registered classes and version regions, CRTP wiring, "
                                "count/array coherence, registry completeness and pruning fixpoint; byte equality is not decided")


def registered_type_names(F):
    """(class, ok, why, site) for every registered block type: concrete, own BlockName, GetBlockName() returns it; and
    (None, False, (name, classes), None) for every block name shared by two registered types"""
    reg = c11.factory_types(F)
    names = {}
    for cls in reg:
        r = F.recs.get(cls)
        ok, why = True, None
        if r is None:
            ok, why = False, "registered type has no definition"
        else:
            if r.get("abstract"):
                ok, why = False, "is abstract"
            own = [g for g in F.globals.values() if g["name"] == cls + "::BlockName"]
            if not own:
                ok, why = False, "does not declare its own BlockName (it would be written under its base's name and re-loaded as the base)"
            else:
                names.setdefault(own[0].get("sval"), []).append(cls)
            gbn = [f for f in F.fns.values() if f.get("cls") == cls and f["short"] == "GetBlockName"]
            if not gbn:
                ok, why = ok and False, why or "does not override GetBlockName()"
            else:
                rets = [n for n in walk(gbn[0]["body"]) if n["k"] == "Return"]
                good = rets and all(is_node(x.get("e")) and show(x["e"]) in ("BlockName", cls.split("::")[-1] + "::BlockName", cls + "::BlockName")
                                    and _names_own(x["e"], cls) for x in rets)
                if not good:
                    ok, why = False, why or "GetBlockName() does not return its own BlockName"
        yield cls, ok, why, "%s:%s" % ((r or {}).get("file", "?"), ((r or {}).get("loc", "?")).split(":")[0])
    for n, cs in names.items():
        if len(cs) > 1:
            yield None, False, (n, cs), None


def hand_pairs(F, B):
    """{(class, width constant or None): (Read fn, Write fn, read events, write events)} for every class with a hand-written
    Read(NiIStream&, ...) / Write(NiOStream&, ...) pair; the width constants are those passed at the call sites"""
    pairs = {}
    for fn in F.fns.values():
        if fn.get("tmpl") == "pattern" or not fn.get("cls") or not fn.get("body"):
            continue
        ps = fn.get("params", [])
        if fn["short"] == "Read" and ps and "NiIStream" in (ps[0].get("ct") or ps[0].get("t") or ""):
            pairs.setdefault(fn["cls"], {})["r"] = fn
        if fn["short"] == "Write" and ps and "NiOStream" in (ps[0].get("ct") or ps[0].get("t") or ""):
            pairs.setdefault(fn["cls"], {})["w"] = fn
    out = {}
    for cls, p in pairs.items():
        if "r" not in p or "w" not in p:
            continue
        ks = set()
        if len(p["r"]["params"]) > 1 and "int" in (p["r"]["params"][1].get("t") or ""):
            targets = {p["r"]["id"], p["w"]["id"]} | {f["id"] for f in F.fns.values() if f.get("cls") == cls and f["short"] == "Sync"}
            for f in F.fns.values():
                for n in walk(f.get("body") or {}):
                    if n["k"] == "Call" and n.get("fid") in targets and len(n.get("args", [])) > 1:
                        a = n["args"][1]
                        if is_node(a) and a.get("val") is not None and a["k"] != "Ref":
                            ks.add(a["val"])
        for k in (sorted(ks) or [None]):
            consts = {1: k} if k is not None else None
            out[(cls, k)] = (p["r"], p["w"], B.fn_events(p["r"]["id"], "read", consts), B.fn_events(p["w"]["id"], "write", consts))
    return out


def _names_own(e, cls):
    while is_node(e) and e["k"] == "Cast":
        e = e["e"]
    if is_node(e) and e["k"] in ("Member", "Ref"):
        qn = e.get("qn") or ""
        return qn == cls + "::BlockName" or not qn
    return True
