"""C10 — skin partitions always cover the shape's triangles exactly once (DESIGN §5 C10, thin partial).

Only the clause "the dismember partition list stays aligned with the partitions" is structural: every NifFile function
that changes the length of NiSkinPartition::partitions applies the corresponding change to
BSDismemberSkinInstance::partitions under a BSDismemberSkinInstance type test.  Exact cover, the bone limit and weights
summing to one quantify over runtime triangle and weight values and are not decided."""
from facts import is_node, walk, where, show
import flow
import report

NIF = "nifly::NifFile"
SKINPART = "nifly::NiSkinPartition"
DISMEMBER = "nifly::BSDismemberSkinInstance"
INDEXED = {"DeletePartitions", "RemoveEmptyPartitions", "erase"}
REBUILD = {"resize", "clear", "push_back", "emplace_back", "insert", "assign", "swap"}


def _member_partitions(e, owner):
    while is_node(e) and e["k"] in ("Cast",):
        e = e["e"]
    return is_node(e) and e["k"] == "Member" and e.get("name") == "partitions" and e.get("owner") == owner


def ops(fn, owner):
    out = []
    for n in walk(fn.get("body") or {}):
        if n["k"] == "Call":
            if n.get("cls") == owner and n.get("short") in ("DeletePartitions", "RemoveEmptyPartitions"):
                out.append((n, "indexed"))
            elif is_node(n.get("recv")) and _member_partitions(n["recv"], owner):
                sh = n.get("short")
                if sh in REBUILD:
                    out.append((n, "rebuild"))
                elif sh in INDEXED:
                    out.append((n, "indexed"))
        tgt = None
        if n["k"] == "Assign" and n["op"] == "=":
            tgt = n["l"]
        elif n["k"] == "OpCall" and n.get("op") == "=" and n.get("args"):
            tgt = n["args"][0]
        if tgt is not None and _member_partitions(tgt, owner):
            out.append((n, "rebuild"))
    return out


def run(F, chk):
    R1 = chk.rule("R10.1", "every NifFile function that changes the length of NiSkinPartition::partitions applies the corresponding "
                           "change (indexed removal / rebuild) to BSDismemberSkinInstance::partitions under a dismember type test")
    sites = 0
    for fn in sorted(F.fns.values(), key=lambda f: f["id"]):
        if fn.get("cls") != NIF or fn.get("tmpl") == "pattern":
            continue
        sp = ops(fn, SKINPART)
        if not sp:
            continue
        dm = ops(fn, DISMEMBER)
        # also through a helper of NifFile that itself pairs them
        helper_calls = [n for n in walk(fn["body"]) if n["k"] == "Call" and n.get("cls") == NIF and
                        n.get("short") in ("DeletePartitions", "RemoveEmptyPartitions", "UpdatePartitionFlags", "UpdateSkinPartitions")]
        ids = {id(n) for n, _ in dm}
        col = flow.Collect(F, fn, lambda n: id(n) in ids)
        saved = flow.KEYNODE
        flow.KEYNODE = {}
        try:
            col.run()
            reg = flow.KEYNODE
        finally:
            flow.KEYNODE = saved
        guarded = {}
        for n, sts in col.by_node():
            ok = True
            for st in sts:
                hit = False
                for f in (st or ()):
                    if f[0] == "G" and f[2] is True:
                        node = reg.get(f[1])
                        txt = f[1]
                        if is_node(node) and node["k"] == "Ref":
                            # a local initialised from a dynamic_cast / typed lookup of the dismember instance
                            for d in walk(fn["body"]):
                                if d["k"] in ("Decl",):
                                    for v in d.get("vars", []):
                                        if v["id"] == node.get("id") and is_node(v.get("init")):
                                            txt = show(v["init"]) + " " + (v.get("ct") or v.get("t") or "")
                                elif d["k"] == "If" and d.get("var") and d["var"]["id"] == node.get("id"):
                                    txt = show(d["var"].get("init")) + " " + (d["var"].get("ct") or d["var"].get("t") or "")
                        if "BSDismemberSkinInstance" in txt:
                            hit = True
                if not hit:
                    ok = False
            guarded[id(n)] = ok
        for kind in sorted(set(k for _, k in sp)):
            sites += 1
            mates = [n for n, k in dm if k == kind or (kind == "rebuild" and k in ("rebuild",))]
            ok = bool(mates) and all(guarded.get(id(n), False) for n in mates)
            chk.instance(R1, ok=ok, sample={"fn": fn["name"], "partition_edit": kind, "dismember_edits": len(mates)})
            if not ok:
                first = [n for n, k in sp if k == kind][0]
                why = "makes no matching edit of the dismember partition list" if not mates else \
                    "edits the dismember partition list without testing that the skin instance is a BSDismemberSkinInstance"
                chk.violation("R10.1", "C10/R10.1:%s:%s" % (fn["name"], kind), where(fn, first),
                              "%s changes the skin partition list (%s) but %s: body-part labels no longer line up with the partitions" % (
                                  fn["name"], kind, why))
    chk.floor(R1, 5)

    # ---------------------------------------------------------------- R10.2
    R2 = chk.rule("R10.2", "in the functions that edit the partition list, a block guarded by the dismember type test changes only "
                           "the dismember instance (and its own locals): the partitioning algorithm itself must not depend on "
                           "which kind of skin instance the shape has")
    for fn in sorted(F.fns.values(), key=lambda f: f["id"]):
        if fn.get("cls") != NIF or fn.get("tmpl") == "pattern" or not ops(fn, SKINPART):
            continue
        # locals holding a dismember instance
        dvars = set()
        for n in walk(fn["body"]):
            vs = n.get("vars", []) if n["k"] == "Decl" else ([n["var"]] if n["k"] in ("If", "While") and n.get("var") else [])
            for v in vs:
                if "BSDismemberSkinInstance" in (v.get("ct") or v.get("t") or ""):
                    dvars.add(v["id"])
        for blk in walk(fn["body"]):
            if blk["k"] != "If" or not is_node(blk.get("cond")):
                continue
            c = blk["cond"]
            guarded_var = None
            if c["k"] == "Ref" and c.get("id") in dvars:
                guarded_var = c["id"]
            if guarded_var is None:
                continue
            inner_decls = set()
            for x in walk(blk["then"]):
                if x["k"] == "Decl":
                    inner_decls |= {v["id"] for v in x.get("vars", [])}
                if x["k"] == "RangeFor":
                    inner_decls.add(x["var"]["id"])
            bad = []
            for x in walk(blk["then"]):
                tgt = None
                if x["k"] == "Assign":
                    tgt = x["l"]
                elif x["k"] == "Unary" and x["op"] in ("++", "--"):
                    tgt = x["e"]
                if tgt is None:
                    continue
                root = tgt
                while is_node(root) and root["k"] in ("Member", "Subscript", "Cast", "Unary", "OpCall", "Call"):
                    if root["k"] in ("Member", "Subscript"):
                        root = root.get("base")
                    elif root["k"] in ("Cast", "Unary"):
                        root = root.get("e")
                    elif root["k"] == "OpCall":
                        root = (root.get("args") or [None])[0]
                    else:
                        root = root.get("recv")
                if is_node(root) and root["k"] == "Ref" and root.get("rk") in ("local", "param"):
                    if root["id"] == guarded_var or root["id"] in inner_decls or root["id"] in dvars:
                        continue
                    bad.append((x, root["name"]))
            chk.instance(R2, ok=not bad, sample={"fn": fn["name"], "guard": show(c), "outer_variables_changed": [b[1] for b in bad]})
            for x, name in bad[:1]:
                chk.violation("R10.2", "C10/R10.2:%s:%s" % (fn["name"], name), where(fn, x),
                              "%s changes `%s` inside a block that only runs for BSDismemberSkinInstance: with a plain NiSkinInstance "
                              "the partitioning algorithm takes a different course" % (fn["name"], name))
    chk.floor(R2, 3)
    # ---------------------------------------------------------------- R10.3
    import c09
    R3 = chk.rule("R10.3", "when partitions are removed, the collapse map that renumbers the cached triangle->partition assignment is "
                           "built from the partition count before the partitions are erased")
    for fn, n, cont, ok in c09.collapse_before_erase(F, {"partitions": "numPartitions"}):
        if cont != "partitions":
            continue
        chk.instance(R3, ok=ok, sample={"fn": fn["name"], "map_sized_by": "numPartitions"})
        if not ok:
            chk.violation("R10.3", "C10/R10.3:%s" % fn["name"], where(fn, n),
                          "%s erases the partitions before it builds the collapse map from numPartitions: cached triangle "
                          "assignments to higher partitions are not renumbered and point past the partition list" % fn["name"])
    chk.floor(R3, 1)

    # ---------------------------------------------------------------- R10.4
    R4 = chk.rule("R10.4", "a partition's triangle lists are stored in the file only under its `hasFaces` flag (NiSkinPartition::Sync): a "
                           "function that fills `triangles` / `trueTriangles` of a partition from anything other than the partition's "
                           "own sibling list switches `hasFaces` on for the same partition, under no more conditions than the fill — "
                           "otherwise the saved file announces numTriangles and stores none, and after a reload those triangles lie "
                           "in no partition")
    import paths as _paths
    import pairing as _pairing
    PB = "nifly::NiSkinPartition::PartitionBlock"
    LISTS = ("triangles", "trueTriangles")
    gate_seen = False
    syncfn = F.fn1("nifly::NiSkinPartition::Sync")
    for n in walk(syncfn["body"]):
        if n["k"] == "If" and is_node(n.get("cond")) and any(x["k"] == "Member" and x.get("name") == "hasFaces" for x in walk(n["cond"])) \
                and any(x["k"] == "Member" and x.get("name") == "triangles" and x.get("owner") == PB for x in walk(n.get("then") or {})):
            gate_seen = True
    if not gate_seen:
        raise report.Broken("R10.4: NiSkinPartition::Sync no longer stores `triangles` under `hasFaces`")

    def _obj(env, m):
        b = m.get("base")
        return _paths.THIS if b is None else env.path(b)

    # methods of the partition that switch the flag on unconditionally (a statement of the body itself, not nested in a branch)
    flag_setters = set()
    for g in F.fns.values():
        if g.get("cls") == PB and is_node(g.get("body")) and g["body"]["k"] == "Compound":
            for st_ in g["body"].get("body", []):
                if any(x["k"] == "Return" for x in walk(st_)):
                    break  # an early return in front of the assignment makes it conditional
                if st_["k"] == "Assign" and st_["op"] == "=" and is_node(st_["l"]) and st_["l"]["k"] == "Member" and \
                        st_["l"].get("name") == "hasFaces" and is_node(st_["r"]) and st_["r"].get("val") in (1, True):
                    flag_setters.add(g["id"])
    n4 = 0
    for fn in sorted(F.fns.values(), key=lambda f: f["id"]):
        if not fn.get("body") or fn.get("tmpl") == "pattern" or not (fn.get("file") or "").startswith(("src/", "include/")):
            continue
        if fn.get("short") in ("Sync", "Get", "Put") or fn.get("ctor"):
            continue
        fills, flags = [], []
        env = None
        for n in walk(fn["body"]):
            if n["k"] == "Call" and n.get("fid") in flag_setters and is_node(n.get("recv")):
                env = env or _paths.PathEnv(F, fn)
                flags.append((n, env.path(n["recv"])))
                continue
            tgt = src = None
            if n["k"] == "OpCall" and n.get("op") == "=" and len(n.get("args", [])) == 2:
                tgt, src = n["args"]
            elif n["k"] == "Call" and n.get("ext") and n.get("short") in ("push_back", "emplace_back", "insert", "assign") and is_node(n.get("recv")):
                tgt, src = n["recv"], {"k": "Tuple", "args": n.get("args", [])}
            elif n["k"] == "Assign" and n["op"] == "=" and is_node(n["l"]) and n["l"]["k"] == "Member" and n["l"].get("name") == "hasFaces" \
                    and n["l"].get("owner") == PB:
                if is_node(n["r"]) and n["r"].get("val") in (1, True):
                    env = env or _paths.PathEnv(F, fn)
                    flags.append((n, _obj(env, n["l"])))
                continue
            while is_node(tgt) and tgt["k"] == "Cast":
                tgt = tgt["e"]
            if not (is_node(tgt) and tgt["k"] == "Member" and tgt.get("name") in LISTS and tgt.get("owner") == PB):
                continue
            env = env or _paths.PathEnv(F, fn)
            obj = _obj(env, tgt)
            sibling = False
            for x in walk(src if is_node(src) else {"k": "Tuple", "args": []}):
                if x["k"] == "Member" and x.get("name") in LISTS and x.get("owner") == PB and x.get("name") != tgt["name"]:
                    sibling = True  # derived from the partition's other list: non-empty only if that one already was
            if is_node(src) and src.get("k") == "Construct" and not src.get("args"):
                continue  # `= {}`
            if sibling:
                continue
            fills.append((n, obj, tgt["name"]))
        if not fills:
            continue
        sig = _pairing.guard_sig(F, fn, [x[0] for x in fills] + [x[0] for x in flags])
        for n, obj, lst in fills:
            n4 += 1
            ok = any(fo == obj and sig.get(id(fnode), frozenset()) <= sig.get(id(n), frozenset()) for fnode, fo in flags)
            chk.instance(R4, ok=ok, sample={"fn": fn["name"], "fills": "%s.%s" % (_paths.render(obj) if obj else "?", lst)})
            if not ok:
                chk.violation("R10.4", "C10/R10.4:%s:%s" % (fn["name"], lst), where(fn, n),
                              "%s fills `%s` of a partition (%s) without switching that partition's `hasFaces` on: the file written "
                              "from it announces the triangles (numTriangles) but stores none, so after a reload the shape's "
                              "triangles lie in no partition" % (fn["name"], lst, _paths.render(obj) if obj else "?"))
    chk.floor(R4, 3)

    # ---------------------------------------------------------------- R10.5
    R5 = chk.rule("R10.5", "a NifFile function that creates a BSDismemberSkinInstance for a shape whose partitions it edits fills the new "
                           "instance's partition list afterwards: the assignment of `partitions` of a dismember instance follows the "
                           "creation (a list assigned only on the branch that found an existing instance leaves the freshly converted "
                           "one empty next to N skin partitions)")
    DIS = "nifly::BSDismemberSkinInstance"
    n5 = 0

    def _lc5(n_):
        try:
            a_, b_ = (n_.get("loc") or "0:0").split(":")[:2]
            return (int(a_), int(b_))
        except ValueError:
            return (0, 0)

    for fn in sorted(F.fns.values(), key=lambda f: f["id"]):
        if fn.get("cls") != "nifly::NifFile" or not fn.get("body") or fn.get("tmpl") == "pattern":
            continue
        creates = [n for n in walk(fn["body"]) if n["k"] == "Call" and n.get("short") == "make_unique" and DIS in (n.get("t") or n.get("ct") or "") + str(n.get("targs", ""))]
        if not creates:
            continue
        edits_partitions = any(x["k"] == "Member" and x.get("name") == "partitions" and x.get("owner") == "nifly::NiSkinPartition" for x in walk(fn["body"])) or \
            any(x["k"] == "Call" and x.get("short") in ("GenerateTrueTrianglesFromTriParts", "DeletePartitions") for x in walk(fn["body"]))
        if not edits_partitions:
            continue
        fills = []
        for n in walk(fn["body"]):
            tgt = None
            if n["k"] == "OpCall" and n.get("op") == "=" and n.get("args"):
                tgt = n["args"][0]
            elif n["k"] == "Call" and n.get("ext") and n.get("short") in ("push_back", "emplace_back", "resize", "assign") and is_node(n.get("recv")):
                tgt = n["recv"]
            while is_node(tgt) and tgt["k"] == "Cast":
                tgt = tgt["e"]
            if is_node(tgt) and tgt["k"] == "Member" and tgt.get("name") == "partitions" and tgt.get("owner") == DIS:
                fills.append(n)
        for c in creates:
            n5 += 1
            ok = any(_lc5(f_) > _lc5(c) for f_ in fills)
            chk.instance(R5, ok=ok, sample={"fn": fn["name"], "creates_at": c.get("loc"), "list_edits": len(fills)})
            if not ok:
                chk.violation("R10.5", "C10/R10.5:%s" % fn["name"].split("(")[0], where(fn, c),
                              "%s creates a BSDismemberSkinInstance while editing the shape's partitions and never fills its partition "
                              "list after the creation: the converted instance has 0 entries next to the N skin partitions" % fn["name"])
    chk.floor(R5, 1)

    chk.assumptions += ["exact cover of triangles, the per-game bone limit and weights summing to one are value-level and not decided"]
    chk.extra["explanation"] = ("only the clause 'the dismember partition list stays aligned with the partitions' is decided "
                                "(sibling agreement of partition-list edits); everything numeric in C10 is not decided")
