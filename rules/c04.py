"""C04 — default save only permutes blocks and prunes unreferenced ones (DESIGN §5 C04)."""
from facts import is_node, walk, where, show
import flow
import pairing
import staleidx

NIF = "nifly::NifFile"
HDR = "nifly::NiHeader"
SORTSTATE = "nifly::NifFile::SortState"


def _aliases(fn):
    """local -> local aliases through single-assignment initialisers that are (casts of) another variable"""
    assigned = {}
    init = {}
    for n in walk(fn.get("body") or {}):
        if n["k"] == "Decl":
            for v in n.get("vars", []):
                i = v.get("init")
                while is_node(i) and i["k"] == "Cast":
                    i = i["e"]
                if is_node(i) and i["k"] == "Ref" and i.get("rk") in ("local", "param"):
                    init[v["name"]] = i["name"]
        elif n["k"] == "Assign" and is_node(n["l"]) and n["l"]["k"] == "Ref":
            assigned[n["l"]["name"]] = True
        elif n["k"] == "Unary" and n["op"] in ("++", "--") and is_node(n["e"]) and n["e"]["k"] == "Ref":
            pass
    return {a: b for a, b in init.items() if a not in assigned}


def _canon(x, al):
    for _ in range(4):
        if x in al:
            x = al[x]
    return x


def _is_member(e, name, owner=None):
    return is_node(e) and e["k"] == "Member" and e.get("name") == name and (owner is None or e.get("owner") == owner)


def run(F, chk):
    R1 = chk.rule("R4.1", "every non-identity store to SortState::newIndices[x] assigns newIndex++, is control-dependent on x not "
                          "being in visitedIndices, and is followed on all paths by visitedIndices.insert(x): no index is handed out twice")
    R2 = chk.rule("R4.2", "every call of NiHeader::SetBlockOrder from NifFile is dominated by a completion loop over the whole "
                          "index map that assigns every unvisited slot: the map is total")
    R3 = chk.rule("R4.3", "SetBlockOrder scatters blocks, blockTypeIndices and (gated) blockSizes through newOrder[i], remaps both "
                          "reference kinds and rejects a map of the wrong length")
    R4 = chk.rule("R4.4", "pruning deletes only blocks that are unreferenced and not the root, restarts its scan after each "
                          "deletion, and the sort/prune call tree reaches no other block-list mutator")
    R5 = chk.rule("R4.5", "functions reachable from PrettySortBlocks / Optimize write only sort state, child arrays, reference "
                          "indices, header tables and bounds")

    # ------------------------------------------------------------------ R4.1
    stores = []
    for fn in sorted(F.fns.values(), key=lambda f: f["id"]):
        if fn.get("cls") != NIF or fn.get("tmpl") == "pattern":
            continue
        st_nodes = [n for n in walk(fn.get("body") or {}) if n["k"] == "Assign" and n["op"] == "=" and is_node(n["l"])
                    and n["l"]["k"] == "Subscript" and _is_member(n["l"]["base"], "newIndices", SORTSTATE)]
        if not st_nodes:
            continue
        al = _aliases(fn)
        ids = {id(n) for n in st_nodes}

        class W(flow.Collect):
            def on_node(self, n, st):
                st = super().on_node(n, st)
                if st is None:
                    return st
                if id(n) in ids:
                    x = _canon(show(n["l"]["idx"]), al)
                    rhs = n["r"]
                    while is_node(rhs) and rhs["k"] == "Cast":
                        rhs = rhs["e"]
                    identity = is_node(rhs) and rhs["k"] == "Ref" and _canon(rhs["name"], al) == x
                    if not identity:
                        return st | {("O", "mark:" + x)}
                if n["k"] == "Call" and n.get("ext") and n.get("short") == "insert" and \
                        _is_member(n.get("recv"), "visitedIndices", SORTSTATE) and n.get("args"):
                    x = _canon(show(n["args"][0]), al)
                    return frozenset(f for f in st if f != ("O", "mark:" + x))
                return st

        w = W(F, fn, lambda n: id(n) in ids)
        w.run()
        leftover = set(f[1] for _, _, st in w.exits for f in (st or ()) if f[0] == "O" and f[1].startswith("mark:"))
        for n, sts in w.by_node():
            x = _canon(show(n["l"]["idx"]), al)
            rhs = n["r"]
            while is_node(rhs) and rhs["k"] == "Cast":
                rhs = rhs["e"]
            identity = is_node(rhs) and rhs["k"] == "Ref" and _canon(rhs["name"], al) == x
            if identity:
                chk.instance(R1, ok=True, sample={"fn": fn["name"], "store": show(n), "kind": "identity initialisation"},
                             nontrivial=False)
                continue
            fresh = is_node(rhs) and rhs["k"] == "Unary" and rhs["op"] == "++" and rhs.get("post") and \
                _is_member(rhs["e"], "newIndex", SORTSTATE)
            _, xn = F.expander(fn)  # `const auto& visited = sortState.visitedIndices;` is that container
            guarded = all(any(_canon(e, al) == x and ("visitedIndices" in v or "visitedIndices" in xn.get(v, ""))
                              for v, e in flow.notin_guards(st)) for st in sts)
            marked = ("mark:" + x) not in leftover
            ok = fresh and guarded and marked
            chk.instance(R1, ok=ok, sample={"fn": fn["name"], "store": show(n), "fresh": fresh, "guarded": guarded, "marked": marked})
            stores.append(fn["name"])
            if not ok:
                why = []
                if not fresh:
                    why.append("the value is not a fresh `newIndex++`")
                if not guarded:
                    why.append("it is not control-dependent on `%s` being absent from visitedIndices" % x)
                if not marked:
                    why.append("`%s` is not inserted into visitedIndices on every path afterwards" % x)
                chk.violation("R4.1", "C04/R4.1:%s:%s" % (fn["name"], x), where(fn, n),
                              "sort index store `%s` in %s: %s — two blocks can receive the same new index (one is lost, one "
                              "duplicated after SetBlockOrder)" % (show(n), fn["name"], "; ".join(why)))
    chk.floor(R1, 4)

    # ------------------------------------------------------------------ R4.2
    for fn in sorted(F.fns.values(), key=lambda f: f["id"]):
        if fn.get("cls") != NIF or fn.get("tmpl") == "pattern":
            continue
        if not any(n["k"] == "Call" and n.get("fn") == "nifly::NiHeader::SetBlockOrder" for n in walk(fn.get("body") or {})):
            continue
        fn = F.inl(fn)  # the completion loop may live in a file-static helper (`AssignUnvisitedSortIndices(sortState)`)
        calls = [n for n in walk(fn.get("body") or {}) if n["k"] == "Call" and n.get("fn") == "nifly::NiHeader::SetBlockOrder"]
        al = _aliases(fn)
        pairing.set_fn(fn)
        xnames2 = F.expander(fn)[1]

        def _is_state_member(e_, name_, hops=0):
            # through reference locals (`auto& newIndices = sortState.newIndices;`) and casts
            while is_node(e_) and hops < 6:
                hops += 1
                if e_["k"] == "Cast":
                    e_ = e_["e"]
                elif e_["k"] == "Ref" and e_.get("id") in pairing._ALIAS:
                    e_ = pairing._ALIAS[e_["id"]]
                else:
                    break
            return _is_member(e_, name_, SORTSTATE)

        order = [id(n) for n in walk(fn["body"])]
        for c in calls:
            ok = False
            for l in walk(fn["body"]):
                if l["k"] != "For" or order.index(id(l)) > order.index(id(c)):
                    continue
                cond = l.get("cond")
                if not (is_node(cond) and cond["k"] == "Binary" and cond["op"] == "<" and "newIndices.size()" in show(cond["r"])):
                    continue
                init0 = is_node(l.get("init")) and l["init"]["k"] == "Decl" and l["init"]["vars"] and \
                    is_node(l["init"]["vars"][0].get("init")) and l["init"]["vars"][0]["init"].get("val") == 0
                body_stores = [x for x in walk(l["body"]) if x["k"] == "Assign" and is_node(x["l"]) and x["l"]["k"] == "Subscript"
                               and (_is_member(x["l"]["base"], "newIndices", SORTSTATE) or _is_state_member(x["l"]["base"], "newIndices")) and
                               any(y["k"] == "Unary" and y["op"] == "++" and (_is_member(y["e"], "newIndex", SORTSTATE) or
                                                                             _is_state_member(y["e"], "newIndex")) for y in walk(x["r"]))]
                if init0 and body_stores:
                    # the store is only conditioned on the slot being unvisited (no other filter may skip a slot)
                    sig = pairing.guard_sig(F, fn, body_stores)
                    extra = [k for k, p in sig[id(body_stores[0])] if "visitedIndices" not in k and "visitedIndices" not in xnames2.get(k, "")
                             and "newIndices.size()" not in k
                             and "hasUnknown" not in k and ".empty()" not in k and ".size()" not in k and k not in ("shape", "root")]
                    loopvar = l["init"]["vars"][0]["name"]
                    extra = [k for k in extra if _mentions(k, loopvar, al)]
                    if not extra:
                        ok = True
            chk.instance(R2, ok=ok, sample={"fn": fn["name"], "SetBlockOrder_dominated_by_completion_loop": ok})
            if not ok:
                chk.violation("R4.2", "C04/R4.2:%s" % fn["name"], where(fn, c),
                              "%s calls SetBlockOrder without first completing the index map for every unvisited slot: a block "
                              "the traversal did not reach keeps its old index and collides with a newly assigned one" % fn["name"])
            # the argument is the state's map
            a = c.get("args", [None])[0]
            ok2 = _is_member(a, "newIndices", SORTSTATE)
            chk.instance(R2, ok=ok2, sample={"fn": fn["name"], "argument": show(a)})
            if not ok2:
                chk.violation("R4.2", "C04/R4.2:%s:arg" % fn["name"], where(fn, c), "SetBlockOrder is not given the completed map")
    chk.floor(R2, 4)

    # ------------------------------------------------------------------ R4.3
    sbo = F.inl(F.fn1("nifly::NiHeader::SetBlockOrder"))
    param = sbo["params"][0]["name"]
    body = sbo["body"]
    xshow, xnames = F.expander(sbo)  # hoisted locals (`const uint32_t newIndex = newOrder[i];`) read as their initialiser
    scattered = {}
    for n in walk(body):
        tgt = src = None
        if n["k"] == "Assign" and n["op"] == "=":
            tgt, src = n["l"], n["r"]
        elif n["k"] == "OpCall" and n.get("op") == "=" and len(n.get("args", [])) == 2:
            tgt, src = n["args"]
        if is_node(tgt) and tgt["k"] == "Subscript" and xshow(tgt["idx"]).startswith(param + "["):
            for t in ("blockTypeIndices", "blockSizes", "blocks"):
                if t in show(src):
                    scattered[t] = (show(tgt["base"]), xshow(tgt["idx"]), n)
    moved = {}
    moved_node = {}
    for n in walk(body):
        tgt = src = None
        if n["k"] == "Assign" and n["op"] == "=":
            tgt, src = n["l"], n["r"]
        elif n["k"] == "OpCall" and n.get("op") == "=" and len(n.get("args", [])) == 2:
            tgt, src = n["args"]
        m, whole = pairing.member_root(tgt, HDR) if is_node(tgt) else (None, False)
        if m in ("blocks", "blockTypeIndices", "blockSizes") and whole and is_node(tgt) and tgt["k"] != "Subscript":
            moved[m] = show(src)
            moved_node[m] = n
    # the block list and the type index table exist in every version: their permutation must not depend on the version
    for t in ("blocks", "blockTypeIndices"):
        nodes_ = [x for x in (scattered.get(t, (None, None, None))[2], moved_node.get(t)) if x is not None]
        if not nodes_:
            continue
        sigs = pairing.guard_sig(F, sbo, nodes_)
        gated_by = sorted(k for x in nodes_ for k, p_ in sigs.get(id(x), ()) if not k.startswith("V{") and any(w in k or w in xnames.get(k, "") for w in ("File()", "Stream()", "User()")))
        ok = not gated_by
        chk.instance(R3, ok=ok, sample={"table": t, "version_gate": gated_by})
        if not ok:
            chk.violation("R4.3", "C04/R4.3:SetBlockOrder:%s-gate" % t, where(sbo, nodes_[0]),
                          "SetBlockOrder permutes `%s` only under the version condition %s, but the table exists in every version: for "
                          "the other versions a sort moves the blocks and leaves the table behind, so it describes other blocks than "
                          "the block list holds" % (t, gated_by))
    for t in ("blocks", "blockTypeIndices", "blockSizes"):
        ok = t in scattered and t in moved and scattered[t][0] in moved[t]
        chk.instance(R3, ok=ok, sample={"table": t, "scatter": scattered.get(t, (None, None))[:2], "installed_from": moved.get(t)})
        if not ok:
            chk.violation("R4.3", "C04/R4.3:SetBlockOrder:%s" % t, where(sbo),
                          "SetBlockOrder does not apply the permutation to `%s`: after a sort the header table describes other "
                          "blocks than the block list holds" % t)
    if "blockSizes" in scattered:
        sig = pairing.guard_sig(F, sbo, [scattered["blockSizes"][2]])
        ok = any("File()" in k or "File()" in xnames.get(k, "") for k, p in sig[id(scattered["blockSizes"][2])])
        chk.instance(R3, ok=ok, sample={"blockSizes_gate": ok})
        if not ok:
            chk.violation("R4.3", "C04/R4.3:SetBlockOrder:blockSizes-gate", where(sbo),
                          "SetBlockOrder permutes blockSizes outside the version gate under which the table exists")
    remaps = {"GetChildRefs": False, "GetPtrs": False}
    # effect summary of SetBlockOrder (helper lambdas and functions composed in): an assignment `X.index = newOrder[X.index]` through
    # an element of the very collection that the enumerator filled
    import paths as _paths

    def _prim(n, env, fn, st):
        if n["k"] == "Assign" and n["op"] == "=":
            pth = env.path(n["l"])
            if pth is not None and pth[-1] == "index":
                sub = n["r"]["k"] == "Subscript"
                return [_paths.Event(pth, "remap", {"rhs": show(n["r"]), "same_element": sub and env.path(n["r"]["idx"]) == pth,
                                                     "table": show(n["r"]["base"]) if sub else None})]
            return None
        if n["k"] == "Call" and n.get("ext"):
            return []
        return None

    S3 = _paths.Summarizer(F, _prim, node_kinds=("Call", "OpCall", "Construct", "Assign"))
    evs3 = [e for e in S3.events(sbo["id"]) if e.kind == "remap"]
    for loop in walk(body):
        if loop["k"] != "RangeFor":
            continue
        for k in remaps:
            calls = [x for x in walk(loop["body"]) if x["k"] == "Call" and x.get("short") == k and x.get("virt")]
            if not calls:
                continue
            a0 = calls[0]["args"][0]
            while is_node(a0) and a0["k"] in ("Cast", "Unary"):
                a0 = a0["e"]
            if not (is_node(a0) and a0["k"] == "Ref"):
                continue
            for e in evs3:
                root = e.path[0]
                if root[0] == "$v" and root[1] == a0["id"] and e.path[1:] == ("[*]", "index") and e.info.get("table") == param \
                        and e.info.get("same_element"):
                    remaps[k] = True
    for k, ok in remaps.items():
        chk.instance(R3, ok=ok, sample={"remap": k, "ok": ok})
        if not ok:
            chk.violation("R4.3", "C04/R4.3:SetBlockOrder:%s" % k, where(sbo),
                          "SetBlockOrder does not rewrite the references reported by %s through the new order" % k)
    first = body["body"][0] if body["body"] else None
    first = next((x for x in (body["body"] or []) if x["k"] != "Decl"), first)  # declarations of hoisted values may come first
    ok = is_node(first) and first["k"] == "If" and "%s.size()" % param in xshow(first["cond"]) and "numBlocks" in xshow(first["cond"]) \
        and any(x["k"] == "Return" for x in walk(first["then"]))
    chk.instance(R3, ok=ok, sample={"size_mismatch_early_return": ok})
    if not ok:
        chk.violation("R4.3", "C04/R4.3:SetBlockOrder:size", where(sbo), "SetBlockOrder no longer rejects an order map of the wrong length")
    chk.floor(R3, 6)

    # ------------------------------------------------------------------ R4.4
    prunes = [f for f in F.fns.values() if f.get("cls") == HDR and f["short"] == "DeleteUnreferencedBlocks" and f.get("tmpl") != "pattern"]
    chk.require(len(prunes) >= 1, "no instantiation of NiHeader::DeleteUnreferencedBlocks<T> found")
    S = staleidx.StaleIndex(F)
    for fn in prunes:
        dels = [n for n in walk(fn["body"]) if n["k"] == "Call" and n.get("short") == "DeleteBlock"]
        ids = {id(n) for n in dels}
        col = flow.Collect(F, fn, lambda n: id(n) in ids)
        col.run()
        rootp = fn["params"][0]["name"]
        for n, sts in col.by_node():
            i = show(n["args"][0])
            unref = all(any(f[0] == "G" and f[1].startswith("IsBlockReferenced(%s" % i) and f[2] is False for f in (st or ()))
                        or st is None for st in sts)
            al = _aliases(fn)
            roots_names = {rootp} | {a for a in al if _canon(a, al) == rootp}
            notroot = all(st is None or any(flow.has_guard(st, "(%s == %s)" % tuple(sorted([i, r])), False) for r in roots_names)
                          for st in sts)
            ok = unref and notroot
            chk.instance(R4, ok=ok, sample={"fn": fn["name"], "DeleteBlock": i, "unreferenced_test": unref, "root_test": notroot})
            if not ok:
                chk.violation("R4.4", "C04/R4.4:%s:guard" % fn["name"].split("<")[0], where(fn, n),
                              "the pruner deletes block `%s` without %s" % (i, "the IsBlockReferenced test" if not unref else "excluding the root"))
        # restart after deletion: every path from a DeleteBlock leaves the scan (return / tail call) or resets the scan variable
        restart = _restarts_after_delete(F, fn)
        chk.instance(R4, ok=restart, sample={"fn": fn["name"], "scan_restarts_after_each_deletion": restart})
        if not restart:
            chk.violation("R4.4", "C04/R4.4:%s:restart" % fn["name"].split("<")[0], where(fn),
                          "after deleting a block the pruner keeps scanning forward: a block at a lower index that just became "
                          "unreferenced survives this save and is pruned by a later one (saves no longer converge)")
        # stale index (shared with C06 R6.5)
        uses, finds = S.analyse(fn)
        ok = not finds
        chk.instance(R4, ok=ok, sample={"fn": fn["name"], "block_index_uses": uses, "stale": [x["name"] for x in finds]})
        for x in {x["name"]: x for x in finds}.values():
            chk.violation("R4.4", "C04/R4.4:%s:stale:%s" % (fn["name"].split("<")[0], x["name"]), where(fn, x),
                          "`%s` still holds the pre-deletion index of the protected root: after a block below it was deleted the "
                          "guard protects the wrong block and the real root can be pruned" % x["name"])
    # effect containment of the mutators
    roots = [F.fn1("nifly::NifFile::PrettySortBlocks")["id"], F.fn1("nifly::NifFile::Optimize")["id"]]
    reach = F.reachable(roots)
    forbidden = {"AddBlock", "ReplaceBlock", "DeleteBlockByType"}
    for fid in sorted(reach):
        fn = F.fns.get(fid)
        if not fn:
            continue
        for n, ts in F.calls_in(fn):
            if n["k"] == "Call" and n.get("cls") == HDR and n.get("short") in forbidden:
                chk.instance(R4, ok=False, sample={"fn": fn["name"], "calls": n.get("short")})
                chk.violation("R4.4", "C04/R4.4:%s->%s" % (fn["name"], n.get("short")), where(fn, n),
                              "the default save's sort/prune call tree reaches NiHeader::%s" % n.get("short"))
            if n["k"] == "Call" and n.get("cls") == HDR and n.get("short") == "DeleteBlock" and \
                    not (fn.get("cls") == HDR and fn["short"] in ("DeleteUnreferencedBlocks", "DeleteBlock")):
                chk.instance(R4, ok=False, sample={"fn": fn["name"], "calls": "DeleteBlock"})
                chk.violation("R4.4", "C04/R4.4:%s->DeleteBlock" % fn["name"], where(fn, n),
                              "the default save deletes a block outside the unreferenced-block pruner")
    chk.extra["sort_prune_reachable_functions"] = len([f for f in reach if f in F.fns])
    chk.floor(R4, 3)

    # ------------------------------------------------------------------ R4.5
    allowed_owner_member = {
        (SORTSTATE, None): "sort state",
        ("nifly::NiRef", "index"): "reference indices (SetBlockOrder / BlockDeleted)",
        ("nifly::NiRefArray", "arraySize"): "child-array rebuild",
        ("nifly::NiRefArray", "keepEmptyRefs"): "child-array rebuild",
        (HDR, "blockTypeIndices"): "header tables", (HDR, "blockSizes"): "header tables", (HDR, "numBlocks"): "header tables",
        (HDR, "blockTypes"): "header tables", (HDR, "numBlockTypes"): "header tables", (HDR, "blocks"): "header tables",
    }
    writes = 0
    for fid in sorted(reach):
        fn = F.fns.get(fid)
        if not fn or fn.get("tmpl") == "pattern" or fn.get("ctor"):
            continue
        for n in walk(fn.get("body") or {}):
            tgt = None
            if n["k"] == "Assign":
                tgt = n["l"]
            elif n["k"] == "Unary" and n["op"] in ("++", "--"):
                tgt = n["e"]
            if not is_node(tgt):
                continue
            mem = _outer_member(tgt)
            if mem is None:
                continue
            owner, name = mem.get("owner"), mem["name"]
            writes += 1
            why = None
            if (owner, None) in allowed_owner_member:
                why = allowed_owner_member[(owner, None)]
            elif (owner, name) in allowed_owner_member:
                why = allowed_owner_member[(owner, name)]
            elif (owner or "").startswith("nifly::NiBlockRefArray<") or owner == "nifly::NiRefArray":
                why = "child-array rebuild"
            elif _bounds_member(F, fn, owner, name):
                why = "recomputed bounds"
            elif not F.derives_from(owner or "", "nifly::NiObject") and not _is_block_part(F, owner):
                why = "not a block field (%s)" % owner
            ok = why is not None
            chk.instance(R5, ok=ok, sample={"fn": fn["name"], "writes": "%s::%s" % (owner, name), "as": why})
            if not ok:
                chk.violation("R4.5", "C04/R4.5:%s:%s::%s" % (fn["name"], owner, name), where(fn, n),
                              "%s (reachable from the default save's sort/prune) writes block field %s::%s: a field value of a "
                              "surviving block changes" % (fn["name"], owner, name))
    chk.extra["member_writes_in_sort_prune_tree"] = writes
    chk.floor(R5, 10)

    # ------------------------------------------------------------------ R4.6
    n_ = chk.share(F, "c05", ["R5.1", "R5.2", "R5.5"], "R4.6",
                   "SetBlockOrder and the pruner renumber exactly the references the enumerators report: a reference that is "
                   "serialised but not (or doubly, or only conditionally) enumerated designates another block after a sort")
    chk.floor("R4.6", 600)

    # ------------------------------------------------------------------ R4.8
    R8 = chk.rule("R4.8", "the counter that hands out new block positions (SortState::newIndex) starts at zero and only ever counts up by "
                          "one: no function assigns it — a sort that starts the counter at a block's old number (the root of a model "
                          "whose root is not block 0) hands out positions past the end of the block list, so the order given to "
                          "SetBlockOrder is no permutation")
    n8 = 0
    for fn in sorted(F.fns.values(), key=lambda f: f["id"]):
        if not fn.get("body") or fn.get("tmpl") == "pattern" or not (fn.get("file") or "").startswith(("src/", "include/")):
            continue
        for n in walk(fn["body"]):
            tgt = None
            if n["k"] == "Unary" and n["op"] in ("++", "--"):
                tgt, how = n["e"], n["op"]
            elif n["k"] == "Assign":
                tgt, how = n["l"], n["op"]
            else:
                continue
            while is_node(tgt) and tgt["k"] == "Cast":
                tgt = tgt["e"]
            if not (is_node(tgt) and tgt["k"] == "Member" and tgt.get("name") == "newIndex" and "SortState" in (tgt.get("owner") or "")):
                continue
            n8 += 1
            ok = how == "++"
            chk.instance(R8, ok=ok, sample={"fn": fn["name"], "op": how, "at": n.get("loc")})
            if not ok:
                chk.violation("R4.8", "C04/R4.8:%s" % fn["name"].split("(")[0], where(fn, n),
                              "%s sets the position counter of the sort with `%s` instead of letting it count up from zero: the new "
                              "order handed to SetBlockOrder is not a permutation of the block list (positions past its end, slots "
                              "left empty)" % (fn["name"], show(n)))
    chk.floor(R8, 3)

    # ------------------------------------------------------------------ R4.9
    chk.share(F, "c03", ["R3.1", "R3.2", "R3.3"], "R4.9",
              "the default save may only sort and prune a model all of whose blocks it understands: the hasUnknown flag is set where "
              "an opaque block is created, survives copying, and guards every path to a reorder / bulk prune — references hidden in "
              "opaque payloads are invisible to the sort, so a copy that lost the flag loses the blocks only they reference")
    chk.floor("R4.9", 20)

    # ------------------------------------------------------------------ R4.7
    chk.share(F, "c15", ["R15.3"], "R4.7",
              "a block is given its place in the new order once: every recursive step of the sort (SetSortIndices and the Sort* "
              "walkers that can reach themselves again) sits behind a visited test — a walker re-entered for a block that is still "
              "pending hands out a second index, so the order is no longer a permutation of the block list")
    chk.floor("R4.7", 10)

    chk.assumptions += ["C05: every reference is enumerated, so remapping the enumerated references remaps all of them",
                        "that SortGraph's rebuilt child array is a permutation of the old one, that the root ends up first and "
                        "that sorting is idempotent are value-level and not decided"]
    chk.extra["explanation"] = ("index-assignment discipline of the sorter (injective + total), permutation applied to all parallel "
                                "tables and both reference kinds, prune guards / restart / stale-index discipline, effect "
                                "containment of the sort/prune call tree; value-level filters inside SortGraph are not decided")


def _mentions(key, var, al):
    import re
    names = {var} | {a for a, b in al.items() if _canon(a, al) == var}
    return any(re.search(r"\b%s\b" % re.escape(nm), key) for nm in names)


def _outer_member(e):
    """the innermost field node that is written (last member in the access chain), if the lvalue is rooted at an object"""
    while is_node(e):
        if e["k"] == "Member" and e.get("mk", "field") == "field":
            return e
        if e["k"] == "Subscript":
            e = e["base"]
        elif e["k"] in ("Cast",):
            e = e["e"]
        elif e["k"] == "Unary" and e["op"] == "*":
            e = e["e"]
        else:
            return None
    return None


def _bounds_member(F, fn, owner, name):
    n = (name or "").lower()
    return "bound" in n or (owner in ("nifly::BoundingSphere",)) or fn["short"] in ("UpdateBounds", "SetBounds", "UpdateRawVertices") \
        or n in ("rawvertices",)


def _is_block_part(F, owner):
    """is `owner` a record used (transitively) as a member of a block class?"""
    if not owner:
        return False
    cache = getattr(F, "_block_parts", None)
    if cache is None:
        import cxxtypes
        parts = set()
        work = list(F.block_classes())
        seen = set()
        while work:
            r = work.pop()
            if r in seen:
                continue
            seen.add(r)
            rec = F.recs.get(r)
            if not rec:
                continue
            for b in F.bases(r):
                work.append(b)
            for fld in rec.get("fields", []):
                for x in cxxtypes.parse(fld["ct"]).walk():
                    if x.name in F.recs:
                        parts.add(x.name)
                        work.append(x.name)
                    elif x.name.startswith("nifly::") and x.args:
                        for rn in F.recs:
                            if rn.startswith(x.name + "<") and rn in fld["ct"]:
                                parts.add(rn)
                                work.append(rn)
        F._block_parts = parts
        cache = parts
    return owner in cache


def _restarts_after_delete(F, fn):
    """after a DeleteBlock(i) the scan over i must start over: the state reaching the condition of the loop that scans
    `i` must not carry a pending deletion, unless `i` was re-initialised (a fresh for-init / assignment of a constant)
    or the function was left (return / tail call).  `i--` or falling through to `i++` is a forward-only continuation."""
    ok = [True]
    scan_vars = set()
    for n in walk(fn["body"]):
        if n["k"] == "Call" and n.get("short") == "DeleteBlock" and n.get("args"):
            a = n["args"][0]
            while is_node(a) and a["k"] == "Cast":
                a = a["e"]
            if is_node(a) and a["k"] == "Ref":
                scan_vars.add(a["name"])
    loop_conds = {}
    for n in walk(fn["body"]):
        if n["k"] in ("For", "While", "Do") and is_node(n.get("cond")):
            names = set(x["name"] for x in walk(n["cond"]) if x["k"] == "Ref")
            if names & scan_vars:
                loop_conds[id(n["cond"])] = names & scan_vars

    class R(flow.Flow):
        def on_node(self, n, st):
            if st is None:
                return st
            if n["k"] == "Call" and n.get("short") == "DeleteBlock" and n.get("args"):
                a = n["args"][0]
                while is_node(a) and a["k"] == "Cast":
                    a = a["e"]
                if is_node(a) and a["k"] == "Ref":
                    return st | {("O", "deleted:" + a["name"])}
            if n["k"] == "Assign" and n["op"] == "=" and is_node(n["l"]) and n["l"]["k"] == "Ref" and is_node(n["r"]) and \
                    n["r"].get("val") is not None:
                return frozenset(f for f in st if f != ("O", "deleted:" + n["l"]["name"]))
            return st

        def on_decl(self, v, st):
            if st is None:
                return st
            return frozenset(f for f in st if f != ("O", "deleted:" + v["name"]))

        def cond(self, e, st):
            if not self.muted and st is not None and id(e) in loop_conds:
                for nm in loop_conds[id(e)]:
                    if ("O", "deleted:" + nm) in st:
                        ok[0] = False
            return flow.Flow.cond(self, e, st)

    R(F, fn).run()
    return ok[0]
