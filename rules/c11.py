"""C11 — a copied model is equal to and fully independent of its source (DESIGN §5 C11).

Independence is an ownership census: member-wise copy of classes whose members are arithmetic / enum / std value
containers of such is a deep copy, so the copy can share state with its source only through a pointer-like member,
a user-written copy operation that skips a member, or mutable static storage.
"""
from facts import is_node, walk, where, show
import cxxtypes
import flow
import report

VALUE_TEMPLATES = {"std::vector", "std::basic_string", "std::array", "std::set", "std::map", "std::unordered_map",
                   "std::unordered_set", "std::deque", "std::pair", "std::tuple", "std::optional", "std::allocator",
                   "std::less", "std::hash", "std::equal_to", "std::char_traits", "std::bitset", "std::multimap",
                   "std::multiset", "std::list", "std::fpos", "std::default_delete"}
SHARING_TEMPLATES = {"std::shared_ptr", "std::weak_ptr", "std::reference_wrapper", "std::basic_string_view",
                     "std::function", "std::span", "__gnu_cxx::__normal_iterator", "std::_Rb_tree_iterator",
                     "std::_Rb_tree_const_iterator", "std::__detail::_Node_iterator"}
OWNING_PTR = {"std::unique_ptr"}  # not copyable: any copy is hand-written and audited by R11.3
STD_MUTATORS = {"emplace", "insert", "erase", "clear", "push_back", "emplace_back", "operator[]", "resize", "assign",
                "swap", "pop_back", "try_emplace", "insert_or_assign", "merge", "extract", "rehash", "reserve"}
RELINK_ANCHORS = ("nifly::NiShape::SetGeomData", "nifly::NiHeader::SetBlockReference")


def factory_types(F):
    out = []
    for f in F.fns.values():
        if f.get("cls") == "nifly::NiFactoryRegister" and f["short"] == "RegisterFactory" and f.get("targs"):
            out.append(f["targs"][0].get("ct") or f["targs"][0].get("t"))
    return sorted(set(out))


def run(F, chk):
    R1 = chk.rule("R11.1", "no record reachable as a member of a block class / NifFile / NiHeader has a pointer-like member "
                           "other than the caches re-linked after a copy (members assigned in SetGeomData overrides and "
                           "NiHeader::SetBlockReference)")
    R2 = chk.rule("R11.2", "NifFile::CopyFrom re-points the header at the new block vector and re-links the geometry caches "
                           "on every path after cloning")
    R3 = chk.rule("R11.3", "CopyFrom assigns every data member of NifFile from the source; no block class has a "
                           "user-provided copy constructor / assignment; unique_ptr members are cloned")
    R4 = chk.rule("R11.4", "the final overrider of Clone_impl of every concrete block class is the CRTP instantiation whose "
                           "Derived is that class")
    R5 = chk.rule("R11.5", "no mutable static storage in the library other than the factory register, which is only "
                           "mutated from its own constructor")

    # ---------------- discover the re-linked cache set
    cache = {}  # (cls, field) -> relink fn
    setgeom = [f for f in F.fns.values() if f.get("short") == "SetGeomData" and f.get("cls") and
               F.derives_from(f["cls"], "nifly::NiShape")]
    chk.require(len(setgeom) >= 5, "fewer than 5 SetGeomData definitions found (%d)" % len(setgeom))
    setref = F.fn_named("nifly::NiHeader::SetBlockReference")
    for fn in setgeom + setref:
        for n in walk(fn["body"]):
            if n["k"] == "Assign" and is_node(n["l"]) and n["l"]["k"] == "Member" and n["l"].get("mk") == "field":
                b = n["l"].get("base")
                if b is None or (is_node(b) and b["k"] == "This"):
                    cache[(n["l"]["owner"], n["l"]["name"])] = fn["name"]
    chk.extra["relinked_caches"] = sorted("%s::%s" % k for k in cache)

    # ---------------- R11.1 census
    roots = set(F.block_classes()) | {"nifly::NifFile", "nifly::NiHeader"}
    visited = {}
    work = [(r, (r,)) for r in sorted(roots)]
    nfields = 0
    while work:
        rec, via = work.pop()
        if rec in visited:
            continue
        visited[rec] = via
        r = F.recs.get(rec)
        if r is None:
            continue
        for b in F.bases(rec):
            if b not in visited:
                work.append((b, via))
        for fld in r.get("fields", []):
            nfields += 1
            t = cxxtypes.parse(fld["ct"])
            bad = None
            for x in t.walk():
                if x.ptr or x.ref:
                    bad = "pointer/reference %s" % x
                elif x.func:
                    bad = "function type"
                elif x.name in SHARING_TEMPLATES:
                    bad = "shares storage: %s" % x.name
                elif x.name.startswith("std::") and x.name not in VALUE_TEMPLATES and x.name not in OWNING_PTR:
                    bad = bad or None
                    chk.note("unclassified std type %s in %s::%s (treated as value type)" % (x.name, rec, fld["name"]))
                if x.name in F.recs and x.name not in visited:
                    work.append((x.name, via + (fld["name"],)))
                elif x.name.startswith("nifly::") and x.args:
                    # template instantiation spelled with args: find record by printed name
                    cand = fld["ct"]
                    for rn in F.recs:
                        if rn.startswith(x.name + "<") and rn in cand and rn not in visited:
                            work.append((rn, via + (fld["name"],)))
            key = (rec, fld["name"])
            ok = bad is None or key in cache
            chk.instance(R1, ok=ok, sample={"record": rec, "field": fld["name"], "type": fld["ct"]},
                         nontrivial=(bad is not None) or "nifly::" in fld["ct"] or "std::" in fld["ct"])
            if not ok:
                chk.violation("R11.1", "C11/R11.1:%s::%s" % key, "%s:%s" % (r.get("file"), fld.get("loc", "").split(":")[0]),
                              "member %s::%s of type `%s` (%s) lets a copied model share storage with its source; it is "
                              "not one of the caches re-linked after a copy (reached via %s)" % (
                                  rec, fld["name"], fld["ct"], bad, " > ".join(via)))
    chk.extra["records_scanned"] = len(visited)
    chk.floor(R1, 1400, "(record fields scanned)")

    # ---------------- R11.2 relink dominance
    copyfrom = F.fn1("nifly::NifFile::CopyFrom")

    # NiHeader methods that go through the header's pointer to the model's block vector
    HDRC = "nifly::NiHeader"
    deref = set()
    for g in F.fns.values():
        if g.get("cls") == HDRC and g.get("body") and g.get("short") != "SetBlockReference":
            if any(x["k"] == "Member" and x.get("name") == "blocks" and x.get("owner") == HDRC and
                   (x.get("base") is None or x["base"]["k"] == "This") for x in walk(g["body"])):
                deref.add(g["id"])
    if len(deref) < 5:
        raise report.Broken("R11.2: fewer than 5 NiHeader methods read the block-vector pointer (%d)" % len(deref))
    foreign_uses = []

    class Relink(flow.Flow):
        def on_node(self, n, st):
            if st is None:
                return st
            if n["k"] == "OpCall" and n.get("op") == "=" and n.get("args") and is_node(n["args"][0]) and \
                    n["args"][0]["k"] == "Member" and n["args"][0].get("name") == "hdr" and n["args"][0].get("owner") == "nifly::NifFile":
                # the assigned header still carries the source's pointer until SetBlockReference(&blocks)
                return st | {("D", "hdr:foreign"), ("D", "hdr:assigned")}
            if n["k"] in ("Call", "OpCall") and ("D", "hdr:foreign") in st and n.get("fn") != "nifly::NiHeader::SetBlockReference":
                ts = set(F.call_targets(n) or [])
                if ts and any((t in deref) or (F.reachable([t]) & deref) for t in ts if t in F.fns):
                    foreign_uses.append(n)
            if n["k"] == "Call":
                sh = n.get("short")
                if sh == "Clone":
                    return st | {("D", "clone")}
                if n.get("fn") == "nifly::NiHeader::SetBlockReference":
                    a = n.get("args", [None])[0]
                    if is_node(a) and a["k"] == "Unary" and a["op"] == "&" and is_node(a["e"]) and \
                            a["e"]["k"] == "Member" and a["e"].get("owner") == "nifly::NifFile":
                        b = a["e"].get("base")
                        if b is None or b["k"] == "This":
                            return frozenset(f for f in st if f != ("D", "hdr:foreign")) | {("D", "setref:" + a["e"]["name"])}
                if n.get("fn") == "nifly::NifFile::LinkGeomData" and (n.get("recv") is None or n["recv"]["k"] == "This"):
                    return st | {("D", "linkgeom")}
            return st

    fl = Relink(F, copyfrom)
    fl.run()
    for need in ("setref:blocks", "linkgeom"):
        # an exit that copied nothing (the self-assignment early return) has nothing to re-link
        copied = [st for _, _, st in fl.exits if st is not None and (("D", "clone") in st or ("D", "hdr:assigned") in st)]
        ok = bool(copied) and all(("D", need) in st for st in copied)
        chk.instance(R2, ok=ok, sample={"fn": "NifFile::CopyFrom", "must_call": need})
        if not ok:
            chk.violation("R11.2", "C11/R11.2:CopyFrom:%s" % need, where(copyfrom),
                          "NifFile::CopyFrom does not perform `%s` on every path: the copy keeps pointing into its source" % need)
    seen_fu = set()
    for n in foreign_uses:
        if id(n) in seen_fu:
            continue
        seen_fu.add(id(n))
        chk.violation("R11.2", "C11/R11.2:CopyFrom:foreign-header:%s" % (n.get("short") or n.get("op")), where(copyfrom, n),
                      "NifFile::CopyFrom calls %s while the header it copied from the source still points at the SOURCE's block "
                      "vector (SetBlockReference(&blocks) comes later): what it looks up and links are the source's blocks" %
                      (n.get("fn") or n.get("short")))
    chk.instance(R2, ok=not foreign_uses, sample={"fn": "NifFile::CopyFrom", "header_block_readers": len(deref),
                                                  "calls_while_header_points_at_source": len(seen_fu)})
    # relink must come after the clone loop: check order at the call sites
    col = flow.Collect(F, copyfrom, lambda n: n["k"] == "Call" and n.get("short") == "Clone")
    col.run()
    order_ok = True
    for n, st in col.at:
        if st is not None and (("D", "setref:blocks") in st):
            order_ok = False
    # LinkGeomData reaches SetGeomData (virtual) on NiGeometry for every cache class
    link = F.fn1("nifly::NifFile::LinkGeomData")
    virt_targets = set()
    for n, ts in F.calls_in(link):
        if n.get("short") == "SetGeomData" and n.get("virt"):
            virt_targets.update(ts)
            recv_t = (n.get("recv") or {}).get("ct") or (n.get("recv") or {}).get("t") or ""
            chk.extra["linkgeom_receiver"] = recv_t
    for (cls, fld), relfn in sorted(cache.items()):
        if cls == "nifly::NiHeader":
            continue
        ok = any(F.fns.get(t, {}).get("cls") == cls for t in virt_targets)
        chk.instance(R2, ok=ok, sample={"cache": "%s::%s" % (cls, fld), "relinked_by": relfn})
        if not ok:
            chk.violation("R11.2", "C11/R11.2:LinkGeomData:%s::%s" % (cls, fld), where(link),
                          "LinkGeomData does not reach %s::SetGeomData: the cached pointer %s of a copied block keeps "
                          "pointing into the source model" % (cls, fld))
    # the loop in LinkGeomData must cover all blocks: a range-for over the member `blocks`
    loops = [n for n in walk(link["body"]) if n["k"] == "RangeFor" and show(n["range"]) == "blocks"]
    ok = bool(loops) and any(x.get("short") == "SetGeomData" for l in loops for x in walk(l["body"]) if x["k"] == "Call")
    chk.instance(R2, ok=ok, sample={"fn": "LinkGeomData", "loop": "for block in blocks"})
    if not ok:
        chk.violation("R11.2", "C11/R11.2:LinkGeomData:loop", where(link), "LinkGeomData no longer visits every block")
    # the re-link must not depend on the value of the cache it re-establishes: after Clone() the cache is non-null and stale
    cache_fields = {fld for (_, fld) in cache}
    cache_getters = {f["short"] for f in F.fns.values() if f.get("cls") and f.get("const") and f.get("body") and not f.get("params") and
                     F.derives_from(f["cls"], "nifly::NiShape") and
                     any(x["k"] == "Return" and is_node(x.get("e")) and any(
                         y["k"] == "Member" and y.get("name") in cache_fields for y in walk(x["e"])) for x in walk(f["body"]))}
    chk.extra["cache_getters"] = sorted(cache_getters)
    sg_calls = [n for n in walk(link["body"]) if n["k"] == "Call" and n.get("short") == "SetGeomData"]
    ids_ = {id(n) for n in sg_calls}
    saved_reg = flow.KEYNODE
    flow.KEYNODE = {}
    try:
        colk = flow.Collect(F, link, lambda n: id(n) in ids_)
        colk.run()
        reg = flow.KEYNODE
    finally:
        flow.KEYNODE = saved_reg
    for n, sts in colk.by_node():
        bad = None
        for st in sts:
            for f in (st or ()):
                if f[0] != "G":
                    continue
                node = reg.get(f[1])
                node = node[1] if isinstance(node, tuple) and len(node) > 1 else node
                if is_node(node) and any((y["k"] == "Call" and y.get("short") in cache_getters) or
                                         (y["k"] == "Member" and y.get("name") in cache_fields) for y in walk(node)):
                    bad = f[1]
        chk.instance(R2, ok=bad is None, sample={"fn": "LinkGeomData", "relink_unconditional_on_cache": bad is None})
        if bad is not None:
            chk.violation("R11.2", "C11/R11.2:LinkGeomData:conditional", where(link, n),
                          "LinkGeomData re-links a shape only depending on `%s`, the very cache it re-establishes: a cloned shape "
                          "arrives with a non-null cache that points into the source model, so the copy keeps sharing the "
                          "source's geometry" % bad)
    chk.floor(R2, 8)

    # ---------------- R11.3 member coverage, rule of zero
    nf = F.recs.get("nifly::NifFile")
    chk.require(nf is not None, "record nifly::NifFile vanished")
    assigned = set()
    cloned_from = set()
    other_id = copyfrom["params"][0]["id"] if copyfrom.get("params") else None
    # locals that stand for (part of) the source: `const auto& srcBlocks = other.blocks;`
    from_other = {other_id}
    for _ in range(4):
        for d in walk(copyfrom["body"]):
            if d["k"] == "Decl":
                for v in d.get("vars", []):
                    if is_node(v.get("init")) and any(x["k"] == "Ref" and x.get("id") in from_other for x in walk(v["init"])):
                        from_other.add(v["id"])
    def _lc(n_):
        try:
            a_, b_ = (n_.get("loc") or "0:0").split(":")[:2]
            return (int(a_), int(b_))
        except ValueError:
            return (0, 0)

    # an assignment that is followed by Clear() (which resets the flags and drops the blocks) does not survive on that path
    last_clear = max([_lc(n) for n in walk(copyfrom["body"]) if n["k"] == "Call" and n.get("fn") == "nifly::NifFile::Clear"
                      and (n.get("recv") is None or n["recv"]["k"] == "This")] or [(0, 0)])
    for n in walk(copyfrom["body"]):
        tgt = None
        if n["k"] in ("Assign", "OpCall") and _lc(n) < last_clear:
            continue
        if n["k"] == "Assign":
            tgt = n["l"]
            src = n["r"]
        elif n["k"] == "OpCall" and n.get("op") == "=" and len(n.get("args", [])) == 2:
            tgt, src = n["args"]
        else:
            continue
        # strip subscripts: blocks[i] = …
        root = tgt
        while is_node(root) and root["k"] == "Subscript":
            root = root["base"]
        if is_node(root) and root["k"] == "Member" and root.get("owner") == "nifly::NifFile" and \
                (root.get("base") is None or root["base"]["k"] == "This"):
            uses_other = any(x["k"] == "Ref" and x.get("id") in from_other for x in walk(src)) if is_node(src) else False
            if uses_other:
                assigned.add(root["name"])
                if any(x["k"] == "Call" and x.get("short") == "Clone" for x in walk(src)):
                    cloned_from.add(root["name"])
    for fld in (nf or {}).get("fields", []):
        t = cxxtypes.parse(fld["ct"])
        has_unique = any(x.name in OWNING_PTR for x in t.walk())
        ok = fld["name"] in assigned and (not has_unique or fld["name"] in cloned_from)
        chk.instance(R3, ok=ok, sample={"member": "NifFile::" + fld["name"], "cloned": fld["name"] in cloned_from})
        if not ok:
            chk.violation("R11.3", "C11/R11.3:NifFile::%s" % fld["name"], where(copyfrom),
                          "NifFile::CopyFrom does not %s member `%s` from the source" % (
                              "clone every element of" if has_unique else "assign", fld["name"]))
    for cls in sorted(roots):
        r = F.recs.get(cls)
        if not r or cls == "nifly::NifFile":
            continue
        user_copy = [m for m in r.get("methods", []) if (m.get("copyctor") or m.get("copyassign") or m.get("movector")
                                                            or m.get("moveassign")) and m.get("user")]
        ok = not user_copy
        chk.instance(R3, ok=ok, sample={"class": cls, "user_copy_ops": [m["id"] for m in user_copy]}, nontrivial=False)
        if not ok:
            chk.violation("R11.3", "C11/R11.3:%s:user-copy" % cls, "%s:%s" % (r["file"], r["loc"].split(":")[0]),
                          "%s has a user-provided copy/move operation (%s); member-wise deep copy is no longer guaranteed" % (
                              cls, ", ".join(m["short"] for m in user_copy)))
    # user-written copy operations of any record inside a block (nested value types): every field must be copied, owning
    # pointers deep-copied
    for rec in sorted(visited):
        r = F.recs.get(rec)
        if not r or rec in roots or rec == "nifly::NifFile":
            continue
        ops = [m for m in r.get("methods", []) if (m.get("copyctor") or m.get("copyassign")) and m.get("user")]
        for m in ops:
            fn = F.fns.get(m["id"])
            fields = [f["name"] for f in r.get("fields", [])]
            covered = set()
            delegates = False
            if fn is not None:
                for i in fn.get("inits", []):
                    if i.get("field") and not i.get("implicit"):
                        covered.add(i["field"])
                for n in walk(fn.get("body") or {}):
                    tgt = None
                    if n["k"] == "Assign":
                        tgt = n["l"]
                    elif n["k"] == "OpCall" and n.get("op") == "=" and n.get("args"):
                        tgt = n["args"][0]
                        # `*this = other` delegates to the assignment operator (checked on its own)
                        if is_node(tgt) and tgt["k"] == "Unary" and tgt["op"] == "*" and is_node(tgt["e"]) and tgt["e"]["k"] == "This":
                            delegates = True
                    while is_node(tgt) and tgt["k"] in ("Subscript",):
                        tgt = tgt["base"]
                    if is_node(tgt) and tgt["k"] == "Member" and tgt.get("owner") == rec:
                        covered.add(tgt["name"])
            missing = [f for f in fields if f not in covered]
            ok = fn is not None and (delegates or not missing)
            chk.instance(R3, ok=ok, sample={"record": rec, "operation": m["short"], "fields": len(fields), "missing": missing if not delegates else "delegates"})
            if not ok:
                chk.violation("R11.3", "C11/R11.3:%s:%s" % (rec, m["short"]), where(fn) if fn else "%s:%s" % (r["file"], r["loc"].split(":")[0]),
                              "user-written %s of %s (a value type inside block classes) does not copy member(s) %s: a copied "
                              "model silently loses them" % (m["short"], rec, missing))
    # NifFile's own copy operations must route through CopyFrom
    for m in (nf or {}).get("methods", []):
        if (m.get("copyctor") or m.get("copyassign")) and m.get("user"):
            fn = F.fns.get(m["id"])
            ok = fn is not None and any(n["k"] == "Call" and n.get("fn") == "nifly::NifFile::CopyFrom" for n in walk(fn["body"]))
            chk.instance(R3, ok=ok, sample={"method": m["id"], "routes_through": "CopyFrom"})
            if not ok:
                chk.violation("R11.3", "C11/R11.3:%s" % m["id"], where(fn) if fn else "?",
                              "NifFile copy operation does not delegate to CopyFrom")
    chk.floor(R3, 300)

    # ---------------- R11.4 clone wiring
    registered = factory_types(F)
    chk.require(len(registered) >= 290, "only %d RegisterFactory<T> instantiations found" % len(registered))
    chk.extra["factory_types"] = len(registered)
    for cls in sorted(set(registered) | {"nifly::NiUnknown", "nifly::NiHeader"}):
        final = None
        for c in [cls] + F.ancestors(cls):
            r = F.recs.get(c)
            if r and any(m["short"] == "Clone_impl" for m in r.get("methods", [])):
                final = r
                break
        ok = False
        if final is not None and final.get("tmpl") == "inst" and final.get("targs"):
            d = final["targs"][0].get("ct") or final["targs"][0].get("t")
            ok = (d == cls)
            # and its body news Derived
            fns = [f for f in F.fns.values() if f.get("cls") == final["name"] and f["short"] == "Clone_impl"]
            if fns:
                news = [n for n in walk(fns[0]["body"]) if n["k"] == "New"]
                ok = ok and any((n.get("alloc") or "").endswith(cls.split("::")[-1]) or n.get("alloc") == cls for n in news)
        chk.instance(R4, ok=ok, sample={"class": cls, "clone_impl_in": (final or {}).get("name")})
        if not ok:
            r = F.recs[cls]
            chk.violation("R11.4", "C11/R11.4:%s" % cls, "%s:%s" % (r["file"], r["loc"].split(":")[0]),
                          "Clone() of %s is implemented by %s: the clone has another dynamic type or loses members" % (
                              cls, (final or {}).get("name")))
    chk.floor(R4, 300)

    # ---------------- R11.5 statics
    mutable = [g for g in F.globals.values() if not g.get("const") and not g.get("constexpr")]
    allowed = {"nifly::NiFactoryRegister"}
    for g in mutable:
        ok = g["ct"] in allowed
        chk.instance(R5, ok=ok, sample={"var": g["name"], "type": g["ct"], "storage": g["storage"]})
        if not ok:
            chk.violation("R11.5", "C11/R11.5:%s" % g["name"], "%s:%s" % (g["file"], g["loc"].split(":")[0]),
                          "mutable static storage `%s` of type %s is shared by every model" % (g["name"], g["ct"]))
    nconst = 0
    for g in F.globals.values():
        if g.get("const") or g.get("constexpr"):
            nconst += 1
            chk.instance(R5, ok=True, nontrivial=False)
    # the register is only mutated from its own constructor
    reg = F.recs.get("nifly::NiFactoryRegister")
    chk.require(reg is not None, "record nifly::NiFactoryRegister vanished")
    nonconst_methods = {m["short"] for m in (reg or {}).get("methods", []) if not m.get("const") and not m.get("static")
                        and not m.get("ctor") and not m.get("dtor")}
    mutators = set()
    for f in F.fns.values():
        if f.get("cls") == "nifly::NiFactoryRegister" or (f.get("cls") or "").startswith("nifly::NiFactoryRegister"):
            for n in walk(f.get("body") or {}):
                tgt = None
                if n["k"] == "Assign":
                    tgt = n["l"]
                elif n["k"] == "Call" and n.get("ext") and n.get("short") in STD_MUTATORS and is_node(n.get("recv")):
                    tgt = n["recv"]
                if is_node(tgt):
                    while is_node(tgt) and tgt["k"] in ("Subscript",):
                        tgt = tgt["base"]
                    if is_node(tgt) and tgt["k"] in ("Member", "DepMember") and tgt["name"] == "m_registrations":
                        mutators.add(f["short"])
    chk.extra["register_mutators"] = sorted(mutators)
    for fid, fn in F.fns.items():
        if fn.get("tmpl") == "pattern":
            continue
        for n, ts in F.calls_in(fn):
            if n["k"] == "Call" and (n.get("cls") or "") == "nifly::NiFactoryRegister" and n.get("short") in mutators:
                ok = fn.get("cls") == "nifly::NiFactoryRegister" and fn.get("ctor")
                chk.instance(R5, ok=ok, sample={"caller": fn["name"], "mutator": n.get("short")}, nontrivial=not ok)
                if not ok:
                    chk.violation("R11.5", "C11/R11.5:%s->%s" % (fn["name"], n.get("short")), where(fn, n),
                                  "the shared factory register is mutated outside its constructor")
    chk.floor(R5, 100)

    # ---------------- R11.7 self-assignment
    R7 = chk.rule("R11.7", "CopyFrom discards the receiver's old content (Clear) before it reads the source, so it first rules out that the "
                           "source *is* the receiver: on every path to the first discarding call a test `this == &other` (or its "
                           "negation with an early return) has been made — `model = model` would otherwise copy from the model it has "
                           "just emptied")
    other_p = copyfrom["params"][0] if copyfrom.get("params") else None
    first_clear = []

    class SelfAssign(flow.Flow):
        def on_node(self, n, st):
            if st is None or n["k"] != "Call":
                return st
            discards = (n.get("fn") in ("nifly::NifFile::Clear",) and (n.get("recv") is None or n["recv"]["k"] == "This")) or \
                       (n.get("ext") and n.get("short") in ("clear", "resize") and is_node(n.get("recv")) and
                        n["recv"]["k"] == "Member" and n["recv"].get("name") == "blocks" and n["recv"].get("owner") == "nifly::NifFile")
            if discards and not self.muted:
                tested = any(f[0] == "G" and "this" in f[1] and other_p is not None and ("&" + other_p["name"]) in f[1].replace(" ", "")
                             and "==" in f[1] and f[2] is False for f in st)
                first_clear.append((n, tested))
            return st

    sa = SelfAssign(F, copyfrom)
    sa.run()
    bad7 = [n for n, t in first_clear if not t]
    chk.instance(R7, ok=bool(first_clear) and not bad7, sample={"fn": "NifFile::CopyFrom", "discarding_calls": len(first_clear), "untested": len(bad7)})
    if not first_clear:
        raise report.Broken("R11.7: CopyFrom no longer discards the receiver's content through Clear()/blocks.clear()/resize — rule needs re-anchoring")
    if bad7:
        chk.violation("R11.7", "C11/R11.7:CopyFrom:self", where(copyfrom, bad7[0]),
                      "NifFile::CopyFrom discards the receiver's content (%s) without having tested `this == &%s`: assigning a model "
                      "to itself empties it and then copies from the emptied model" % (show(bad7[0])[:40], other_p["name"] if other_p else "other"))
    chk.floor(R7, 1)

    # ---------------- R11.6 the copy is not edited after it was cloned
    R6 = chk.rule("R11.6", "apart from cloning, CopyFrom changes nothing inside the blocks of the copy except the re-linked caches: no "
                           "function it reaches (other than the Clone machinery and the destruction of the old content) assigns a "
                           "member of a block class or of a value type nested in one (a fix-up that re-reads strings from the header "
                           "table, say, silently reverts what the source had not saved yet, so the copy no longer saves like the source)")
    import c02 as _c02
    clone_ids = {g["id"] for g in F.fns.values() if g.get("short") in ("Clone", "Clone_impl") or g.get("ctor") or g.get("dtor")}
    clear_fn = [g["id"] for g in F.fns.values() if g["name"] in ("nifly::NifFile::Clear", "nifly::NiHeader::Clear")]
    drop = set(clear_fn)
    for cid in clear_fn:
        drop |= F.reachable([cid])
    reach6 = set()
    work = [copyfrom["id"]]
    while work:
        cur = work.pop()
        if cur in reach6 or cur in clone_ids or cur not in F.fns:
            continue
        reach6.add(cur)
        for n, ts in F.calls_in(F.fns[cur]):
            if cur == copyfrom["id"] and n.get("short") == "Clear" and (n.get("recv") is None or n["recv"]["k"] == "This"):
                continue  # the old content is thrown away before anything is copied
            work.extend(t for t in ts if t not in reach6)
    allowed6 = {(c, f) for (c, f) in cache}
    n6 = 0
    for fid in sorted(reach6):
        g = F.fns[fid]
        if g.get("tmpl") == "pattern" or not (g.get("file") or "").startswith(("src/", "include/")):
            continue
        for n in walk(g.get("body") or {}):
            tgt = None
            if n["k"] == "Assign":
                tgt = n["l"]
            elif n["k"] == "Unary" and n["op"] in ("++", "--"):
                tgt = n["e"]
            elif n["k"] == "OpCall" and n.get("op") in ("=", "+=", "-=") and n.get("args"):
                tgt = n["args"][0]
            elif n["k"] == "Call" and n.get("ext") and is_node(n.get("recv")) and n.get("short") in (
                    "resize", "clear", "push_back", "emplace_back", "erase", "insert", "assign", "swap", "pop_back"):
                tgt = n["recv"]
            if not is_node(tgt):
                continue
            mem = _c02._written_member(tgt)
            if mem is None:
                continue
            owner, name = mem.get("owner") or "", mem["name"]
            if not (F.derives_from(owner, "nifly::NiObject") or _c02._block_part(F, owner)):
                continue
            n6 += 1
            ok = (owner, name) in allowed6
            chk.instance(R6, ok=ok, sample={"fn": g["name"], "writes": "%s::%s" % (owner, name)}, nontrivial=not ok or n6 < 50)
            if not ok:
                chk.violation("R11.6", "C11/R11.6:%s:%s::%s" % (g["name"].split("(")[0], owner, name), where(g, n),
                              "%s, which NifFile::CopyFrom reaches, changes %s::%s of a block: the copy is edited after it was cloned "
                              "and no longer equals (saves like) its source" % (g["name"], owner, name))
    chk.extra["copyfrom_reach"] = len(reach6)
    chk.floor(R6, 3)

    chk.assumptions += [
        "std value containers (vector, string, array, set, map, deque, optional, pair) deep-copy their elements",
        "no aliasing is created through reinterpret_cast of integers to pointers (none exists in block classes)",
    ]
    chk.extra["explanation"] = ("ownership census: obligations = fields of every record reachable from a block class, NifFile "
                                "or NiHeader (R11.1) + re-link, coverage, clone-wiring and static-storage obligations; "
                                "'saves to the same bytes' is inherited from R11.3/R11.4 + C01 and not separately decided")
