"""C05 — every serialised block or string reference is enumerated by its owner (DESIGN §5 C05).

S*(D) : canonical member paths of NiRef / NiStringRef objects whose index reaches a stream primitive during
        D::Get (mode Reading) or D::Put (mode Writing) — computed by composing the real call chain
        (CRTP Get/Put -> Base::Get -> … -> asDer().Sync -> member Sync …) with path substitution.
E_k*(D): paths handed to the collector by D's final overrider of enumerator k (composing base calls, carrier
        helpers, array GetIndexPtrs …).
R5.1   S*(D) block-ref paths ⊆ E_child*(D) ∪ E_ptr*(D);  S*(D) string paths live as *index* in some accepted
        version ⊆ E_str*(D).
R5.2   every enumerator override calls its nearest base's same-named enumerator on every path.
R5.3   NiRef::index / NiStringRef::index reach a stream primitive only inside the ref types' own methods.
R5.4   fix-up consumers consult the enumerators they need, for every block.
R5.5   GetChildRefs and GetChildIndices of a class report the same paths (the pruner consults the latter).
"""
from facts import is_node, walk, where, show, AnalysisBroken
import flow
import paths
from paths import Event, render
import versions

STREAMS = ("nifly::NiStreamReversible", "nifly::NiIStream", "nifly::NiOStream")
ENUMS = {"GetChildRefs": "child", "GetPtrs": "ptr", "GetStringRefs": "str", "GetChildIndices": "idx"}
REF_OWNERS = {"nifly::NiRef": "ref", "nifly::NiStringRef": "str"}
REF_TYPE_PREFIXES = ("nifly::NiBlockRef<", "nifly::NiRef", "nifly::NiStringRef")


def _peel(e):
    """strip casts and address-of"""
    while is_node(e):
        if e["k"] == "Cast":
            e = e["e"]
        elif e["k"] == "Unary" and e["op"] == "&":
            e = e["e"]
        else:
            break
    return e


def _index_member(e):
    """if e (after peeling) is <X>.index with owner NiRef/NiStringRef -> (X, kind)"""
    e = _peel(e)
    if is_node(e) and e["k"] == "Member" and e.get("name") == "index" and e.get("owner") in REF_OWNERS:
        return e.get("base"), REF_OWNERS[e["owner"]]
    return None, None


def _is_ref_type(t):
    t = (t or "").replace("const ", "").strip()
    return t.startswith(REF_TYPE_PREFIXES)


def sync_primitive(n, env, fn, st):
    """events for stream primitives; [] for any other call into the stream layer (no composition)"""
    if n["k"] not in ("Call", "OpCall"):
        return None
    cls = n.get("cls")
    if cls not in STREAMS:
        return None
    evs = []
    args = list(n.get("args", []))
    for a in args:
        base, kind = _index_member(a)
        if kind:
            p = env.path(base) if base is not None else paths.THIS
            evs.append(Event(p, kind, {"via": n.get("short") or n.get("op"), "fn": fn["id"]}))
            continue
        pa = _peel(a)
        if is_node(pa) and _is_ref_type(pa.get("ct") or pa.get("t")) and pa["k"] != "Lit":
            # whole ref object passed to a raw primitive
            kind = "str" if "NiStringRef" in (pa.get("ct") or pa.get("t")) else "ref"
            evs.append(Event(env.path(pa), kind, {"via": "raw-object", "fn": fn["id"]}))
    return evs


def enum_primitive(n, env, fn, st):
    if n["k"] != "Call":
        return None
    if not n.get("ext"):
        return None
    sh = n.get("short")
    if sh in ("insert", "emplace", "emplace_back", "push_back") and n.get("args"):
        # only what is handed to the collector the enumerator was given counts (a parameter, possibly passed down the base
        # chain); an insert into a local container is the function's own bookkeeping
        rp = env.path(n["recv"]) if is_node(n.get("recv")) else None
        is_collector = rp is not None and rp[0][0] == "$p"
        if rp is not None and rp[0][0] == "$v":
            # inside a helper lambda the collector is a captured parameter of the enclosing enumerator
            outer = fn
            while outer is not None and outer.get("lambda_parent") and not is_collector:
                outer = env.F.fns.get(outer["lambda_parent"])
                if outer is not None and any(p_["id"] == rp[0][1] for p_ in outer.get("params", [])):
                    is_collector = True
        if not is_collector:
            return []
        a = n["args"][-1]
        base, kind = _index_member(a)
        if kind:
            p = env.path(base) if base is not None else paths.THIS
            return [Event(p, "enum", {"form": "index"})]
        if is_node(a) and a["k"] == "Unary" and a["op"] == "&":
            x = a["e"]
            ct = (x.get("ct") or x.get("t") or "") if is_node(x) else ""
            if _is_ref_type(ct):
                return [Event(env.path(x), "enum", {"form": "addr"})]
    return []


def _final(F, cls, short):
    r = F.method(cls, short)
    return r[0] if r else None


def _live_versions(ev, VE, vers):
    """named versions in which no guard of the event is definitely contradicted"""
    live = []
    for name, ver in vers.items():
        ok = True
        for key, pol, *_ in ev.guards:
            node = flow.KEYNODE.get(key)
            if node is None:
                continue
            if isinstance(node, tuple):
                v = VE.ev(node[1], ver)
                if v is None:
                    continue
                truth = (bool(v) == node[2])
            else:
                v = VE.ev(node, ver)
                if v is None:
                    continue
                truth = bool(v)
            if truth != pol:
                ok = False
                break
        if ok:
            live.append(name)
    return live


def run(F, chk):
    R1 = chk.rule("R5.1", "every NiRef/NiStringRef whose index reaches a stream primitive in D::Get/D::Put is handed to "
                          "the collector by D's GetChildRefs/GetPtrs (block refs) or GetStringRefs (string refs live as "
                          "an index in some accepted version)")
    R2 = chk.rule("R5.2", "every enumerator override calls the nearest base's same-named enumerator on every path")
    R3 = chk.rule("R5.3", "NiRef::index / NiStringRef::index reach a stream primitive only inside the ref types' own methods")
    R4 = chk.rule("R5.4", "fix-up consumers consult the enumerators they need for every block")
    R5 = chk.rule("R5.5", "GetChildRefs and GetChildIndices of every class report the same member paths")

    VE = versions.VersionEval(F)
    vers = VE.named_versions() if chk.tier == "quick" else {("%08x/%d/%d" % v): v for v in VE.regions()}
    chk.extra["versions"] = len(vers)
    chk.require(len(vers) >= 7, "fewer than 7 accepted versions enumerated (%d)" % len(vers))

    S_read = paths.Summarizer(F, sync_primitive, mode=flow.MODE_READ)
    S_write = paths.Summarizer(F, sync_primitive, mode=flow.MODE_WRITE)

    def skip_nothing(call, fn):
        return False

    E = paths.Summarizer(F, enum_primitive)

    classes = F.concrete_classes()
    chk.require(len(classes) >= 300, "only %d concrete NiObject classes found" % len(classes))

    reported = {}
    n_paths = 0
    owners = set()
    for D in classes:
        get, put = _final(F, D, "Get"), _final(F, D, "Put")
        if not get or not put:
            chk.broken.append("class %s has no Get/Put definition in the facts" % D)
            continue
        sev = {}
        for ev in S_read.events(get["id"]) + S_write.events(put["id"]):
            if ev.path is None:
                continue
            sev.setdefault((ev.path, ev.kind), []).append(ev)
        en = {}
        en_guards = {}
        for short, kind in ENUMS.items():
            f = _final(F, D, short)
            evs_e = E.events(f["id"]) if f else []
            en[kind] = set(ev.path for ev in evs_e)
            for ev in evs_e:
                # conditions under which the enumerator reports the path.  The test of a counted loop is not among the guards
                # (it is the loop); any other condition counts, also one on a local (`if (seen.insert(r.index).second)`): an
                # enumerator that reports a slot depending on a value it computed leaves slots out
                g = frozenset((x[0], x[1]) for x in ev.guards)
                en_guards.setdefault((kind, ev.path), []).append(g)
        for (p, kind), evs in sorted(sev.items(), key=lambda x: render(x[0][0])):
            n_paths += 1
            rp = render(p)
            if p[0][0] != "this":
                # a ref serialised from something that is not a member of the block (temporary/local): side door
                chk.instance(R1, ok=False, sample={"class": D, "path": rp, "kind": kind})
                chk.violation("R5.1", "C05/R5.1:%s:%s" % (D, rp), where(F.fns[evs[0].chain[-1][0]]),
                              "a %s reference that is not a member path of the block is serialised" % kind)
                continue
            owner, fld = F.find_field(D, p[1]) if len(p) > 1 else (D, None)
            owners.add(owner)
            stronger = None
            if kind == "ref":
                ok = p in en["child"] or p in en["ptr"]
                live = None
                if ok:
                    # the enumerator must not report the reference under a stronger condition than the one it is serialised under
                    sg = [frozenset((x[0], x[1]) for x in ev.guards) for ev in evs]
                    eg = en_guards.get(("child", p), []) + en_guards.get(("ptr", p), [])
                    if not all(any(g <= s_ for g in eg) for s_ in sg):
                        ok = False
                        s0 = [s_ for s_ in sg if not any(g <= s_ for g in eg)][0]
                        stronger = sorted(min((g - s0 for g in eg), key=len))
            else:
                live = sorted(set(x for ev in evs for x in _live_versions(ev, VE, vers)))
                ok = p in en["str"] or not live
                if ok and p in en["str"]:
                    # like a block reference, a string reference must not be reported under a stronger condition than the one
                    # it is serialised under (the header string table is rebuilt from what GetStringRefs reports)
                    sg = [frozenset((x[0], x[1]) for x in ev.guards) for ev in evs]
                    eg = en_guards.get(("str", p), [])
                    if eg and not all(any(g <= s_ for g in eg) for s_ in sg):
                        ok = False
                        s0 = [s_ for s_ in sg if not any(g <= s_ for g in eg)][0]
                        stronger = sorted(min((g - s0 for g in eg), key=len))
            chk.instance(R1, ok=ok, sample={"class": D, "path": rp, "kind": kind, "owner": owner},
                         nontrivial=True)
            if not ok:
                key = "C05/R5.1:%s:%s" % (owner, rp)
                site = evs[0].chain[-1] if evs[0].chain else None
                first = evs[0].chain[0] if evs[0].chain else None
                if key not in reported:
                    reported[key] = {"classes": [], "kind": kind}
                    wfn = None
                    # report at the Sync of the owner: deepest frame that belongs to the owner class
                    for fid, loc in evs[0].chain:
                        f = F.fns.get(fid)
                        if f and f.get("cls") == owner:
                            wfn, wloc = f, loc
                    if wfn is None and first:
                        wfn, wloc = F.fns.get(first[0]), first[1]
                    w = "%s:%s" % (wfn.get("file"), (wloc or "").split(":")[0]) if wfn else "?"
                    if stronger:
                        chk.violation("R5.1", key, w,
                                      "%s reference `%s` of %s is reported by its enumerator only under the additional condition(s) %s, "
                                      "but it is serialised (%s) also when they do not hold" % (
                                          "string" if kind == "str" else "block", rp, owner, ["%s%s" % ("" if pol else "!", k) for k, pol in stronger],
                                          " > ".join(F.fns[c[0]]["name"] for c in evs[0].chain if c[0] in F.fns)),
                                      {"live_versions": live})
                        reported[key]["classes"].append(D)
                        continue
                    chk.violation("R5.1", key, w,
                                  "%s reference `%s` of %s is serialised (%s) but not reported by %s" % (
                                      "string" if kind == "str" else "block", rp, owner,
                                      " > ".join(F.fns[c[0]]["name"] for c in evs[0].chain if c[0] in F.fns),
                                      "GetStringRefs" if kind == "str" else "GetChildRefs/GetPtrs"),
                                  {"live_versions": live})
                reported[key]["classes"].append(D)
        # a reference is either a child reference or a back pointer, never both: SetBlockOrder remaps the two sets one after the
        # other, so a reference reported by both enumerators is permuted twice
        for p in sorted(en["child"] & en["ptr"], key=render):
            owner, _ = F.find_field(D, p[1]) if p and len(p) > 1 and p[0][0] == "this" else (D, None)
            key = "C05/R5.5:%s:%s:both" % (owner, render(p))
            chk.instance(R5, ok=False, sample={"class": D, "path": render(p), "reported_by": "GetChildRefs and GetPtrs"})
            if key not in reported:
                reported[key] = {"classes": [D]}
                f = _final(F, owner or D, "GetPtrs") or _final(F, D, "GetPtrs")
                chk.violation("R5.5", key, where(f) if f else "?",
                              "reference `%s` of %s is reported by GetChildRefs and by GetPtrs: a reorder (every sorted save) remaps "
                              "it twice and it designates another block afterwards" % (render(p), owner))
        # R5.5 sibling agreement child vs idx
        if en["child"] != en["idx"]:
            for p in sorted(en["child"] ^ en["idx"], key=render):
                owner, _ = F.find_field(D, p[1]) if p and len(p) > 1 and p[0][0] == "this" else (D, None)
                key = "C05/R5.5:%s:%s" % (owner, render(p))
                chk.instance(R5, ok=False, sample={"class": D, "path": render(p)})
                if key not in reported:
                    reported[key] = {"classes": [D]}
                    side = "GetChildRefs only" if p in en["child"] else "GetChildIndices only"
                    f = _final(F, owner or D, "GetChildRefs") or _final(F, D, "GetChildRefs")
                    chk.violation("R5.5", key, where(f) if f else "?",
                                  "child reference `%s` of %s is reported by %s" % (render(p), owner, side))
        for p in en["child"] & en["idx"]:
            chk.instance(R5, ok=True, sample={"class": D, "path": render(p)})
    for key, info in reported.items():
        for v in chk.viol:
            if v["key"] == key:
                v["detail"]["affected_concrete_classes"] = info["classes"][:40]
    chk.extra["serialised_ref_paths"] = n_paths
    chk.extra["owner_types"] = len(owners)
    chk.floor(R1, 600, "(class x serialised reference path pairs)")

    # ---- R5.2 chain
    for fn in F.fns.values():
        if fn.get("short") in ENUMS and fn.get("cls") and fn.get("virtual") and fn.get("overrides") and not fn.get("tmpl"):
            cls = fn["cls"]
            if not F.derives_from(cls, "nifly::NiObject"):
                continue
            # nearest base defining the method
            base_def = None
            for a in F.ancestors(cls):
                r = [m for m in (F.recs.get(a) or {}).get("methods", []) if m["short"] == fn["short"]]
                if r:
                    base_def = a
                    break
            if base_def is None:
                continue

            class Chain(flow.Flow):
                def on_node(self, n, st):
                    if n["k"] == "Call" and n.get("short") == fn["short"] and n.get("qualified") and \
                            is_node(n.get("recv")) and n["recv"]["k"] == "This":
                        return st | {("D", "base:" + (n.get("cls") or ""))}
                    return st

            fl = Chain(F, fn)
            fl.run()
            ok = bool(fl.exits) and all(("D", "base:" + base_def) in st for _, _, st in fl.exits)
            chk.instance(R2, ok=ok, sample={"fn": fn["name"], "base": base_def})
            if not ok:
                called = sorted(set(f[1] for _, _, st in fl.exits for f in st if f[0] == "D"))
                chk.violation("R5.2", "C05/R5.2:%s" % fn["name"], where(fn),
                              "%s does not call %s::%s on every path (calls: %s)" % (fn["name"], base_def, fn["short"], called))
    chk.floor(R2, 150, "(enumerator overrides)")

    # ---- R5.3 side doors: the primitive events' innermost frame must be a method of a ref type
    allowed_cls_prefix = ("nifly::NiBlockRef<", "nifly::NiStringRef", "nifly::NiBlockRefArray<", "nifly::NiBlockRefShortArray<")
    seen_sites = set()
    for summ in (S_read, S_write):
        for fid, evs in summ.memo.items():
            for ev in evs:
                if not ev.chain:
                    continue
                inner = ev.chain[-1]
                if inner in seen_sites:
                    continue
                seen_sites.add(inner)
                f = F.fns.get(inner[0])
                cls = (f or {}).get("cls") or ""
                ok = cls.startswith(allowed_cls_prefix)
                chk.instance(R3, ok=ok, sample={"site": (f or {}).get("name"), "loc": inner[1]})
                if not ok:
                    chk.violation("R5.3", "C05/R5.3:%s" % (f or {}).get("name"), where(f, {"loc": inner[1]}),
                                  "a reference index is passed to a stream primitive outside the reference types")
    # also any stream-primitive call anywhere (not only Get/Put-reachable) touching NiRef::index
    for fn in F.fns.values():
        if fn.get("tmpl") == "pattern":
            continue
        cls = fn.get("cls") or ""
        for n in walk(fn.get("body") or {}):
            if n["k"] in ("Call", "OpCall") and n.get("cls") in STREAMS:
                for a in n.get("args", []):
                    base, kind = _index_member(a)
                    if kind and (fn["id"], n.get("loc")) not in seen_sites:
                        seen_sites.add((fn["id"], n.get("loc")))
                        ok = cls.startswith(allowed_cls_prefix)
                        chk.instance(R3, ok=ok, sample={"site": fn["name"], "loc": n.get("loc")})
                        if not ok:
                            chk.violation("R5.3", "C05/R5.3:%s" % fn["name"], where(fn, n),
                                          "a reference index is passed to a stream primitive outside the reference types")
    chk.floor(R3, 3)

    # ---- R5.4 consumers
    consumers = {
        "nifly::NiHeader::BlockDeleted": ("GetChildRefs", "GetPtrs"),
        "nifly::NiHeader::SetBlockOrder": ("GetChildRefs", "GetPtrs"),
        "nifly::NiHeader::FillStringRefs": ("GetStringRefs",),
        "nifly::NiHeader::UpdateHeaderStrings": ("GetStringRefs",),
        "nifly::NiHeader::IsBlockReferenced": ("GetChildRefs", "GetPtrs"),
        "nifly::NiHeader::GetBlockRefCount": ("GetChildRefs", "GetPtrs"),
    }
    for qn, need in consumers.items():
        fns = F.fn_named(qn)
        for fn in fns:
            called = set()
            for n in walk(fn["body"]):
                if n["k"] == "Call" and n.get("virt") and n.get("cls") == "nifly::NiObject":
                    called.add(n.get("short"))
            for m in need:
                ok = m in called
                chk.instance(R4, ok=ok, sample={"consumer": qn, "enumerator": m})
                if not ok:
                    chk.violation("R5.4", "C05/R5.4:%s:%s" % (qn, m), where(fn),
                                  "%s no longer consults NiObject::%s (virtual) for the blocks it fixes up" % (qn, m))
    chk.floor(R4, 7)

    chk.assumptions += [
        "member paths are compared after canonicalisation (this->a[i].b, range-for variables and reference locals -> a[*].b); "
        "distinct canonical paths are assumed not to alias",
        "a string reference needs enumeration only in versions where NiStringRef::Read/Write transfers the index "
        "(decided from their own bodies by evaluating the version guards on the call chain)",
    ]
    chk.extra["explanation"] = ("proof-style: obligations = (concrete class, serialised reference path) pairs plus chain/"
                                "side-door/consumer obligations; each is discharged by set membership in the paths the "
                                "class's own enumerators hand to the collector")
